"""C26 - the state-vector API is a faithful serialization: StateAPI.tla decided by TLC, replayed into
mj_stateSize / mj_getState / mj_setState / mj_extractState / mj_copyState / mj_resetData / mj_resetDataKeyframe."""
import concurrent.futures as cf
import os

from vlib import build, tlc, drv
from vlib.check import Machinery, VERIF
from checks import tladump

TLA = os.path.join(VERIF, "tla")
SPEC = os.path.join(TLA, "StateAPI.tla")

META = dict(
    engine="tlc-replay",
    technique="TLA+ spec StateAPI.tla (state components as tagged segments; get/set/extract/copy as the loops of "
              "engine_support.c, reset/keyframe as assignments) model-checked by TLC; the dumped states of the "
              "all-signatures run and simulated free-mode behaviours are replayed into the real API on four models "
              "with guarded buffers, comparing every returned vector, every state component of both mjData instances "
              "and the set of mjData fields that differ from a fresh instance",
    text="TLC decides on StateAPI.tla: size = length written, get = components of the signature in bit order, set after "
         "get restores them and leaves the complement and other instances untouched, extract = get of the "
         "sub-signature, copy = get;set, reset = fresh, keyframe reset loads exactly the keyframe (exhaustively for 6 "
         "components x 3 operations; all 2^14 signatures in the chain configuration). The chain behaviours of all "
         "16384 signatures are replayed on 4 models, plus simulated 14-operation behaviours mixing all operations.",
    note="Trusted: TLC, harness stateapi_drv.cc (guarded buffers, field comparison), the component -> mjData field "
         "map and the pattern values of the replay. Quick tier replays get on all signatures and the "
         "set/copy/extract chain on one fifth of them; thorough replays everything.",
    ref="DESIGN.md section 4 C26")

FIELDS = ["time", "qpos", "qvel", "act", "history", "qacc_warmstart", "ctrl", "qfrc_applied", "xfrc_applied",
          "eq_active", "mocap_pos", "mocap_quat", "userdata", "plugin_state"]
NC = 14
F_TAG, U_TAG = 0, 9
FRAMEQUAT = 27          # mjSENS_FRAMEQUAT
KEYFIELD = {1: "key_time", 2: "key_qpos", 3: "key_qvel", 4: "key_act", 7: "key_ctrl", 11: "key_mpos", 12: "key_mquat"}

M1 = """activate plugin=verif.state
option timestep=0.25 gravity=0,0,-1
size nuserdata=5
body name=b1 pos=0,0,1
joint body=b1 name=j1 type=0
geom body=b1 name=g1 type=2 size=0.1,0,0 mass=1
body name=b2 pos=1,0,1
joint body=b2 name=j2 type=2 axis=0,0,1
joint body=b2 name=j3 type=3 axis=0,1,0
geom body=b2 name=g2 type=2 size=0.1,0,0 mass=1
body name=mc1 mocap=1 pos=3,0,0
body name=mc2 mocap=1 pos=4,0,0 quat=0,1,0,0
bodyplugin body=b1 plugin=verif.state
bodyplugin body=b2 plugin=verif.state
actuator name=a1 trntype=0 target=j2 dyntype=1 gainprm=1
actuator name=a2 trntype=0 target=j3 dyntype=2 dynprm=1 gainprm=1
actuator name=a3 trntype=0 target=j2 nsample=4 delay=0.5
actuator name=a4 trntype=0 target=j3
equality name=e1 type=2 objtype=3 name1=j2 name2=j3
equality name=e2 type=0 objtype=1 name1=b1 name2=b2 data=0,0,0
equality name=e3 type=1 objtype=1 name1=b1 name2=b2
key name=k0 time=1.5 qpos=1,2,3,0,1,0,0,0.5,0.25 qvel=1,2,3,4,5,6,7,8 act=0.5,0.75 ctrl=1,2,3,4 mpos=1,2,3,4,5,6 mquat=0,0,1,0,0,0,0,1
key name=k1 time=2.5 qpos=3,2,1,0,0,1,0,1.5,1.25 qvel=8,7,6,5,4,3,2,1 act=1.5,1.75 ctrl=4,3,2,1 mpos=6,5,4,3,2,1 mquat=0,1,0,0,0,0,1,0"""
M2 = """option timestep=0.25 gravity=0,0,-1
body name=b1 pos=0,0,1
joint body=b1 name=j1 type=3 axis=0,1,0
geom body=b1 name=g1 type=2 size=0.1,0,0 mass=1
body name=b2 parent=b1 pos=1,0,0
joint body=b2 name=j2 type=3 axis=0,1,0
geom body=b2 name=g2 type=2 size=0.1,0,0 mass=1
actuator name=a1 trntype=0 target=j1 dyntype=1 gainprm=1
actuator name=a2 trntype=0 target=j2
actuator name=a3 trntype=0 target=j1
key name=k0 time=1.5 qpos=0.5,0.25 qvel=1,2 act=0.5 ctrl=1,2,3
key name=k1 time=2.5 qpos=1.5,1.25 qvel=2,1 act=1.5 ctrl=3,2,1"""
M3 = """activate plugin=verif.state
option timestep=0.125 gravity=0,0,-1
size nuserdata=1
body name=b1 pos=0,0,1
joint body=b1 name=j1 type=0
geom body=b1 name=g1 type=2 size=0.1,0,0 mass=1
site body=b1 name=s1
body name=b2 pos=1,0,1
joint body=b2 name=j2 type=1
geom body=b2 name=g2 type=6 size=0.1,0.2,0.3 mass=1
body name=mc1 mocap=1 pos=3,0,0
bodyplugin body=b2 plugin=verif.state
actuator name=a1 trntype=0 target=j2 gear=1,0,0 dyntype=2 dynprm=1 gainprm=1
actuator name=a2 trntype=0 target=j2 gear=0,1,0
sensor name=sq type=%d objtype=6 objname=s1 nsample=1
equality name=e1 type=0 objtype=1 name1=b1 name2=b2 data=0,0,0
equality name=e2 type=1 objtype=1 name1=b1 name2=b2
equality name=e3 type=0 objtype=1 name1=b2 name2=b1 data=0,0,1 active=0
equality name=e4 type=1 objtype=1 name1=b2 name2=b1
key name=k0 time=1.5 qpos=1,2,3,0,1,0,0,0,0,1,0 qvel=1,2,3,4,5,6,7,8,9 act=0.5 ctrl=1,2 mpos=1,2,3 mquat=0,0,1,0
key name=k1 time=2.5 qpos=3,2,1,0,0,1,0,0,1,0,0 qvel=9,8,7,6,5,4,3,2,1 act=1.5 ctrl=2,1 mpos=3,2,1 mquat=0,1,0,0""" % FRAMEQUAT
M4 = """option timestep=0.25
size nuserdata=2
body name=mc1 mocap=1 pos=3,0,0
geom body=mc1 name=g1 type=2 size=0.1,0,0
key name=k0 time=1.5 mpos=1,2,3 mquat=0,0,1,0
key name=k1 time=2.5 mpos=3,2,1 mquat=0,1,0,0"""
MODELS = [M1, M2, M3, M4]


def harness():
    return build.build_harness("stateapi_drv", [os.path.join(VERIF, "harness", "stateapi_drv.cc")],
                               extra=tladump.harness_digest_flag())


def sigint(s):
    return sum(1 << (c - 1) for c in s)


def fmt(v):
    return "%.17g" % v


def pattern(c, n, p):
    """user pattern p of component c (n numbers): pairwise different vectors, exactly representable"""
    if c == 10:                         # eq_active holds bytes: 0/1 only
        if p == 1:
            return [float((i + 1) % 2) for i in range(n)]
        if p == 2:
            return [float(i % 2) for i in range(n)]
        if p == 3:
            return [0.0] * n
        return [float((i // 2 + 1) % 2) for i in range(n)]
    return [p * 1000 + c * 50 + i + 0.25 for i in range(n)]


def split_obs(line):
    """'obs' output -> list of 14 lists of number strings"""
    parts = line.split("|")
    return [p.split() for p in parts]


class Model:
    """concretisation of tags for one replay model (slot numbers, component sizes, fresh and keyframe values)"""

    def __init__(self, idx, text, table):
        self.idx = idx                  # 1-based model slot
        self.text = text
        self.size = list(table)         # from the specification (ev.table of the initial state)
        self.A, self.B, self.FR = 10 * idx + 1, 10 * idx + 2, 10 * idx + 3
        self.T = {p: 10 * idx + 3 + p for p in (1, 2, 3)}
        self.fresh = None
        self.key = {}
        self._chunk = {}

    def slot(self, d):
        return self.A if d == 1 else self.B

    def setup_lines(self):
        ls = ["xmodel %d" % self.idx] + self.text.split("\n") + ["end"]
        for s in (self.A, self.B, self.FR, self.T[1], self.T[2], self.T[3]):
            ls.append("data %d %d" % (s, self.idx))
        ls.append("obs %d" % self.FR)
        for c in sorted(KEYFIELD):
            ls.append("mget %d %s" % (self.idx, KEYFIELD[c]))
        ls.append("mscalar %d nkey" % self.idx)
        for p in (1, 2, 3):
            ls += self.fill_lines(self.T[p], range(1, NC + 1), p)
            ls.append("obs %d" % self.T[p])
        return ls

    def absorb_setup(self, out):
        """consume the outputs of setup_lines; returns number of lines consumed"""
        i = 0
        if out[i] != "ok":
            raise Machinery("model %d does not compile: %s" % (self.idx, out[i]))
        i += 1
        for _ in range(6):
            if out[i] != "ok":
                raise Machinery("mj_makeData failed for model %d: %s" % (self.idx, out[i]))
            i += 1
        self.fresh = split_obs(out[i])
        i += 1
        got = [len(x) for x in self.fresh]
        if got != self.size:
            raise Machinery("model %d: component sizes %s differ from the specification's table %s"
                            % (self.idx, got, self.size))
        keyraw = {}
        for c in sorted(KEYFIELD):
            t = out[i].split()
            keyraw[c] = t[1:]
            i += 1
        nkey = int(out[i])
        i += 1
        if nkey != 2:
            raise Machinery("model %d: expected 2 keyframes" % self.idx)
        for k in range(nkey):
            self.key[k] = {c: keyraw[c][k * self.size[c - 1]:(k + 1) * self.size[c - 1]] for c in KEYFIELD}
        for p in (1, 2, 3):
            n = len(self.fill_lines(self.T[p], range(1, NC + 1), p))
            for x in out[i:i + n]:
                if x != "ok":
                    raise Machinery("pattern fill failed: " + x)
            i += n
            if out[i] != self.obs_expect([p] * NC):
                raise Machinery("pattern %d was not stored as written (model %d)" % (p, self.idx))
            i += 1
        return i

    def fill_lines(self, slot, comps, p):
        ls = []
        for c in comps:
            n = self.size[c - 1]
            if n == 0:
                continue
            vals = pattern(c, n, p)
            if c == 1:
                ls.append("settime %d %s" % (slot, fmt(vals[0])))
            else:
                ls.append("setv %d %s %s" % (slot, FIELDS[c - 1], ",".join(fmt(v) for v in vals)))
        return ls

    def vals(self, c, tag):
        """list of number strings of component c under tag"""
        k = (c, tag)
        r = self._chunk.get(k)
        if r is None:
            n = self.size[c - 1]
            if tag == F_TAG:
                r = list(self.fresh[c - 1])
            elif tag in (1, 2, 3):
                r = [fmt(v) for v in pattern(c, n, tag)]
            elif tag == U_TAG:
                r = [fmt(v) for v in pattern(c, n, 7)]
            elif tag >= 10:
                r = list(self.key[tag - 10][c])
            else:
                raise Machinery("unknown tag %r" % (tag,))
            self._chunk[k] = r
        return r

    def vec(self, seg):
        out = []
        for (c, tag) in seg:
            out += self.vals(c, tag)
        return out

    def joined(self, c, tag, sep):
        k = (c, tag, sep)
        r = self._chunk.get(k)
        if r is None:
            r = self._chunk[k] = sep.join(self.vals(c, tag))
        return r

    def vec_csv(self, seg):
        return ",".join(x for x in [self.joined(c, tag, ",") for (c, tag) in seg] if x)

    def vec_expect(self, n, seg):
        v = " ".join(x for x in [self.joined(c, tag, " ") for (c, tag) in seg] if x)
        return ("%d " % n + v) if v else "%d" % n

    def obs_expect(self, tags):
        return " |".join((" " + self.joined(c, tags[c - 1], " ")) if self.size[c - 1] else ""
                         for c in range(1, NC + 1))

    def changed_fields(self, tags):
        return sorted(FIELDS[c - 1] for c in range(1, NC + 1) if tags[c - 1] != F_TAG and self.size[c - 1] > 0)


# ---------------------------------------------------------------------------------------------------------
# script generation: every entry of `exp` is (kind, info, want) where want is the exact output line, or a
# callable line -> None | str (description of the mismatch)
# ---------------------------------------------------------------------------------------------------------
def want_vec(m, n, seg):
    if not any(tag == U_TAG for (_c, tag) in seg):
        return m.vec_expect(n, seg)
    parts = []                       # unknown segments are not compared
    for (c, tag) in seg:
        parts.append([FIELDS[c - 1], m.size[c - 1], None if tag == U_TAG else m.vals(c, tag)])
    return ["mask", n, parts]


def want_obs(m, tags):
    if U_TAG not in tags:
        return m.obs_expect(tags)
    return ["obsmask", [None if tags[c - 1] == U_TAG else m.vals(c, tags[c - 1]) for c in range(1, NC + 1)]]


def want_fields(m, tags):
    return ["fields", m.changed_fields(tags)]


WANT_ERROR = ["prefix", "error"]


def match(want, line, kind=""):
    """None if the output line satisfies the expectation, else a short class of the mismatch"""
    if isinstance(want, str):
        return None if line == want else classify(kind, want, line)
    t = want[0]
    if t == "prefix":
        return None if line.startswith(want[1]) else "no" + want[1]
    if t == "fields":
        got = sorted(x for x in line.split(",") if x and x != "-")
        if got == list(want[1]):
            return None
        extra = sorted(set(got) - set(want[1]))
        miss = sorted(set(want[1]) - set(got))
        return "extra=%s;missing=%s" % ("+".join(extra) or "-", "+".join(miss) or "-")
    if t == "mask":
        n, parts = want[1], want[2]
        tk = line.split()
        if not tk or tk[0] != str(n) or len(tk) - 1 != n:
            return "size"
        pos = 1
        for (name, k, vals) in parts:
            if vals is not None and tk[pos:pos + k] != list(vals):
                return "comp=" + name
            pos += k
        return None
    if t == "obsmask":
        got = split_obs(line)
        if len(got) != NC:
            return "shape"
        for c in range(NC):
            if want[1][c] is not None and got[c] != list(want[1][c]):
                return "comp=" + FIELDS[c]
        return None
    raise Machinery("bad expectation %r" % (want,))


def observe(m, dat, dirty, lines, exp, why):
    """after a mutating operation: every state component of both instances, and the set of fields that differ
    from a fresh mjData (only for instances on which the simulation did not run)"""
    for d in (1, 2):
        tags = dat[d - 1]
        lines.append("obs %d" % m.slot(d))
        exp.append(("obs", (why, d), want_obs(m, tags)))
        if not dirty[d - 1] and U_TAG not in tags:
            lines.append("dfresh %d %d" % (m.slot(d), m.FR))
            exp.append(("fields", (why, d), want_fields(m, tags)))


def do_event(m, ev, lines, exp):
    """script lines for one specification event (the API call and its expected return)"""
    op = ev["op"]
    if op == "size":
        lines.append("sz %d %d" % (m.idx, sigint(ev["sig"])))
        exp.append(("size", ev, str(ev["n"][m.idx - 1])))
    elif op == "sizebad":
        lines.append("sz %d %d" % (m.idx, -1 if ev["which"] == "neg" else (1 << NC)))
        exp.append(("sizebad", ev, WANT_ERROR))
    elif op == "get":
        lines.append("gs %d %d" % (m.slot(ev["d"]), sigint(ev["sig"])))
        exp.append(("get", ev, want_vec(m, ev["n"][m.idx - 1], ev["seg"])))
    elif op == "uservec":
        pass
    elif op == "set":
        lines.append(("ss %d %d %s" % (m.slot(ev["d"]), sigint(ev["sig"]), m.vec_csv(ev["seg"]))).rstrip())
        exp.append(("set", ev, "ok"))
    elif op == "extract":
        lines.append(("xs %d %d %d %s" % (m.idx, sigint(ev["srcsig"]), sigint(ev["dstsig"]),
                                          m.vec_csv(ev["src"]))).rstrip())
        exp.append(("extract", ev, want_vec(m, ev["n"][m.idx - 1], ev["seg"])))
    elif op == "extractbad":
        lines.append(("xs %d %d %d %s" % (m.idx, sigint(ev["srcsig"]), sigint(ev["dstsig"]),
                                          m.vec_csv(ev["src"]))).rstrip())
        exp.append(("extractbad", ev, WANT_ERROR))
    elif op == "copy":
        lines.append("copystate %d %d %d" % (m.slot(ev["dst"]), m.slot(ev["src"]), sigint(ev["sig"])))
        exp.append(("copy", ev, "ok"))
    elif op == "fill":
        for l in m.fill_lines(m.slot(ev["d"]), [ev["c"]], ev["p"]):
            lines.append(l)
            exp.append(("env", ev, "ok"))
    elif op == "scramble":
        lines.append("copydata %d %d" % (m.slot(ev["d"]), m.T[ev["p"]]))
        exp.append(("env", ev, "ok"))
    elif op == "simulate":
        lines.append("step %d 3" % m.slot(ev["d"]))
        exp.append(("env", ev, "ok"))
    elif op == "reset":
        lines.append("reset %d" % m.slot(ev["d"]))
        exp.append(("reset", ev, "ok"))
    elif op == "resetkey":
        lines.append("resetkey %d %d" % (m.slot(ev["d"]), ev["k"]))
        exp.append(("resetkey", ev, "ok"))
    elif op == "init":
        pass
    else:
        raise Machinery("unknown event %r" % (ev,))


def first_mismatch(exp, got):
    for i, (kind, info, want) in enumerate(exp):
        if i >= len(got):
            return i, kind, info, "<no output: harness died>", "died"
        r = match(want, got[i], kind)
        if r is not None:
            return i, kind, info, got[i], r
    return None


def classify(kind, want, got):
    """which part of an exact expectation failed (for the signature)"""
    if kind in ("get", "extract"):
        w, g = want.split(), got.split()
        if not g or not g[0].lstrip("-").isdigit():
            return got.split()[0].lower() if got else "empty"
        if w[0] != g[0]:
            return "size"
        return "values"
    if kind == "obs":
        w, g = split_obs(want), split_obs(got)
        if len(w) != len(g):
            return "shape"
        for c in range(len(w)):
            if w[c] != g[c]:
                return "comp=" + FIELDS[c]
        return "format"
    if got.startswith("error"):
        return "error"
    return "value"


# ---------------------------------------------------------------------------------------------------------
def run_tlc_jobs(ctx, jobs):
    """run independent TLC jobs concurrently (each is a thunk returning its result)"""
    with cf.ThreadPoolExecutor(len(jobs)) as ex:
        futs = {k: ex.submit(f) for k, f in jobs.items()}
        return {k: f.result() for k, f in futs.items()}


def _t(label, t0):
    tladump.timing(label, t0)


def run(ctx):
    import time
    t0 = time.time()
    exe = harness()
    _t("build", t0)
    ctx.assume("state components are compared as tagged vectors: fresh values, three user patterns, keyframe values; "
               "the numbers are exactly representable and printed with 17 digits",
               "four models (108/31/88/22 state numbers; free, ball, slide, hinge joints; mocap bodies; equalities; "
               "user data; plugin state; actuator and sensor history; activations; one model without degrees of freedom)",
               "destination signatures of mj_extractState in the exhaustive run are the signature intersected with "
               "fixed masks (3 quick / 9 thorough); arbitrary pairs appear in the simulated behaviours",
               "fields outside the state vector are compared against a fresh mjData except after the simulation ran")
    chain_cfg = "StateAPI_ChainQ.cfg" if ctx.quick else "StateAPI_Chain.cfg"
    mc_cfg = "StateAPI_MCQ.cfg" if ctx.quick else "StateAPI_MC.cfg"
    nsim = 40 if ctx.quick else 3000
    seen_init = []

    def select(blk):
        # the 16384 initial states differ only in cursig: one of them is enough (component table, initial tags)
        if 'op |-> "init"' in blk:
            if seen_init:
                return ("cursig",)
            seen_init.append(1)
            return ("ev", "dat", "cursig")
        if 'op |-> "get"' in blk or 'op |-> "extract"' in blk:
            return ("ev", "cursig")
        return ("ev", "dat", "dirty", "cursig")
    gc = ("-XX:ParallelGCThreads=2",)
    jobs = {
        "mc": lambda: tlc.run(SPEC, os.path.join(TLA, mc_cfg), coverage=True, timeout=900, workers=6, java_opts=gc),
        "chain": lambda: tladump.run_dump(SPEC, os.path.join(TLA, chain_cfg), timeout=900, coverage=True, workers=6,
                                          select=select, java_opts=gc),
        "sim": lambda: tlc.simulate(SPEC, os.path.join(TLA, "StateAPI_Sim.cfg"), num=nsim, depth=15,
                                    seed=ctx.seed + 1, timeout=1500),
        "neg1": lambda: tlc.run(SPEC, os.path.join(TLA, "StateAPI_Neg1.cfg"), timeout=600, workers=2, java_opts=gc),
    }
    if not ctx.quick:
        jobs["neg2"] = lambda: tlc.run(SPEC, os.path.join(TLA, "StateAPI_Neg2.cfg"), timeout=600, workers=2,
                                       java_opts=gc)
    out = run_tlc_jobs(ctx, jobs)
    _t("tlc jobs", t0)
    for k in ("mc", "neg1"):
        _t("  tlc %s wall" % k, time.time() - out[k].wall)
    _t("  tlc chain wall", time.time() - out["chain"][0].wall)
    _t("  tlc sim wall", time.time() - out["sim"][0].wall)
    free_actions = ["FSize", "FSizeBad", "FGet", "FUserVec", "FSet", "FExtract", "FExtractBad", "FCopy", "FFill",
                    "FSimulate", "FReset", "FResetKey"]
    ctx.tlc_ok(out["mc"], mc_cfg[:-4], need_actions=free_actions)
    res_chain, chain_states, chain_cleanup = out["chain"]
    try:
        ctx.tlc_ok(res_chain, chain_cfg[:-4], need_actions=["CGet", "CExtract", "CScramble", "CSet", "CCopy"])
        res_sim, sims = out["sim"]
        ctx.tlc_ok(res_sim, "StateAPI_Sim")
        # negative controls on the specification: a planted defect in the get order / in the frame of copy must
        # be rejected by the stated properties
        for k, prop in (("neg1", "GetIsDecl"), ("neg2", "CopyIsGetSet")):
            if k not in out:
                continue
            r = out[k]
            ctx.cov["tlc_runs"].append({"name": "StateAPI_" + k, "generated": r.generated, "distinct": r.distinct,
                                        "depth": r.depth, "wall_s": round(r.wall, 2), "violation": r.violation})
            if r.error:
                raise Machinery("TLC negative-control run %s failed: %s" % (k, r.error))
            ctx.control("TLC rejects the planted specification defect (%s)" % prop,
                        bool(r.violation) and prop in r.violation)
        # ---- collect the chain run: one record per signature
        table = None
        init_dat = None
        per = {}
        nstates = 0
        for st in chain_states():
            nstates += 1
            s = sigint(st["cursig"])
            rec = per.setdefault(s, {"ext": []})
            ev = st.get("ev")
            if ev is None:                    # an initial state other than the first
                continue
            op = ev["op"]
            if op == "init":
                table = ev["table"]
                init_dat = st["dat"]
            elif op == "extract":
                rec["ext"].append(ev)
            elif op == "get":
                rec[op] = (ev, None, None)
            else:
                rec[op] = (ev, st["dat"], st["dirty"])
        if table is None or nstates != res_chain.distinct:
            raise Machinery("state dump incomplete: %d states parsed, TLC reports %d" % (nstates, res_chain.distinct))
    finally:
        chain_cleanup()
    _t("dump parsed", t0)
    if len(per) != 1 << NC:
        raise Machinery("chain run covers %d signatures instead of %d" % (len(per), 1 << NC))
    models = [Model(i + 1, MODELS[i], table[i]) for i in range(len(MODELS))]

    # ---- one harness process per model
    def replay_model(m):
        setup = m.setup_lines()
        r0 = drv.run_script(exe, setup, timeout=600)
        if r0.crashed:
            raise Machinery("setup of model %d failed: %s" % (m.idx, r0.crash_text()))
        nsetup = m.absorb_setup(r0.lines)
        lines, exp, index = [], [], []
        clean = False
        for s in sorted(per):
            rec = per[s]
            start = len(lines)
            if not clean:
                for d in (1, 2):
                    p = init_dat[d - 1][0]
                    lines.append("copydata %d %d" % (m.slot(d), m.T[p]))
                    exp.append(("env", None, "ok"))
                clean = True
            do_event(m, rec["get"][0], lines, exp)
            for ev in sorted(rec["ext"], key=lambda e: sigint(e["dstsig"])):
                do_event(m, ev, lines, exp)
            if "scramble" in rec:
                for op in ("scramble", "set", "copy"):
                    ev, dat, dirty = rec[op]
                    do_event(m, ev, lines, exp)
                    observe(m, dat, dirty, lines, exp, op)
                clean = False
            index.append(("chain", s, start, len(lines)))
        for bi, beh in enumerate(sims):
            start = len(lines)
            for d in (1, 2):
                lines.append("data %d %d" % (m.slot(d), m.idx))
                exp.append(("env", None, "ok"))
            for (_a, st) in beh:
                ev = st["ev"]
                n0 = len(lines)
                do_event(m, ev, lines, exp)
                if len(lines) > n0 or ev["op"] == "init":
                    observe(m, st["dat"], st["dirty"], lines, exp, ev["op"])
            index.append(("sim", bi, start, len(lines)))
        r = drv.run_script(exe, setup + lines, timeout=1500)
        return setup, nsetup, lines, exp, index, r

    with cf.ThreadPoolExecutor(len(models)) as ex:
        results = list(ex.map(replay_model, models))

    _t("harness runs", t0)
    ctrl_done = False
    for m, (setup, nsetup, lines, exp, index, r) in zip(models, results):
        got = r.lines[nsetup:]
        if not ctrl_done:
            # negative control on the comparer: a perturbed expected vector must be flagged
            k = next(i for i, e in enumerate(exp) if e[0] == "get" and isinstance(e[2], str) and " " in e[2])
            bad = list(exp[:k + 1])
            w = bad[k][2].split()
            w[-1] = fmt(float(w[-1]) + 1)
            bad[k] = (bad[k][0], bad[k][1], " ".join(w))
            ctx.control("perturbed expected state vector is flagged", first_mismatch(bad, got[:k + 1]) is not None)
            ctrl_done = True
        for (kind, ident, a, b) in index:
            mm = first_mismatch(exp[a:b], got[a:b])
            if kind == "chain":
                key = {"model": m.idx, "sig": ident}
                ctx.case(key, nontrivial=ident != 0, sample={"model": m.idx, "signature": ident,
                                                             "ops": [e[0] for e in exp[a:b]][:8]})
            else:
                ops = [st["ev"]["op"] for (_x, st) in sims[ident]]
                ctx.case({"model": m.idx, "sim": ident, "ops": ops}, nontrivial=len(ops) > 1)
            if mm is None:
                ctx.trace_ok()
                continue
            i, ekind, info, g, cls = mm
            if ekind in ("obs", "fields"):
                why, d = info
                sig = "%s:after-%s:%s" % (ekind, why, cls)
                what = "after %s, instance %d of model %d: %s mismatch (%s); got %r" % (why, d, m.idx, ekind, cls, g[:200])
            else:
                sig = "%s:%s" % (ekind, cls)
                what = "%s on model %d returned %r, specification event %r (%s)" % (
                    ekind, m.idx, g[:200], tlc.to_py(info) if info else None, cls)
            if cls == "died":
                sig = "crash"
                what = "harness died: " + r.crash_text()
            want = exp[a + i][2]
            ctx.violation(sig, what, {"model": m.idx, "script": setup + lines[:a + i + 1] if kind == "sim" else
                                      setup + lines[a:a + i + 1],
                                      "want": want, "got": g,
                                      "kind": kind, "ident": ident})
    _t("compared", t0)
    ctx.cov["exhaustive"] = bool(res_chain.finished)
    nchain = sum(1 for s in per if "scramble" in per[s])
    ctx.cov["rule"] = ("per model (4): mj_getState on all %d signatures, the extract/scramble/set/copy chain on %d of "
                       "them (every dumped state of %s), %d simulated free-mode behaviours of 14 operations; after every "
                       "mutating call all 14 components of both instances and the set of mjData fields differing from "
                       "a fresh instance are compared; non-trivial = non-empty signature / at least one operation; "
                       "distinct = (model, signature) or (model, operation sequence)"
                       % (len(per), nchain, chain_cfg, len(sims)))


def replay(ctx, rp):
    exe = harness()
    d = rp["replay"]
    r = drv.run_script(exe, d["script"], timeout=600)
    got = r.lines[-1] if r.lines else "<none>"
    print("last line: want %s got %s" % (str(d["want"])[:200], got[:200]))
    if match(d["want"], got) is not None:
        ctx.violation(rp["signature"], rp["what"], d)
    ctx.case({"replay": rp["signature"]})
    ctx.case({"replay": rp["signature"], "x": 1})
