"""C37 on the REAL reader: tla/MjcfDocs.tla (documents over a slice of the real MJCF[] table with value classes;
verdict valid / validcode / kinds) model-checked by TLC; every dumped document is rendered to MJCF text and given to
mj_parseXMLString (and mj_parseXMLString + mj_compile) of the working tree through harness/xmlload_drv.cc, which
links all of src/xml/*.cc against the stand-in shim/fullxml/tinyxml2.h.  A seeded mutation stage runs under the
asan variant; there only deaths count.  Entry points: run_real(ctx), replay_real(ctx, replay_dict)."""
import glob
import os
import random
import re
import shutil
import tempfile

from vlib import build, tlc, drv
from vlib.check import Machinery, VERIF
from checks import _schema_render as R

TLA = os.path.join(VERIF, "tla")
SPEC = os.path.join(TLA, "MjcfDocs.tla")
SIG_ALIAS = "accepted-invalid:under-alias"          # the known structural finding of checks/c37.py

# errors that mean "the document is not in the language" (schema pass, tokenizer, attribute typing)
LANG_ERR = re.compile(r"Schema violation|XML parse error|bad format in attribute|has too much data|does not have enough data|"
                      r"invalid keyword|problem reading attribute|number is too large|unrecognized")


def harness(variant="plain"):
    srcs = [os.path.join(VERIF, "harness", "xmlload_drv.cc")] + sorted(glob.glob(os.path.join(build.REPO, "src", "xml", "*.cc")))
    return build.build_harness("xmlload_drv", srcs, variant=variant, extra=["-I" + os.path.join(VERIF, "shim", "fullxml")],
                               ldflags=["-rdynamic"])


# ----------------------------------------------------------------------------------------------
# the table of the specification, and its facts re-derived from the working tree
# ----------------------------------------------------------------------------------------------
def spec_rows(res):
    m = re.search(r'<<\s*"ROWS"', res.out)
    if not m:
        raise Machinery("MjcfDocs.tla did not print its table")
    i = m.start()
    depth, j = 0, i
    while j < len(res.out):
        if res.out.startswith("<<", j):
            depth += 1
            j += 2
            continue
        if res.out.startswith(">>", j):
            depth -= 1
            j += 2
            if depth == 0:
                break
            continue
        j += 1
    rows = tlc.parse_value(res.out[i:j])[1]
    return {k + 1: r for k, r in enumerate(rows)} if isinstance(rows, tuple) else dict(rows)


TYPE_OF_SCHEMA = {("double", 1, 1): "d1", ("float", 1, 1): "d1", ("double", 2, 2): "d2", ("double", 3, 3): "d3", ("double", 6, 6): "d6",
                  ("double", 7, 7): "d7", ("int", 1, 1): "i1"}


def check_facts(rows):
    """every fact of the slice against src/xml/generated/mjcf_table.inc and src/xml/mjcf.schema; returns keyword map"""
    from checks import c42
    table = c42.parse_table(open(os.path.join(build.REPO, "src", "xml", "generated", "mjcf_table.inc")).read())
    ms = R.load("mjcf_schema")
    schema = ms.parse_file(R.REAL_SCHEMA)
    # tree of the real table
    stack, tree = [], {}
    root = None
    prev = None
    for e in table:
        if e[0] == "<":
            stack.append(prev)
        elif e[0] == ">":
            stack.pop()
        else:
            node = {"row": e, "kids": []}
            if stack:
                stack[-1]["kids"].append(node)
            else:
                root = node
            prev = node
    kw = {}
    all_names = {r["name"] for r in rows.values()}

    def walk(rid, node, path):
        r = rows[rid]
        e = node["row"]
        if e[1] != r["name"] or e[2] != r["type"]:
            raise Machinery("fact: row %d is %s %s, real table has %s %s at %s" % (rid, r["name"], r["type"], e[1], e[2], path))
        names = {a[0] for a in r["attrs"]}
        if not names <= set(e[3]):
            raise Machinery("fact: %s lacks attributes %s" % (path, names - set(e[3])))
        want = set()
        for (kind, bundles) in e[4]:
            if kind == "e":
                b = tuple(frozenset(x) & names for x in bundles)
                b = tuple(x for x in b if x)
                if len(b) >= 2:
                    want.add((kind, b))
            elif kind == "o":
                b = tuple(frozenset(x) for x in bundles if set(x) <= names)
                want.add((kind, b))
            else:
                listed = set().union(*map(set, bundles))
                if listed & names and not listed <= names:
                    raise Machinery("fact: 't' constraint of %s only partly inside the slice" % path)
                if listed <= names:
                    want.add((kind, tuple(frozenset(x) for x in bundles)))
        have = {(c["kind"], tuple(frozenset(x) for x in c["b"])) for c in r["cons"]}
        if {(k, frozenset(b)) for k, b in want} != {(k, frozenset(b)) for k, b in have}:
            raise Machinery("fact: constraints of %s: real (restricted) %r, specification %r" % (path, sorted(map(str, want)), sorted(map(str, have))))
        # attribute types from the schema: any element with this XML tag that has the attribute
        for (an, ty) in r["attrs"]:
            cands = [a for el in schema.elements.values() if el.xml_name() == r["name"] or (r["name"] == "body" and el.name == "body")
                     for a in schema.expanded_attrs(el) if a.name == an]
            if not cands:
                raise Machinery("fact: no schema attribute %s.%s" % (r["name"], an))
            a = cands[0]
            if ty == "kw":
                if a.type == "bool":
                    kw[(r["name"], an)] = ["true", "false"]
                elif a.type == "enum":
                    ks = [set(schema.enums[c.target].keywords()) for c in cands if c.type == "enum"]
                    common = set.intersection(*ks)
                    kw[(r["name"], an)] = [k for k in schema.enums[a.target].keywords() if k in common]
                else:
                    raise Machinery("fact: %s.%s is %s, not an enum" % (r["name"], an, a.type))
            elif ty == "s":
                pass                                  # text, or a value the slice never types (quat, memory)
            elif ty in ("v3", "v6"):
                if not (a.type in ("double", "float") and a.arity.hi == int(ty[1]) and a.arity.lo < a.arity.hi):
                    raise Machinery("fact: %s.%s arity %r" % (r["name"], an, (a.type, a.arity.lo, a.arity.hi)))
            elif TYPE_OF_SCHEMA.get((a.type, a.arity.lo, a.arity.hi)) != ty:
                raise Machinery("fact: %s.%s is %s[%s..%s], specification says %s" % (r["name"], an, a.type, a.arity.lo, a.arity.hi, ty))
        # a tag the documents may use (any slice row name) that is a REAL child here must be a sub-row of the slice too
        slice_kids = {rows[sid]["name"] for sid in r["subs"]}
        for kid in node["kids"]:
            if kid["row"][1] in all_names and kid["row"][1] not in slice_kids:
                raise Machinery("fact: %s really admits <%s>, the slice does not" % (path, kid["row"][1]))
        pos = -1
        for sid in r["subs"]:
            idx = [k for k, kid in enumerate(node["kids"]) if kid["row"][1] == rows[sid]["name"]]
            idx = [k for k in idx if k > pos]
            if not idx:
                raise Machinery("fact: %s has no sub-row %s (in that order)" % (path, rows[sid]["name"]))
            pos = idx[0]
            walk(sid, node["kids"][pos], path + "/" + rows[sid]["name"])

    walk(1, root, "mujoco")
    return kw


# ----------------------------------------------------------------------------------------------
# rendering
# ----------------------------------------------------------------------------------------------
OKVAL = {"d1": "0.5", "d2": "0 1", "d3": "0 0 1", "d6": "0 0 0 0 0 1", "d7": "0 0 0 1 0 0 0", "v3": "0.1 0.2", "v6": "1 2", "i1": "3"}
STRVAL = {"memory": "1M", "quat": "1 0 0 0", "model": "m", "class": "c1"}


def value(tag, name, vclass, ty, kw, salt):
    if vclass == "ok":
        if ty == "kw":
            ks = kw.get((tag, name)) or kw.get(("body" if tag in ("worldbody", "frame", "replicate") else tag, name)) or ["true"]
            return ks[salt % len(ks)]
        if ty == "s":
            return STRVAL.get(name, "n%d" % (salt % 5) if name == "name" else "x1")
        return OKVAL[ty]
    if vclass == "text":
        return "abc"
    if vclass == "nonint":
        return "1.5"
    if vclass == "many":
        return (OKVAL[ty] + " 1 2 3 4 5 6 7").strip()
    if vclass == "few":
        return "1"
    if vclass == "kwbad":
        return "zzkw"
    raise Machinery("value class " + vclass)


def render(doc, kw, salt=0):
    nodes = {tuple(n["path"]): n for n in doc}

    def emit(p, ind):
        n = nodes[p]
        attrs = "".join(' %s="%s"' % (a[0], value(n["tag"], a[0], a[1], a[2], kw, salt + len(p)))
                        for a in sorted(n["attrs"], key=lambda x: x[0]))
        kids = sorted(q for q in nodes if len(q) == len(p) + 1 and q[:len(p)] == p)
        pad = "  " * ind
        if not kids:
            return "%s<%s%s/>\n" % (pad, n["tag"], attrs)
        return "%s<%s%s>\n%s%s</%s>\n" % (pad, n["tag"], attrs, "".join(emit(k, ind + 1) for k in kids), pad, n["tag"])

    return emit((), 0)


# ----------------------------------------------------------------------------------------------
# driving the harness
# ----------------------------------------------------------------------------------------------
def decode(line):
    t = line.split()
    if not t:
        return ("none", "")
    msg = ""
    if len(t) > 1 and t[1] != "-":
        try:
            msg = bytes.fromhex(t[1]).decode(errors="replace")
        except ValueError:
            msg = t[1]
    return (t[0], msg)


def run_batch(exe, cmds, timeout=120, chunk=400, cwd=None):
    """one result per command: (kind, msg) with kind in ok/err/cerr/emptyerr/abort, or ('death', text) for the
    command on which the process died or hung (the batch continues after it in a new process)"""
    out = []
    i = 0
    while i < len(cmds):
        part = cmds[i:i + chunk]
        r = drv.run_script(exe, part, timeout=timeout, cwd=cwd)
        got = [decode(l) for l in r.lines[:len(part)]]
        good = [g for g in got if g[0] in ("ok", "err", "cerr", "emptyerr", "abort")]
        out += good
        i += len(good)
        if len(good) < len(part):
            txt = r.crash_text() if r.crashed else "no output"
            m = re.search(r"(SUMMARY: [^\n]*)", r.err)
            fr = re.findall(r"#\d+ \S+ in (\S+) /repo/(\S+?):", r.err)
            out.append(("death", "%s %s %s" % (txt[:80], m.group(1) if m else "", fr[0] if fr else "")))
            i += 1
    return out


def where_of(text):
    fr = re.search(r"\('([\w:~<>]+)', '(src/[\w/\.]+)'\)", text)
    if fr:
        return fr.group(1)
    m = re.search(r"SUMMARY: \w+: ([\w-]+) /repo/(src/[\w/\.]+)", text)
    if m:
        return m.group(1) + "@" + os.path.basename(m.group(2))
    return "timeout" if "SIGALRM" in text or "timeout" in text else "unknown"


class Judge:
    def __init__(self, ctx):
        self.ctx = ctx
        self.n = {"valid-accepted": 0, "valid-later-stage": 0, "invalid-rejected": 0}
        self.later = {}

    def judge(self, ev, res, doc):
        """None or (signature, what)"""
        kind, msg = res
        kinds = sorted("%s%s" % (k[0], "-" + k[1] if k[1] else "") for k in ev["kinds"])
        if kind == "death":
            return ("crash:document:%s" % where_of(msg), "reader died on a generated document: " + msg)
        if kind == "abort":
            return ("abort:mju_error:%s" % ("valid" if ev["valid"] else kinds[0]), "mju_error (aborts the program) instead of an error return: " + msg[:200])
        if ev["valid"]:
            if kind == "ok":
                self.n["valid-accepted"] += 1
                return None
            if kind == "emptyerr":
                return ("rejected-valid:empty-error", "conforming document rejected with an empty error")
            if kind == "cerr" or not LANG_ERR.search(msg):
                self.n["valid-later-stage"] += 1
                key = re.sub(r"'[^']*'|\d+", "_", msg.split("\n")[0])[:60]
                self.later[key] = self.later.get(key, 0) + 1
                return None
            cls = LANG_ERR.search(msg).group(0).replace(" ", "-")
            return ("rejected-valid:%s" % cls, "conforming document rejected for a schema reason: " + msg[:200].replace("\n", " | "))
        # invalid
        if kind in ("err", "cerr"):
            if kind == "cerr":
                return ("accepted-invalid:%s" % "+".join(kinds), "invalid document (%s) passed the reader and failed only in mj_compile: %s" % (kinds, msg[:120]))
            self.n["invalid-rejected"] += 1
            return None
        if kind == "emptyerr":
            return ("rejected-invalid:empty-error", "invalid document (%s) rejected with an EMPTY error message" % kinds)
        if ev["validcode"] and any(n["tag"] in ("frame", "replicate") for n in doc):
            return (SIG_ALIAS, "invalid document (%s) accepted: the schema pass does not descend below frame/replicate" % kinds)
        return ("accepted-invalid:%s" % "+".join(kinds), "invalid document (%s) accepted by the real reader" % kinds)


# ----------------------------------------------------------------------------------------------
# mutation stage (crash clause): only deaths count
# ----------------------------------------------------------------------------------------------
MUTATORS = ("flip", "trunc", "dupquote", "dropquote", "dupbracket", "dropbracket", "hugenum", "deep", "entity", "longattr",
            "manyattr", "dupattr", "ctrlchar", "comment", "cdata", "swaptag")


def mutate(text, how, rng):
    b = text
    n = len(b)
    if how == "flip":
        k = rng.randrange(n)
        return b[:k] + chr((ord(b[k]) ^ (1 << rng.randrange(7))) & 0x7f or 65) + b[k + 1:]
    if how == "trunc":
        return b[:rng.randrange(1, n)]
    if how in ("dupquote", "dropquote", "dupbracket", "dropbracket"):
        ch = '"' if "quote" in how else rng.choice("<>/")
        pos = [i for i, c in enumerate(b) if c == ch]
        if not pos:
            return b
        k = rng.choice(pos)
        return b[:k] + (ch + ch if how.startswith("dup") else "") + b[k + 1:]
    if how == "hugenum":
        nums = list(re.finditer(r"(?<=[\" ])-?\d+(\.\d+)?(?=[\" ])", b))
        if not nums:
            return b
        m = rng.choice(nums)
        big = rng.choice(["1e999", "-1e999", "9" * 400, "1e-999", "nan", "-inf", "0x7fffffff", "2147483648", "-2147483649",
                          "99999999999999999999", "1" + "0" * 5000, "1.7976931348623157e308", "4294967296"])
        return b[:m.start()] + big + b[m.end():]
    if how == "deep":
        d = rng.choice([50, 200, 400, 499, 500, 501, 700])
        inner = rng.choice(["<geom size=\"1\"/>", "", "<body/>"])
        tag = rng.choice(["body", "frame", "default", "replicate"])
        nest = "<%s>" % tag * d + inner + "</%s>" % tag * d
        if tag == "default":
            return "<mujoco>" + nest + "</mujoco>"
        return "<mujoco><worldbody>" + nest + "</worldbody></mujoco>"
    if how == "entity":
        ent = rng.choice(["&amp;", "&lt;", "&#0;", "&#x0;", "&#99999999999;", "&#xFFFFFFFFF;", "&bogus;", "&", "&#;", "&#x;", "&amp;amp;",
                          "&#55296;", "&#x10FFFF;", "&quot;&apos;", "&" + "a" * 3000 + ";"])
        pos = [i for i, c in enumerate(b) if c == '"']
        k = rng.choice(pos) + 1 if pos else 0
        return b[:k] + ent + b[k:]
    if how == "longattr":
        pos = [i for i, c in enumerate(b) if c == '"']
        k = rng.choice(pos) + 1 if pos else 0
        return b[:k] + rng.choice(["x", "1 ", "ab ", "\t"]) * rng.choice([1000, 70000]) + b[k:]
    if how == "manyattr":
        k = b.find("<mujoco") + 7
        return b[:k] + "".join(' a%d="1"' % i for i in range(rng.choice([100, 3000]))) + b[k:]
    if how == "dupattr":
        m = list(re.finditer(r' (\w+)="[^"]*"', b))
        if not m:
            return b
        x = rng.choice(m)
        return b[:x.end()] + x.group(0) + b[x.end():]
    if how == "ctrlchar":
        k = rng.randrange(n)
        return b[:k] + rng.choice(["\x01", "\x7f", "\x1b", "\r", "\x0c", "\xff", "﻿", " "]) + b[k:]
    if how == "comment":
        k = rng.choice([i for i, c in enumerate(b) if c == "<"] or [0])
        return b[:k] + rng.choice(["<!--", "<!-- x -->", "<!---->", "<!-- -- -->", "<?xml version=\"1.0\"?>", "<!DOCTYPE mujoco [<!ENTITY a \"b\">]>", "<?"]) + b[k:]
    if how == "cdata":
        k = rng.choice([i for i, c in enumerate(b) if c == ">"] or [0]) + 1
        return b[:k] + rng.choice(["<![CDATA[ x ]]>", "<![CDATA[", "text", "]]>"]) + b[k:]
    if how == "swaptag":
        tags = re.findall(r"<(\w+)", b)
        if len(tags) < 2:
            return b
        a, c = rng.sample(tags, 2)
        return b.replace("<" + a, "<" + c, 1)
    return b


def model_files(limit):
    fs = sorted(glob.glob(os.path.join(build.REPO, "model", "*", "*.xml")))
    fs = [f for f in fs if os.path.getsize(f) < 20000]
    return fs[:: max(1, len(fs) // limit)][:limit]


# ----------------------------------------------------------------------------------------------
def run_real(ctx):
    exe = harness("plain")
    exe_asan = harness("asan")
    ctx.assume("real reader = all of src/xml/*.cc of the working tree linked against the stand-in shim/fullxml/tinyxml2.h "
               "(tokenizer / DOM are the shim's, not tinyxml2's); generated documents are well-formed XML",
               "documents range over the 24-row slice of the real MJCF[] table carried by MjcfDocs.tla (facts re-derived from "
               "mjcf_table.inc and mjcf.schema at run time); the real table has no 'r' constraint and no '!' row except the root",
               "a conforming document rejected by a later, non-schema stage (missing references, class names, compile) is not an alarm",
               "mutation stage: only deaths (signal, sanitizer report, hang > timeout, mju_error abort) are violations; "
               "mj_compile is exercised with the plain build only (the asan build halts on a memcpy(NULL, ., 0) of mju_copyInt "
               "in mj_makeDofDofMaps for models without degrees of freedom, an engine matter outside the reader)")
    import concurrent.futures as cf
    cfgs = ["MjcfDocs_N1.cfg", "MjcfDocs_A1.cfg", "MjcfDocs_A2c.cfg"] if ctx.quick else \
           ["MjcfDocs_N1.cfg", "MjcfDocs_A1.cfg", "MjcfDocs_A2.cfg"]
    with cf.ThreadPoolExecutor(6) as ex:
        fneg = ex.submit(tlc.run, SPEC, os.path.join(TLA, "MjcfDocs_Neg.cfg"), timeout=600)
        # thorough: the design invariants on every document one element AND one attribute away (94k), not replayed
        fmc = None if ctx.quick else ex.submit(tlc.run, SPEC, os.path.join(TLA, "MjcfDocs_MC.cfg"), timeout=3000)
        futs = [ex.submit(tlc.dump_states, SPEC, os.path.join(TLA, c), timeout=3000) for c in cfgs]
        dumps = [f.result() for f in futs]
        neg = fneg.result()
        if fmc is not None:
            ctx.tlc_ok(fmc.result(), "MjcfDocs_MC")
    ctx.tlc_ok(neg, "MjcfDocs_Neg", allow_violation=True)
    ctx.control("negative configuration: TLC finds a document that violates NeverInvalid", bool(neg.violation) and "NeverInvalid" in neg.violation)
    states = {}
    rows = None
    for c, (res, sts) in zip(cfgs, dumps):
        ctx.tlc_ok(res, c[:-4])
        rows = rows or spec_rows(res)
        for s in sts:
            states.setdefault(repr(tlc.to_py(s["doc"])), s)
    if len(states) < 500:
        raise Machinery("only %d documents" % len(states))
    kw = check_facts(rows)
    docs = [states[k] for k in sorted(states)]
    # vacuity: verdicts, violation kinds, value classes
    kinds = set()
    for s in docs:
        kinds |= {"%s%s" % (k[0], "-" + k[1] if k[1] else "") for k in s["ev"]["kinds"]}
    need = {"unknown-element", "unknown-attribute", "cardinality", "constraint-e", "constraint-o", "constraint-t", "wrong-root",
            "value-text", "value-many", "value-few", "value-nonint", "value-kwbad"}
    if not need <= kinds:
        raise Machinery("vacuity: violation kinds never reached: %s" % sorted(need - kinds))
    classes = {a[1] for s in docs for n in s["doc"] for a in n["attrs"]}
    if not {"ok", "text", "many", "few", "nonint", "kwbad"} <= classes:
        raise Machinery("vacuity: value classes reached: %s" % sorted(classes))
    if not any(s["ev"]["valid"] for s in docs) or all(s["ev"]["valid"] for s in docs):
        raise Machinery("vacuity: one verdict only")
    texts = [render(s["doc"], kw, salt=i) for i, s in enumerate(docs)]
    J = Judge(ctx)
    # 1. mj_parseXMLString on every document; mj_parseXMLString + mj_compile on every third
    res_p = run_batch(exe, ["parse " + drv.hx(t) for t in texts], timeout=300)
    sub = list(range(0, len(texts), 3 if not ctx.quick else 6))
    # (sanitizer build: the never-triggers-undefined-behaviour clause covers compilation of what was read, too)
    res_c = run_batch(exe_asan, ["loadstr " + drv.hx(texts[i]) for i in sub], timeout=600)
    comp = dict(zip(sub, res_c))
    first = True
    for i, (s, t, r) in enumerate(zip(docs, texts, res_p)):
        ev = s["ev"]
        ctx.case({"doc": t}, nontrivial=len(s["doc"]) > 1,
                 sample={"xml": t[:300], "valid": ev["valid"], "kinds": sorted(map(str, ev["kinds"]))})
        if first:
            flipped = dict(ev, valid=not ev["valid"], validcode=not ev["valid"], kinds=frozenset() if not ev["valid"] else frozenset({("unknown-element", "")}))
            ctx.control("comparer flags a flipped expectation", Judge(ctx).judge(flipped, r, s["doc"]) is not None)
            first = False
        bad = J.judge(ev, r, s["doc"])
        if bad is None and i in comp:
            c = comp[i]
            if c[0] in ("death", "abort"):
                bad = Judge(ctx).judge(ev, c, s["doc"])
            elif not ev["valid"] and c[0] in ("ok", "cerr"):
                bad = Judge(ctx).judge(ev, c, s["doc"])
        if bad is None:
            ctx.trace_ok()
        else:
            ctx.violation(bad[0], bad[1] + " | document: " + t[:500].replace("\n", " "),
                          {"mode": "real", "op": "parse", "xml": t, "valid": bool(ev["valid"]), "validcode": bool(ev["validcode"]),
                           "kinds": sorted(list(k) for k in ev["kinds"]), "alias": any(n["tag"] in ("frame", "replicate") for n in s["doc"]),
                           "signature": bad[0]})
    if J.n["valid-accepted"] == 0 or J.n["invalid-rejected"] == 0:
        raise Machinery("vacuity: %r" % J.n)
    ctx.control("error classification: schema / typing messages are language errors, reference errors are not",
                bool(LANG_ERR.search("XML Error: Schema violation: unrecognized attribute")) and bool(LANG_ERR.search("attribute 'size' has too much data"))
                and not LANG_ERR.search("Error: unknown body 'x1' in equality"))
    # 2. crash clause: seeded mutations of valid documents and shipped models, asan build (reader only) + plain build (with compile)
    rng = random.Random(ctx.seed * 7919 + 37)
    valid_texts = [t for s, t in zip(docs, texts) if s["ev"]["valid"]]
    seeds_txt = rng.sample(valid_texts, min(len(valid_texts), 25 if ctx.quick else 120))
    for f in model_files(6 if ctx.quick else 30):
        seeds_txt.append(open(f, encoding="utf-8", errors="replace").read())
    per = 8 if ctx.quick else 40
    muts = []
    for t in seeds_txt:
        for _ in range(per):
            how = rng.choice(MUTATORS)
            m = mutate(t, how, rng)
            if rng.random() < 0.25:
                how2 = rng.choice(MUTATORS)
                m = mutate(m, how2, rng) if m else m
                how += "+" + how2
            muts.append((how, m.replace("\x00", "")))
    for d in (50, 499, 500, 501, 700):                        # deep nesting at and around the shim's depth limit
        muts.append(("deep", mutate("", "deep", random.Random(d))))
    enc = lambda m: drv.hx(m.encode("utf-8", errors="replace"))     # noqa: E731
    ra = run_batch(exe_asan, ["parse " + enc(m) for _h, m in muts], timeout=240, chunk=150)
    rp = run_batch(exe, ["loadstr " + enc(m) for _h, m in muts], timeout=240, chunk=150)
    rq = run_batch(exe_asan, ["loadstr " + enc(m) for _h, m in muts], timeout=600, chunk=150)
    hows = set()
    for (how, m), a, p, q in zip(muts, ra, rp, rq):
        hows.add(how.split("+")[0])
        ctx.case({"mut": how, "xml": m[:2000]}, sample={"mutator": how, "xml": m[:200]})
        bad = None
        for variant, r, op in (("asan", a, "parse"), ("plain", p, "loadstr"), ("asan", q, "loadstr")):
            if r[0] == "death":
                bad = ("crash:%s:%s" % (how.split("+")[0], where_of(r[1])), "reader died (%s build, %s) on a mutated input: %s" % (variant, op, r[1]), variant, op)
            elif r[0] == "abort":
                bad = ("abort:mju_error:%s" % how.split("+")[0], "mju_error instead of an error return (%s build): %s" % (variant, r[1][:200]), variant, op)
            elif r[0] == "emptyerr":
                bad = ("rejected:empty-error:%s" % how.split("+")[0], "input rejected with an EMPTY error message (%s build)" % variant, variant, op)
            if bad:
                break
        if bad is None:
            ctx.trace_ok()
        else:
            ctx.violation(bad[0], bad[1] + " | input (first 300 chars): " + repr(m[:300]),
                          {"mode": "real", "op": bad[3], "variant": bad[2], "xml": m if len(m) < 200000 else None,
                           "nocrash": True, "signature": bad[0]})
    if not set(MUTATORS) <= hows:
        raise Machinery("vacuity: mutators never used: %s" % sorted(set(MUTATORS) - hows))
    ctx.cov["real_reader"] = {"documents": len(docs), "verdicts": J.n, "later_stage_messages": dict(sorted(J.later.items(), key=lambda x: -x[1])[:6]),
                              "violation_kinds": sorted(kinds), "mutants": len(muts)}


def replay_real(ctx, r):
    """r = the replay dict of a violation raised by run_real; returns None or (signature, what)"""
    exe = harness(r.get("variant", "plain"))
    if r.get("xml") is None:
        raise Machinery("replay input not recorded (too large)")
    res = run_batch(exe, ["%s %s" % (r.get("op", "parse"), drv.hx(r["xml"].encode("utf-8", errors="replace")))], timeout=120)[0]
    print("real reader:", res[0], res[1][:160].replace("\n", " | "))
    ctx.case({"replay": r.get("signature")})
    ctx.case({"replay": r.get("signature"), "x": 1})
    if r.get("nocrash"):
        if res[0] in ("death", "abort", "emptyerr"):
            return (r["signature"], "still dies / aborts: " + res[1][:200])
        return None
    ev = {"valid": r["valid"], "validcode": r["validcode"], "kinds": frozenset(tuple(k) for k in r["kinds"])}
    doc = [{"tag": "frame"}] if r.get("alias") else []
    return Judge(ctx).judge(ev, res, doc)
