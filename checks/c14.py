"""C14 - collision pair selection is complete and respects the filters: CollisionFilter.tla decided by TLC, its
mj_forward events replayed into mj_forward on models realising the specification's configurations; the set of
contact geom pairs is compared."""
import concurrent.futures as cf
import os
import re
import time

from vlib import build, tlc, drv
from vlib.check import Machinery, VERIF
from checks import tladump

TLA = os.path.join(VERIF, "tla")
SPEC = os.path.join(TLA, "CollisionFilter.tla")
DRV = os.path.join(VERIF, "harness", "collision_drv.cc")

META = dict(
    engine="tlc-replay",
    technique="TLA+ spec CollisionFilter.tla (forest of world / welded / slide-joint / mocap bodies; spheres and planes at "
              "integer positions with contype, conaffinity, margin and gap; explicit pairs; excludes; disable flags "
              "filterparent, midphase, contact, constraint; mj_collision as the phases Broad (body-pair filters, body "
              "masks, bounding intervals), Merge (explicit pairs, exclusion, geom masks, bounding spheres) and Narrow) "
              "model-checked by TLC against the brute-force selection rule; every mj_forward event of the exhaustive "
              "state space and of simulated histories (moves and flag toggles in between) is replayed",
    text="TLC decides on CollisionFilter.tla that the three-phase pipeline yields exactly the brute-force selection "
         "(bitmask unless explicit pair, exclude, same weld group, parent-child unless disabled or parent is the world "
         "group, both groups without degrees of freedom, within margin + gap), that the broad phase keeps every body "
         "pair holding a selected geom pair, and that nothing is reported with contacts or constraints disabled. "
         "Every mj_forward event is executed on a compiled model: the multiset of contact geom pairs with their in-gap "
         "flag must equal the specification's set, with midphase enabled and disabled, and a second mj_forward must "
         "return the same list in the same order.",
    note="Trusted: TLC, harness collision_drv.cc, the rendering of a configuration as a model (checks/c14.py: "
         "model_lines). Configurations with a geom pair exactly on a margin threshold are outside the lattice. Not "
         "covered: meshes, height fields, flexes, sleeping, margin override, user contact filter callback, threads; the "
         "float cast of sweep-and-prune bounds (mj_SAP) can in principle drop a pair whose bounding intervals overlap "
         "by less than 1e-7 relative, which no lattice configuration approaches.",
    ref="DESIGN.md section 4 C14")

DSBL = {"cns": 1 << 0, "con": 1 << 4, "fp": 1 << 10, "mid": 1 << 14}


def bname(b):
    return "world" if b == 0 else "b%d" % b


def q4(m4):
    return "%.2f" % (m4 / 4.0)


def model_lines(bodies, geoms, pairs, excl):
    L = []
    for i, b in enumerate(bodies, 1):
        L.append("body name=b%d parent=%s pos=0,0,0 mocap=%d" % (i, bname(b["parent"]), 1 if b["kind"] == "mocap" else 0))
        if b["kind"] == "dyn":
            L.append("joint body=b%d name=j%d type=2 axis=0,0,1" % (i, i))
    for i, g in enumerate(geoms, 1):
        if g["r"] == 0:
            shape = "type=0 size=0,0,1 pos=0,0,%d" % g["z"]
        else:
            shape = "type=2 size=%d pos=%d,0,%d" % (g["r"], g["x"], g["z"])
        L.append("geom body=%s name=g%d %s contype=%d conaffinity=%d margin=%s gap=%d" % (
            bname(g["body"]), i, shape, g["ct"], g["ca"], q4(g["m4"]), g["gap"]))
    for p in pairs:
        L.append("pair geomname1=g%d geomname2=g%d margin=%s gap=%d" % (p["g1"], p["g2"], q4(p["m4"]), p["gap"]))
    for (a, b) in sorted(excl):
        L.append("exclude bodyname1=%s bodyname2=%s" % (bname(a), bname(b)))
    return L


def flagbits(flags, flipmid=False):
    v = 0
    for k, bit in DSBL.items():
        on = flags[k]
        if k == "mid" and flipmid:
            on = not on
        if not on:
            v |= bit
    return v


def want_of(ev):
    return sorted((tuple(sorted(("g%d" % a, "g%d" % b))), e) for (a, b, e) in ev["contacts"])


def got_of(line):
    if line is None:
        return None
    t = line.split()
    if not t or not t[0].isdigit() or len(t) != int(t[0]) + 1:
        return None
    out = []
    for x in t[1:]:
        a, b, e = x.split(":")
        out.append((tuple(sorted((a, b))), 1 if int(e) == 1 else 0))    # mjContact.exclude: 1 = in gap
    return sorted(out)


def bodies_of(ml):
    """(parent, kind) per body from the model lines (kind: dyn if a joint line follows)"""
    bs = {}
    for ln in ml:
        t = ln.split()
        kv = dict(x.split("=", 1) for x in t[1:])
        if t[0] == "body":
            bs[kv["name"]] = [kv["parent"], "mocap" if kv["mocap"] == "1" else "weld"]
        elif t[0] == "joint":
            bs[kv["body"]][1] = "dyn"
    return bs


def weld_dofs(bs, b):
    """degrees of freedom of the weld group of body number b (0 = world)"""
    name = bname(b)
    while name != "world":
        parent, kind = bs[name]
        if kind == "dyn":
            return 1
        if kind == "mocap":
            return 0
        name = parent
    return 0


def feature(pair, geoms, pairs):
    i, j = int(pair[0][1:]), int(pair[1][1:])
    if any({p["g1"], p["g2"]} == {i, j} for p in pairs):
        return "explicit-pair"
    gi, gj = geoms[i - 1], geoms[j - 1]
    f = []
    if gi["r"] == 0 or gj["r"] == 0:
        f.append("plane")
    if gi["body"] == 0 or gj["body"] == 0:
        f.append("world-geom")
    if any(sum(1 for g in geoms if g["body"] == b) >= 2 for b in (gi["body"], gj["body"])):
        f.append("multi-geom-body")
    return "+".join(f) or "single-geom-bodies"


def classify(want, got, geoms, pairs):
    """first difference between expected and reported contact multisets -> (class, pair)"""
    if got is None:
        return "garbage", None
    wp = [w[0] for w in want]
    gp = [g[0] for g in got]
    for p in gp:
        if gp.count(p) > 1:
            return "duplicate", p
    for p in wp:
        if p not in gp:
            return "missing", p
    for p in gp:
        if p not in wp:
            return "extra", p
    for w in want:
        if w not in got:
            return "gapflag", w[0]
    return "other", None


class Batch:
    def __init__(self):
        self.lines = []
        self.checks = []        # (line index of cpairs, kind, want, scene id, info)
        self.scenes = []

    def scene(self, bodies, geoms, pairs, excl):
        ml = model_lines(bodies, geoms, pairs, excl)
        self.scenes.append((geoms, pairs, ml, len(self.lines)))
        self.lines += ["model 0"] + ml + ["end", "data 0 0"]
        self.offs = [0] * len(bodies)
        return len(self.scenes) - 1

    def forward(self, sid, bodies, flags, ev):
        for i, b in enumerate(bodies, 1):
            if b["off"] != self.offs[i - 1]:
                if b["kind"] == "mocap":
                    self.lines.append("movebody 0 b%d 0 0 %d" % (i, b["off"]))
                else:
                    self.lines.append("slide 0 b%d %d" % (i, b["off"]))
                self.offs[i - 1] = b["off"]
        want = want_of(ev)
        self.lines += ["optset 0 disableflags %d" % flagbits(flags), "forward 0"]
        self.checks.append((len(self.lines), "set", want, sid, flags))
        self.lines += ["cpairs 0", "forward 0"]
        self.checks.append((len(self.lines), "again", want, sid, flags))
        self.lines += ["cpairs 0", "optset 0 disableflags %d" % flagbits(flags, True), "forward 0"]
        self.checks.append((len(self.lines), "midflip", want, sid, flags))
        self.lines += ["cpairs 0"]


def out_index(lines):
    idx, k, inmodel = [], 0, False
    for ln in lines:
        if inmodel:
            idx.append(None)
            if ln == "end":
                inmodel = False
            continue
        idx.append(k)
        k += 1
        if ln.startswith("model "):
            inmodel = True
    return idx


def run_batch(ctx, exe, batch, label):
    r = drv.run_script(exe, batch.lines, timeout=1800)
    oi = out_index(batch.lines)

    def out(li):
        return r.lines[oi[li]] if oi[li] is not None and oi[li] < len(r.lines) else None
    # set-up commands must succeed; an error raised by mj_forward itself (mju_error caught by the harness) is a
    # finding: it is reported once per scene and the rest of that scene is not compared (mjData may be inconsistent)
    poisoned = {}
    if not r.crashed:
        for i, ln in enumerate(batch.lines):
            if oi[i] is None or ln.split()[0] not in ("model", "data", "forward", "slide", "movebody", "optset") or out(i) == "ok":
                continue
            sid = max(k for k, sc in enumerate(batch.scenes) if sc[3] <= i)
            if ln.split()[0] == "forward" and (out(i) or "").startswith("error "):
                if sid not in poisoned:
                    poisoned[sid] = i
                    geoms, pairs, ml, l0 = batch.scenes[sid]
                    msg = out(i)[6:]
                    cls = "static-static-contact" if "between two static bodies" in msg else \
                        re.sub(r"[^a-z]+", "-", re.sub(r"\d+", "", msg.lower()))[:40].strip("-")
                    pre = [x for x in batch.lines[l0:i] if x.split()[0] in ("slide", "movebody", "optset")]
                    static_pair = any(all(weld_dofs(bodies_of(ml), geoms[g - 1]["body"]) == 0 for g in (pr["g1"], pr["g2"]))
                                      for pr in pairs)
                    ctx.case({"model": ml, "pre": pre, "kind": "forward-error"})
                    if cls == "static-static-contact":
                        feat = "explicit-pair-between-static-geoms" if static_pair else "other"
                    elif "buffer-full" in cls:
                        cls = "broadphase-buffer-full"
                        feat = "plane-on-dofless-body" if any(g["r"] == 0 and g["body"] != 0 for g in geoms) else "other"
                    else:
                        feat = "other"
                    ctx.violation("forward-error:%s:%s" % (cls, feat),
                                  "mj_forward raised an error on a valid model: %r; model: %s; before: %s" % (out(i), " | ".join(ml), pre),
                                  {"script": ["model 0"] + ml + ["end", "data 0 0"] + pre + ["forward 0"], "want_ok": True})
                continue
            raise Machinery("%s: set-up command %r answered %r (model: %s)" % (label, ln, out(i), batch.scenes[sid][2]))
    prev = None
    for (li, kind, want, sid, flags) in batch.checks:
        geoms, pairs, ml, l0 = batch.scenes[sid]
        if sid in poisoned and li > poisoned[sid]:
            continue
        line = out(li)
        got = got_of(line)
        pre = [x for x in batch.lines[l0:li] if x.split()[0] in ("slide", "movebody")]
        ctx.case({"model": ml, "pre": pre, "flags": flagbits(flags, kind == "midflip"), "kind": kind}, nontrivial=len(want) > 0,
                 sample={"model": ml, "flags": flagbits(flags), "spec_contacts": [list(w[0]) + [w[1]] for w in want]})
        ok = got == want
        order_bad = False
        if ok and kind == "again":
            order_bad = line != prev
        prev = line if kind == "set" else prev
        if ok and not order_bad:
            ctx.trace_ok()
            continue
        mid = flags["mid"] != (kind == "midflip")
        if line is None and r.crashed:
            sig, what = "crash", "harness died (%s); model %s" % (r.crash_text(), ml)
        elif order_bad:
            sig = "order-differs"
            what = "two mj_forward calls from the same state list the contacts differently: %r then %r; model %s" % (prev, line, ml)
        else:
            cls, p = classify(want, got, geoms, pairs)
            sig = "%s:%s:%s" % (cls, feature(p, geoms, pairs) if p else "-", "midphase" if mid else "nomidphase")
            what = ("contact pairs after mj_forward (disableflags=%d%s): reported %s, specification %s; first difference: %s %s; "
                    "model: %s; moves: %s" % (flagbits(flags, kind == "midflip"), ", second call" if kind == "again" else "",
                                              line, want, cls, p, " | ".join(ml), pre))
        script = ["model 0"] + ml + ["end", "data 0 0"] + pre + \
                 ["optset 0 disableflags %d" % flagbits(flags, kind == "midflip"), "forward 0", "cpairs 0"]
        ctx.violation(sig, what, {"script": script, "want": [[list(w[0]), w[1]] for w in want]})
    return r


def _sel_dump(blk):
    return ("bodies", "geoms", "pairs", "excl", "flags", "ev") if 'op |-> "forward"' in blk else None


def _sel_sim(act, blk):
    return ("bodies", "geoms", "pairs", "excl", "flags", "ev") if act in ("Compile", "Narrow") else None


def scene_key(st):
    return repr((tuple((b["parent"], b["kind"]) for b in st["bodies"]), st["geoms"], st["pairs"], sorted(st["excl"])))


def state_key(st):
    return repr((tuple(b["off"] for b in st["bodies"]), sorted(st["flags"].items())))


def run(ctx):
    exe = build.build_harness("collision_drv", [DRV], extra=tladump.harness_digest_flag())
    ctx.assume("geoms are spheres at integer (x, z) with integer radius and planes z = const; margins are multiples of 1/4",
               "no geom pair sits exactly on a margin or margin + gap threshold (guard OffThreshold)",
               "bodies move along z only (slide joint or mocap position); the body tree has at most 4 bodies",
               "the contact order is compared between two calls from the same state, not against a fixed order")
    cfgs = ["CollisionFilter_MC.cfg", "CollisionFilter_Pair.cfg", "CollisionFilter_Tree.cfg"] + \
        ([] if ctx.quick else ["CollisionFilter_Deep.cfg"])
    mc_cfg = "+".join(c[16:-4] for c in cfgs)
    nsim = 150 if ctx.quick else 1500
    t0 = time.time()
    with cf.ThreadPoolExecutor(6) as ex:
        # '-coverage' (action counts for the vacuity guard) on the first configuration only
        j_mc = [ex.submit(tladump.run_dump, SPEC, os.path.join(TLA, c), 3000, k == 0, 6, None, _sel_dump)
                for k, c in enumerate(cfgs)]
        j_neg = ex.submit(tlc.run, SPEC, os.path.join(TLA, "CollisionFilter_Neg.cfg"), 4, (), None, 900)
        j_sim = ex.submit(tladump.simulate, SPEC, os.path.join(TLA, "CollisionFilter_Sim.cfg"), nsim, 80, ctx.seed + 14, 3000,
                          _sel_sim)
        r_mc = [j.result() for j in j_mc]
        res_neg = j_neg.result()
        res_sim, sims = j_sim.result()
    tladump.timing("C14 tlc runs", t0)
    t0 = time.time()
    res_mc = r_mc[0][0]
    try:
        scenes = {}
        for k, (res, states, _cl) in enumerate(r_mc):
            ctx.tlc_ok(res, cfgs[k][:-4], need_actions=["AddBody", "MarginGeom", "PairParam", "AddExcl", "Seal", "Compile", "Move",
                                                        "Settle", "Toggle", "Broad", "Merge", "Narrow"] if k == 0 else [])
            for st in states():
                scenes.setdefault(scene_key(st), []).append(st)
    finally:
        for (_r, _s, cl) in r_mc:
            cl()
    ctx.control("TLC refutes the false claim 'an excluded body pair never has a contact' (explicit pairs bypass excludes)",
                res_neg.violation is not None and "NegExcludeAlwaysWins" in res_neg.violation)
    ctx.tlc_ok(res_sim, "CollisionFilter_Sim")
    if len(sims) < nsim // 2:
        raise Machinery("simulation produced %d behaviours" % len(sims))
    tladump.timing("C14 parse", t0)
    t0 = time.time()
    # vacuity on the exhaustive events: every rule must decide some pair
    allst = [st for v in scenes.values() for st in v]
    need = {"a contact": any(st["ev"]["contacts"] for st in allst),
            "no contact": any(not st["ev"]["contacts"] for st in allst),
            "an in-gap contact": any(any(c[2] == 1 for c in st["ev"]["contacts"]) for st in allst),
            "an explicit pair": any(st["pairs"] for st in allst),
            "an exclude": any(st["excl"] for st in allst),
            "filterparent disabled": any(not st["flags"]["fp"] for st in allst),
            "a moved body": any(any(b["off"] for b in st["bodies"]) for st in allst),
            "a plane": any(any(g["r"] == 0 for g in st["geoms"]) for st in allst),
            "a mocap body": any(any(b["kind"] == "mocap" for b in st["bodies"]) for st in allst)}
    for what, seen in need.items():
        if not seen:
            raise Machinery("vacuity: the exhaustive run of %s contains no state with %s" % (mc_cfg, what))
    batch = Batch()
    for k in sorted(scenes):
        sts = sorted(scenes[k], key=state_key)
        st0 = sts[0]
        sid = batch.scene(st0["bodies"], st0["geoms"], st0["pairs"], st0["excl"])
        seen = set()
        for st in sts:
            sk = state_key(st)
            if sk in seen:
                continue
            seen.add(sk)
            batch.forward(sid, st["bodies"], st["flags"], st["ev"])
    r1 = run_batch(ctx, exe, batch, "exhaustive")
    # negative controls on the comparer
    oi = out_index(batch.lines)
    k = next(i for i, c in enumerate(batch.checks) if c[2])
    li, kind, want, sid, flags = batch.checks[k]
    line = r1.lines[oi[li]] if oi[li] < len(r1.lines) else None
    ctx.control("comparer flags a dropped expected pair", got_of(line) != want[1:] and got_of(line) == want)
    ctx.control("comparer flags a flipped in-gap flag", got_of(line) != [(want[0][0], 1 - want[0][1])] + want[1:])
    tladump.timing("C14 exhaustive replay", t0)
    t0 = time.time()
    batch = Batch()
    nb = 0
    for beh in sims:
        sid = None
        for act, st in beh:
            if act == "Compile":
                sid = batch.scene(st["bodies"], st["geoms"], st["pairs"], st["excl"])
                nb += 1
            elif sid is not None:
                batch.forward(sid, st["bodies"], st["flags"], st["ev"])
    run_batch(ctx, exe, batch, "simulated")
    tladump.timing("C14 simulated replay", t0)
    ctx.cov["exhaustive"] = all(bool(x[0].finished) for x in r_mc)
    ctx.cov["rule"] = ("every mj_forward event of the exhaustive state spaces CollisionFilter_{%s} (%d compiled configurations) and of %d "
                       "simulated histories (up to 4 bodies, 6 geoms, 2 explicit pairs, 2 excludes, 5 moves / flag toggles) is "
                       "executed three times: as specified, a second time from the same state (same list, same order), and "
                       "with the midphase flag flipped; evaluation = one contact list compared with the specification's set; "
                       "non-trivial = the specification expects at least one contact" % (mc_cfg, len(scenes), nb))


def replay(ctx, rp):
    exe = build.build_harness("collision_drv", [DRV], extra=tladump.harness_digest_flag())
    script = rp["replay"]["script"]
    r = drv.run_script(exe, script, timeout=120)
    oi = out_index(script)
    line = r.lines[oi[-1]] if oi[-1] < len(r.lines) else None
    want = sorted((tuple(w[0]), w[1]) for w in rp["replay"].get("want", []))
    if rp["replay"].get("want_ok"):
        print("mj_forward answered: %s" % line)
        ctx.case({"replay": rp["signature"]})
        ctx.case({"replay": rp["signature"], "x": 1})
        if line != "ok":
            ctx.violation(rp["signature"], rp["what"], rp["replay"])
        return
    print("reported     : %s\nspecification: %s" % (line, want))
    ctx.case({"replay": rp["signature"]})
    ctx.case({"replay": rp["signature"], "x": 1})
    if got_of(line) != want:
        ctx.violation(rp["signature"], rp["what"], rp["replay"])
