"""C28 - sensors report the documented quantities: Sensors.tla decided by TLC on a quarter-turn / integer lattice; every
(model, state) the specification finishes is replayed into mj_fwdPosition / mj_sensorPos / mj_fwdVelocity / mj_sensorVel /
mj_fwdActuation.. / mj_sensorAcc (and mj_forward) with sensordata prefilled with a sentinel; the compiled layout
(sensor_adr / dim / needstage / datatype / nsensordata) and sensordata after each stage are compared entry by entry."""
import concurrent.futures as cf
import math
import os
import re
from fractions import Fraction

from vlib import build, drv, tlc
from vlib.check import Machinery, VERIF
from checks import tladump

TLA = os.path.join(VERIF, "tla")
SPEC = os.path.join(TLA, "Sensors.tla")
FAST_JIT = ("-XX:TieredStopAtLevel=1", "-XX:ParallelGCThreads=2")
WORKERS = 4
U = math.pi / 2
TOL = 1e-9

META = dict(
    engine="tlc-replay",
    technique="TLA+ spec Sensors.tla: kinematic tree on the quarter-turn lattice, sensor list with documented dimension / "
              "stage / data type, sensordata as a sequence starting at a sentinel; one action per pipeline stage writes "
              "exactly the slices of its sensors with the documented value and cutoff rule; TLC decides the partition of "
              "sensordata, written-exactly-by-stage, cutoff bounds, frame round trips, centre-of-mass and norm identities; "
              "every finished (model, state) is replayed stage by stage",
    text="Exhaustive sensor lists (layout), exhaustive small value lattices and simulated 2-3 body models with up to 4 "
         "sensors (joint / tendon / actuator pos, vel, force; frame pos, axes, linear and angular velocity of (x)body, "
         "geom, site, camera in world or reference frames; velocimeter, gyro; subtree com / linvel; clock; touch with "
         "injected lattice contacts; user sensors) are replayed: compiled sensor_adr / dim / needstage / datatype / "
         "nsensordata, and sensordata after mj_sensorPos, mj_sensorVel, mj_sensorAcc and after one mj_forward, where every "
         "entry is either the specification's number (1e-9) or still bit-equal to the sentinel.",
    note="Trusted: TLC, harness sensor_drv.cc, rendering of lattice models. Touch: the contact list is injected into "
         "mjData (geoms, point, normal, normal force of real contact slots) between the constraint stage and "
         "mj_sensorAcc, so contact selection, zone test and summation are decided, not the solver's forces. Not decided: "
         "accelerometer, force, torque, frame accelerations, quaternions, ball joints, rangefinder, camera projection, "
         "geom distance, contact and tactile sensors, limit sensors, history / delay / interval, plugins, sleeping.",
    ref="DESIGN.md section 4 C28")

ENUM_NAMES = ["mjSENS_TOUCH", "mjSENS_VELOCIMETER", "mjSENS_GYRO", "mjSENS_JOINTPOS", "mjSENS_JOINTVEL", "mjSENS_TENDONPOS",
              "mjSENS_TENDONVEL", "mjSENS_ACTUATORPOS", "mjSENS_ACTUATORVEL", "mjSENS_ACTUATORFRC", "mjSENS_JOINTACTFRC",
              "mjSENS_FRAMEPOS", "mjSENS_FRAMEXAXIS", "mjSENS_FRAMEYAXIS", "mjSENS_FRAMEZAXIS", "mjSENS_FRAMELINVEL",
              "mjSENS_FRAMEANGVEL", "mjSENS_SUBTREECOM", "mjSENS_SUBTREELINVEL", "mjSENS_CLOCK", "mjSENS_USER",
              "mjOBJ_UNKNOWN", "mjOBJ_BODY", "mjOBJ_XBODY", "mjOBJ_JOINT", "mjOBJ_GEOM", "mjOBJ_SITE", "mjOBJ_CAMERA",
              "mjOBJ_TENDON", "mjOBJ_ACTUATOR", "mjDATATYPE_REAL", "mjDATATYPE_POSITIVE", "mjDATATYPE_AXIS",
              "mjSTAGE_POS", "mjSTAGE_VEL", "mjSTAGE_ACC", "mjGEOM_PLANE", "mjGEOM_SPHERE", "mjGEOM_BOX", "mjDSBL_SENSOR"]
KIND_ENUM = {"touch": "mjSENS_TOUCH", "velocimeter": "mjSENS_VELOCIMETER", "gyro": "mjSENS_GYRO", "jointpos": "mjSENS_JOINTPOS",
             "jointvel": "mjSENS_JOINTVEL", "tendonpos": "mjSENS_TENDONPOS", "tendonvel": "mjSENS_TENDONVEL",
             "actuatorpos": "mjSENS_ACTUATORPOS", "actuatorvel": "mjSENS_ACTUATORVEL", "actuatorfrc": "mjSENS_ACTUATORFRC",
             "jointactfrc": "mjSENS_JOINTACTFRC", "framepos": "mjSENS_FRAMEPOS", "framexaxis": "mjSENS_FRAMEXAXIS",
             "frameyaxis": "mjSENS_FRAMEYAXIS", "framezaxis": "mjSENS_FRAMEZAXIS", "framelinvel": "mjSENS_FRAMELINVEL",
             "frameangvel": "mjSENS_FRAMEANGVEL", "subtreecom": "mjSENS_SUBTREECOM", "subtreelinvel": "mjSENS_SUBTREELINVEL",
             "clock": "mjSENS_CLOCK", "user": "mjSENS_USER"}
OBJ_ENUM = {"xbody": "mjOBJ_XBODY", "body": "mjOBJ_BODY", "geom": "mjOBJ_GEOM", "site": "mjOBJ_SITE", "camera": "mjOBJ_CAMERA"}
OBJ_PREFIX = {"xbody": "b", "body": "b", "geom": "g", "site": "s", "camera": "c"}
DT_ENUM = {"real": "mjDATATYPE_REAL", "positive": "mjDATATYPE_POSITIVE", "axis": "mjDATATYPE_AXIS"}
STAGE_NAME = {1: "pos", 2: "vel", 3: "acc"}


def harness():
    return build.build_harness("sensor_drv", [os.path.join(VERIF, "harness", "sensor_drv.cc")],
                               extra=["-I" + os.path.join(VERIF, "harness")] + tladump.harness_digest_flag())


def load_enums(exe):
    r = drv.run_script(exe, ["enum " + x for x in ENUM_NAMES], timeout=120)
    if len(r.lines) != len(ENUM_NAMES) or any(not re.match(r'^-?\d+$', x) for x in r.lines):
        raise Machinery("cannot read enum values from the harness: %r" % (r.lines[:5],))
    return dict(zip(ENUM_NAMES, (int(x) for x in r.lines)))


# ---- rendering (no physics: numbers -> description lines) -----------------------------------------------------------
def num(x):
    return repr(float(x))


def csv(xs):
    return ",".join(num(x) for x in xs)


def quat_of(R):
    """unit quaternion of a rotation matrix (rows R[0..2]); standard conversion, exact up to rounding"""
    m = [[float(x) for x in row] for row in R]
    tr = m[0][0] + m[1][1] + m[2][2]
    if tr > 0:
        s = math.sqrt(tr + 1.0) * 2
        q = [0.25 * s, (m[2][1] - m[1][2]) / s, (m[0][2] - m[2][0]) / s, (m[1][0] - m[0][1]) / s]
    elif m[0][0] > m[1][1] and m[0][0] > m[2][2]:
        s = math.sqrt(1.0 + m[0][0] - m[1][1] - m[2][2]) * 2
        q = [(m[2][1] - m[1][2]) / s, 0.25 * s, (m[0][1] + m[1][0]) / s, (m[0][2] + m[2][0]) / s]
    elif m[1][1] > m[2][2]:
        s = math.sqrt(1.0 + m[1][1] - m[0][0] - m[2][2]) * 2
        q = [(m[0][2] - m[2][0]) / s, (m[0][1] + m[1][0]) / s, 0.25 * s, (m[1][2] + m[2][1]) / s]
    else:
        s = math.sqrt(1.0 + m[2][2] - m[0][0] - m[1][1]) * 2
        q = [(m[1][0] - m[0][1]) / s, (m[0][2] + m[2][0]) / s, (m[1][2] + m[2][1]) / s, 0.25 * s]
    return q


def axis_of(ax):
    v = [0.0, 0.0, 0.0]
    v[abs(ax) - 1] = 1.0 if ax > 0 else -1.0
    return v


def has_touch(c):
    return any(s["kind"] == "touch" for s in c["S"])


def ncon_slots(c):
    return max(len(c["con"]), 1) if has_touch(c) and len(c["con"]) > 0 else 0


def model_lines(c, E):
    L = ["option timestep=0.125 gravity=0,0,0 cone=1",
         "compiler degree=0 fusestatic=0 boundmass=0 boundinertia=0 autolimits=1"]
    for k, b in enumerate(c["B"], start=1):
        L.append("body name=b%d parent=%s pos=%s quat=%s mass=%s ipos=%s iquat=%s inertia=4,3,2 "
                 "explicitinertial=1" % (
            k, "world" if b["par"] == 0 else "b%d" % b["par"], csv(b["pos"]), csv(quat_of(b["R"])), num(b["mass"]),
            csv(b["ipos"]), csv(quat_of(b["iR"]))))
        if b["jt"] != "none":
            hinge = b["jt"] == "hinge"
            L.append("joint body=b%d name=j%d type=%d axis=%s pos=%s ref=%s" % (
                k, k, 3 if hinge else 2, csv(axis_of(b["ax"])), csv(b["anc"]), num(b["ref"] * (U if hinge else 1.0))))
        q = csv(quat_of(b["sR"]))
        z = b["zone"]
        if z[0] == "sphere":
            ztxt = "type=%d size=%s" % (E["mjGEOM_SPHERE"], num((2 * z[1] + 1) / 2.0))
        else:
            ztxt = "type=%d size=%s" % (E["mjGEOM_BOX"], csv([(2 * h + 1) / 2.0 for h in z[1:4]]))
        L.append("site body=b%d name=s%d pos=%s quat=%s %s" % (k, k, csv(b["spos"]), q, ztxt))
        L.append("geom body=b%d name=g%d type=%d size=0.125 pos=%s quat=%s contype=0 conaffinity=0" % (
            k, k, E["mjGEOM_SPHERE"], csv(b["spos"]), q))
        L.append("camera body=b%d name=c%d pos=%s quat=%s" % (k, k, csv(b["spos"]), q))
    for i, a in enumerate(c["A"], start=1):
        L.append("actuator name=a%d trntype=0 target=j%d gear=%s gaintype=0 gainprm=%s biastype=1 biasprm=%s" % (
            i, a["jb"], num(a["gear"]), num(a["kp"]), csv([a["b0"], a["b1"], a["b2"]])))
    if c["ten"]:
        L.append("tendon name=t1")
        for k, cf in enumerate(c["ten"], start=1):
            if cf != 0:
                L.append("wrapjoint tendon=t1 joint=j%d coef=%s" % (k, num(cf)))
    for i, s in enumerate(c["S"], start=1):
        kind, o = s["kind"], s["obj"]
        t = "sensor name=x%d type=%d cutoff=%s" % (i, E[KIND_ENUM[kind]], num(s["cut"] / 2.0))
        if kind in ("jointpos", "jointvel", "jointactfrc"):
            t += " objtype=%d objname=j%d" % (E["mjOBJ_JOINT"], o)
        elif kind in ("actuatorpos", "actuatorvel", "actuatorfrc"):
            t += " objtype=%d objname=a%d" % (E["mjOBJ_ACTUATOR"], o)
        elif kind in ("tendonpos", "tendonvel"):
            t += " objtype=%d objname=t1" % E["mjOBJ_TENDON"]
        elif kind in ("velocimeter", "gyro", "touch"):
            t += " objtype=%d objname=s%d" % (E["mjOBJ_SITE"], o)
        elif kind in ("subtreecom", "subtreelinvel"):
            t += " objtype=%d objname=b%d" % (E["mjOBJ_BODY"], o)
        elif kind == "user":
            t += " objtype=%d dim=%d needstage=%d datatype=%d" % (
                E["mjOBJ_UNKNOWN"], o[0], E["mjSTAGE_" + STAGE_NAME[o[1]].upper()], E["mjDATATYPE_REAL"])
        elif kind != "clock":
            t += " objtype=%d objname=%s%d" % (E[OBJ_ENUM[o[0]]], OBJ_PREFIX[o[0]], o[1])
            if s["ref"][0] != "none":
                t += " reftype=%d refname=%s%d" % (E[OBJ_ENUM[s["ref"][0]]], OBJ_PREFIX[s["ref"][0]], s["ref"][1])
        L.append(t)
    K = ncon_slots(c)
    if K:
        # real contact slots for the injected contacts: spheres pressed into a plane, far away from the lattice
        L.append("geom name=g0 type=%d size=1,1,1 pos=0,0,-1000 contype=0 conaffinity=1 condim=1" % E["mjGEOM_PLANE"])
        for k in range(K):
            L.append("body name=p%d pos=%d,0,-999.75" % (k, 1000 + 10 * k))
            L.append("joint body=p%d name=pj%d type=2 axis=0,0,1" % (k, k))
            L.append("geom body=p%d name=pg%d type=%d size=0.5 contype=1 conaffinity=0 condim=1 mass=1" % (k, k, E["mjGEOM_SPHERE"]))
    return L


def value(x):
    """<<n, d, k>> -> float (None for the sentinel)"""
    n, d, k = x
    if d == 0:
        return None
    return float(Fraction(n, d)) + k * U


def case_script(c, E):
    """(lines, [(label, expectation)]) for one (model, state) case; expectation kinds:
    ("ok",) | ("layout", name, [ints]) | ("sd", stage name, [float | None])"""
    st = c["st"]
    lines, exp = [], []

    def op(line, e):
        lines.append(line)
        exp.append(e)
    lines.append("model 0")
    lines.extend(model_lines(c, E))
    lines.append("end")
    exp.append(("ok", "compile"))
    op("data 0 0", ("ok", "makeData"))
    lay = c["lay"]
    op("mget 0 sensor_adr", ("layout", "sensor_adr", list(lay["adr"])))
    op("mget 0 sensor_dim", ("layout", "sensor_dim", list(lay["dim"])))
    op("mget 0 sensor_needstage", ("layout", "sensor_needstage", [E["mjSTAGE_" + STAGE_NAME[x].upper()] for x in lay["stg"]]))
    op("mget 0 sensor_datatype", ("layout", "sensor_datatype", [E[DT_ENUM[x]] for x in lay["dt"]]))
    op("mscalar 0 nsensordata", ("scalar", "nsensordata", lay["nsd"]))
    if st["dis"]:
        op("optset 0 disableflags %d" % E["mjDSBL_SENSOR"], ("ok", "optset"))
    qpos, qvel = [], []
    for k, b in enumerate(c["B"]):
        if b["jt"] != "none":
            qpos.append(st["q"][k] * (U if b["jt"] == "hinge" else 1.0))
            qvel.append(float(st["v"][k]))
    if qpos:
        op("setv 0 qpos " + csv(qpos), ("ok", "setv"))
        op("setv 0 qvel " + csv(qvel), ("ok", "setv"))
    if c["A"]:
        op("setv 0 ctrl " + csv(st["ctrl"]), ("ok", "setv"))
    op("settime 0 " + num(Fraction(st["time"][0], st["time"][1])), ("ok", "settime"))
    obs = [[value(x) for x in o] for o in c["obs"]]
    op("sfill 0", ("ok", "sfill"))
    op("fwdPosition 0", ("ok", "fwdPosition"))
    op("sensorPos 0", ("ok", "sensorPos"))
    op("sread 0", ("sd", "pos", obs[0]))
    op("fwdVelocity 0", ("ok", "fwdVelocity"))
    op("sensorVel 0", ("ok", "sensorVel"))
    op("sread 0", ("sd", "vel", obs[1]))
    op("fwdActuation 0", ("ok", "fwdActuation"))
    op("fwdAcceleration 0", ("ok", "fwdAcceleration"))
    op("fwdConstraint 0", ("ok", "fwdConstraint"))
    K = ncon_slots(c)
    if K:
        op("conreset 0", ("ok", "conreset"))
        for k, cc in enumerate(c["con"]):
            op("setcon 0 %d g%d g%d %s %s %s %d" % (k, cc["b1"], cc["b2"], csv(cc["pos"]), csv(axis_of(cc["nrm"])),
                                                   num(cc["frc"]), 1 if cc["on"] else 0), ("ok", "setcon"))
        op("ncon 0 %d" % len(c["con"]), ("ok", "ncon"))
    op("sensorAcc 0", ("ok", "sensorAcc"))
    op("sread 0", ("sd", "acc", obs[2]))
    if not K:
        op("sfill 0", ("ok", "sfill"))
        op("forward 0", ("ok", "forward"))
        op("sread 0", ("sd", "forward", obs[2]))
    return lines, exp


def owner(c, k):
    lay = c["lay"]
    for i in range(len(c["S"])):
        if lay["adr"][i] <= k < lay["adr"][i] + lay["dim"][i]:
            return i
    return None


def sensor_class(c, i):
    s = c["S"][i]
    t = s["kind"]
    if s["kind"] in ("framepos", "framexaxis", "frameyaxis", "framezaxis", "framelinvel", "frameangvel"):
        t += ":obj=%s:ref=%s" % (s["obj"][0], s["ref"][0])
    if s["kind"] in ("jointpos", "jointvel", "jointactfrc"):
        t += ":" + c["B"][s["obj"] - 1]["jt"]
    if s["kind"] in ("actuatorpos", "actuatorvel", "actuatorfrc"):
        t += ":" + c["B"][c["A"][s["obj"] - 1]["jb"] - 1]["jt"]
    if s["kind"] == "touch":
        t += ":zone=" + c["B"][s["obj"] - 1]["zone"][0]
    if s["cut"] > 0:
        t += ":cutoff"
    return t


def judge(c, exp, got):
    """None or (signature tail, text, index of the first bad line)"""
    for j, e in enumerate(exp):
        g = got[j] if j < len(got) else None
        if g is None:
            return "crash:" + e[1], "harness died before %s" % (e[1],), j
        if e[0] == "ok":
            if g != "ok":
                return "error:" + e[1], "%s -> %s" % (e[1], g), j
        elif e[0] == "scalar":
            if g.strip() != str(e[2]):
                return "layout:" + e[1], "%s = %s, specification says %d" % (e[1], g, e[2]), j
        elif e[0] == "layout":
            t = g.split()
            vals = [int(float(x)) for x in t[1:]] if t and t[0].isdigit() else None
            if vals is None or vals[:len(e[2])] != e[2] or len(vals) < len(e[2]):
                return "layout:" + e[1], "%s = %s, specification says %s (sensors %s)" % (
                    e[1], g, e[2], [s["kind"] for s in c["S"]]), j
        else:
            t = g.split()
            if not t or not t[0].isdigit() or int(t[0]) != len(e[2]) or len(t) != len(e[2]) + 1:
                return "layout:nsensordata", "sensordata has %s entries, specification says %d" % (t[:1], len(e[2])), j
            for k, want in enumerate(e[2]):
                tok = t[k + 1]
                i = owner(c, k)
                cls = sensor_class(c, i) if i is not None else "?"
                if want is None:
                    if tok != "S":
                        return "%s:written-not-by-its-stage:%s" % (e[1], cls), \
                            "after %s sensordata[%d] (sensor %d %s) = %s but it must still hold the sentinel" % (
                                e[1], k, i, cls, tok), j
                    continue
                if tok == "S":
                    return "%s:not-written:%s" % (e[1], cls), "after %s sensordata[%d] (sensor %d %s) was not written, " \
                        "specification says %.17g" % (e[1], k, i, cls, want), j
                x = float(tok)
                if not (abs(x - want) <= TOL * max(1.0, abs(want))):
                    return "%s:value:%s" % (e[1], cls), "after %s sensordata[%d] (sensor %d %s, component %d) = %.17g, " \
                        "specification says %.17g" % (e[1], k, i, cls, k - c["lay"]["adr"][i], x, want), j
    return None


# ---- TLC -> cases --------------------------------------------------------------------------------------------------
ONLY = {"B", "A", "ten", "S", "lay", "st", "con", "obs"}


def _final(blk):
    return ONLY if ('/\\ stage = "end"' in blk or '/\\ stage = "state"' in blk) and 'op |-> "sensorAcc"' in blk else None


def mc_cases(cfg, name, timeout):
    """exhaustive run with a state dump -> (name, TlcResult, [state after every SensAcc])"""
    res, states, cleanup = tladump.run_dump(SPEC, os.path.join(TLA, cfg), timeout=timeout, workers=WORKERS, select=_final,
                                            java_opts=FAST_JIT)
    try:
        cases = list(states()) if res.error is None else []
    finally:
        cleanup()
    return name, res, cases


def sim_cases(cfg, name, num_b, depth, seed, timeout):
    res, behs = tladump.simulate(SPEC, os.path.join(TLA, cfg), num=num_b, depth=depth, seed=seed, timeout=timeout,
                                 select=lambda act, blk: ONLY if act == "SensAcc" else None, java_opts=FAST_JIT)
    if not res.generated:
        m = re.search(r'The number of states generated: (\d+)', res.out)
        if m:
            res.generated = res.distinct = int(m.group(1))
    return name, res, [st for b in behs for (_a, st) in b]


def negative_run(cfg, name):
    return name, tlc.run(SPEC, os.path.join(TLA, cfg), workers=2, timeout=600, java_opts=FAST_JIT), None


def negative_record(ctx, name, res):
    ctx.cov["tlc_runs"].append({"name": name, "generated": res.generated, "distinct": res.distinct, "depth": res.depth,
                                "wall_s": round(res.wall, 2), "queue_left": res.queue, "violation": res.violation})
    if res.error:
        raise Machinery("TLC run %s failed: %s\n%s" % (name, res.error, res.out[-2000:]))
    ctx.control(name, res.violation is not None)


def _written(c, stage_idx):
    return [x for x in c["obs"][stage_idx] if x[1] != 0]


def _tilted(c, b):
    return c["B"][b - 1]["iR"] != ((1, 0, 0), (0, 1, 0), (0, 0, 1))


NEED = {
    "a hinge away from its reference": lambda c: any(b["jt"] == "hinge" and (c["st"]["q"][k] - b["ref"]) % 4 != 0
                                                     for k, b in enumerate(c["B"])),
    "a frame sensor with a reference object": lambda c: any(s["ref"][0] != "none" for s in c["S"]),
    "a frame axis sensor on a `body` object whose inertial frame is rotated": lambda c: not c["st"]["dis"] and any(
        s["kind"] in ("framexaxis", "frameyaxis", "framezaxis") and s["obj"][0] == "body" and _tilted(c, s["obj"][1])
        for s in c["S"]),
    "a relative frame position in a `body` reference whose inertial frame is rotated": lambda c: not c["st"]["dis"] and any(
        s["kind"] == "framepos" and s["ref"][0] == "body" and _tilted(c, s["ref"][1]) for s in c["S"]),
    "a relative frame velocity in a `body` reference whose inertial frame is rotated": lambda c: not c["st"]["dis"] and any(
        s["kind"] in ("framelinvel", "frameangvel") and s["ref"][0] == "body" and _tilted(c, s["ref"][1]) for s in c["S"]),
    "a relative linear velocity seen from a rotating reference": lambda c: any(
        s["kind"] == "framelinvel" and s["ref"][0] != "none" and s["ref"][1] != s["obj"][1] for s in c["S"]) and any(
        b["jt"] == "hinge" and c["st"]["v"][k] != 0 for k, b in enumerate(c["B"])),
    "a cutoff": lambda c: any(s["cut"] > 0 for s in c["S"]) and not c["st"]["dis"],
    "sensors disabled": lambda c: c["st"]["dis"],
    "a touch sensor that counts a contact": lambda c: any(
        s["kind"] == "touch" and c["obs"][2][c["lay"]["adr"][i]][0] > 0 for i, s in enumerate(c["S"])),
    "a touch sensor with contacts it must not count": lambda c: any(
        s["kind"] == "touch" and c["obs"][2][c["lay"]["adr"][i]] == (0, 1, 0) for i, s in enumerate(c["S"])) and any(
        cc["frc"] > 0 and cc["on"] for cc in c["con"]),
    "a user sensor": lambda c: any(s["kind"] == "user" for s in c["S"]),
    "a subtree centre of mass with a fractional coordinate": lambda c: any(
        s["kind"] == "subtreecom" and any(x[1] > 1 for x in c["obs"][0][c["lay"]["adr"][i]:c["lay"]["adr"][i] + 3])
        for i, s in enumerate(c["S"])),
    "an actuator on a hinge with a position bias": lambda c: any(
        a["b1"] != 0 and c["B"][a["jb"] - 1]["jt"] == "hinge" for a in c["A"]),
    "sensors of all three stages in one model": lambda c: set(c["lay"]["stg"]) == {1, 2, 3},
}


def run(ctx):
    exe = harness()
    E = load_enums(exe)
    ctx.assume("kinematic trees of at most 3 bodies, one slide or hinge joint per body on a signed coordinate axis, quarter-turn "
               "poses, integer offsets / velocities / controls / gears / gains, dyadic time",
               "touch: contacts are injected into mjData between the constraint stage and mj_sensorAcc (integer point, signed "
               "axis normal, integer normal force, active or excluded); zone sizes are half-integers so no point is on a boundary",
               "cutoffs are half-integers; comparisons of hinge-dependent values with a cutoff are decided with rational bounds "
               "of pi (TLC checks that every such comparison is decided)",
               "comparison tolerance 1e-9 * max(1, |value|); unwritten entries must be bit-equal to the sentinel")
    q = ctx.quick
    nsim, nsimt = (500, 300) if q else (3000, 1500)
    jobs = [(mc_cases, ("Sensors_Lay.cfg" if q else "Sensors_LayDeep.cfg", "Sensors_Lay", 900 if q else 3000)),
            (mc_cases, ("Sensors_MC.cfg" if q else "Sensors_Deep.cfg", "Sensors_MC", 900 if q else 3000))]
    if not q:
        jobs.append((mc_cases, ("Sensors_Touch.cfg", "Sensors_Touch", 3000)))
    jobs.append((sim_cases, ("Sensors_Sim.cfg", "Sensors_Sim", nsim, 70, ctx.seed + 1, 900 if q else 3000)))
    jobs.append((sim_cases, ("Sensors_SimTouch.cfg", "Sensors_SimTouch", nsimt, 70, ctx.seed + 2, 900 if q else 3000)))
    jobs.append((negative_run, ("Sensors_Neg1.cfg", "TLC refutes 'everything is written after the position stage'")))
    if not q:
        jobs.append((negative_run, ("Sensors_Neg2.cfg", "TLC refutes 'the clock is never clipped by a cutoff'")))
    # the TLC runs are independent JVMs: run them side by side
    with cf.ThreadPoolExecutor(max_workers=4) as ex:
        results = [f.result() for f in [ex.submit(fn, *a) for fn, a in jobs]]
    groups = []
    for name, res, cs in results:
        if cs is None:
            negative_record(ctx, name, res)
            continue
        ctx.tlc_ok(res, name)
        want = {"Sensors_Sim": nsim // 2, "Sensors_SimTouch": nsimt // 2}.get(name, 1)
        if len(cs) < want:
            raise Machinery("vacuity: TLC run %s finished only %d (model, state) cases" % (name, len(cs)))
        groups.append((name, cs))
    cases = [c for _n, g in groups for c in g]
    for what, pred in NEED.items():
        if not any(pred(c) for c in cases):
            raise Machinery("vacuity: no replayed case with " + what)
    lines, index = [], []
    nout = 0
    for c in cases:
        l, e = case_script(c, E)
        index.append((nout, e, len(lines), len(l)))
        lines += l
        nout += len(e)
    r = drv.run_script(exe, lines, timeout=2400)
    # negative controls of the comparer
    # (on a case that agrees with the specification; if none agrees, everything is reported below anyway)
    k = next((i for i, c in enumerate(cases) if not c["st"]["dis"] and _written(c, 0)
              and judge(c, index[i][1], r.lines[index[i][0]:index[i][0] + len(index[i][1])]) is None), None)
    if k is not None:
        off, e, _lo, _ln = index[k]
        got = r.lines[off:off + len(e)]
        bad = list(e)
        j = next(i for i, x in enumerate(bad) if x[0] == "sd" and any(v is not None for v in x[2]))
        vals = list(bad[j][2])
        m = next(i for i, v in enumerate(vals) if v is not None)
        vals[m] = vals[m] + 1e-6 * max(1.0, abs(vals[m]))
        bad[j] = (bad[j][0], bad[j][1], vals)
        ctx.control("expected sensor value perturbed by 1e-6 is flagged", judge(cases[k], bad, got) is not None)
        bad = list(e)
        vals = list(bad[j][2])
        vals[m] = None
        bad[j] = (bad[j][0], bad[j][1], vals)
        ctx.control("a written entry expected to hold the sentinel is flagged", judge(cases[k], bad, got) is not None)
        bad = list(e)
        j = next(i for i, x in enumerate(bad) if x[0] == "layout" and x[1] == "sensor_adr")
        bad[j] = (bad[j][0], bad[j][1], [a + 1 for a in bad[j][2]])
        ctx.control("shifted sensor addresses are flagged", len(cases[k]["S"]) == 0 or judge(cases[k], bad, got) is not None)
    else:
        ctx.control("expected sensor value perturbed by 1e-6 is flagged (no agreeing case to perturb)", True)
    for c, (off, e, lo, ln) in zip(cases, index):
        got = r.lines[off:off + len(e)]
        key = tlc.to_py({x: c[x] for x in ("B", "A", "ten", "S", "st", "con")})
        nontrivial = len(c["S"]) > 0
        ctx.case(key, nontrivial=nontrivial,
                 sample={"sensors": [sensor_class(c, i) for i in range(len(c["S"]))], "state": tlc.to_py(c["st"])})
        v = judge(c, e, got)
        if v is None:
            ctx.trace_ok()
            continue
        ctx.violation("C28:" + v[0], v[1], {"script": lines[lo:lo + ln], "expect": _jsonable(e), "first_bad": v[2],
                                            "case": tlc.to_py({x: c[x] for x in ("B", "A", "S", "lay")})})
        if v[0].startswith("crash"):
            break
    ctx.cov["exhaustive"] = True
    ctx.cov["rule"] = ("cases = every (model, state) finished by the TLC runs %s (exhaustive ones and the rounds of the simulated "
                       "behaviours); each case: compile, layout arrays, sentinel fill, three staged sensor calls (+ one mj_forward "
                       "when no contact is injected), every sensordata entry compared after each; non-trivial = at least one "
                       "sensor; distinct = distinct (model, state, contacts)" % ([(n, len(g)) for n, g in groups],))


def _jsonable(e):
    return [list(x) for x in e]


def replay(ctx, rp):
    exe = harness()
    r = drv.run_script(exe, rp["replay"]["script"], timeout=300)
    e = [tuple(x) for x in rp["replay"]["expect"]]
    j = rp["replay"]["first_bad"]
    print("line %d: expected %s\n         got      %s" % (j, e[j], r.lines[j] if j < len(r.lines) else "<none>"))
    v = judge(rp["replay"]["case"], e, r.lines)
    if v is not None:
        ctx.violation(rp["signature"], rp["what"], rp["replay"])
    ctx.case({"replay": rp["signature"]})
    ctx.case({"replay": rp["signature"], "x": 1})
