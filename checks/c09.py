"""C09 - forward and inverse dynamics agree: SmoothFwdInv.tla (on top of SmoothLattice.tla) decided by TLC; every scenario
(unconstrained trees with applied / Cartesian / actuator forces in continuous time and in the discrete time of the Euler,
implicit and implicitfast integrators, crossed with the disable flags; one-dof systems with exactly one constraint row in
closed rational form) replayed into mj_forward / mj_step / mj_inverse."""
import os
from fractions import Fraction

from vlib.check import Machinery
from checks import _smooth as S

META = dict(
    engine="tlc-replay",
    technique="TLA+ spec SmoothFwdInv.tla EXTENDS SmoothLattice.tla: one action per API call (Forward, Step, Inverse); free "
              "scenarios build the generalized force from a chosen integer acceleration through (M + hK) a + bias - passive "
              "with K the implicit terms of the integrator under the disable flags; row scenarios solve the one-row "
              "constrained problem (limit, friction loss, joint equality, frictionless contact) in exact rationals; TLC "
              "decides that inverse dynamics returns the applied force and the forward constraint force; replayed",
    text="Replay: qfrc_applied, xfrc_applied and a motor are set from the published scenario; mj_forward must return the "
         "published acceleration and constraint force, mj_step the published discrete acceleration, mj_inverse (with "
         "invdiscrete for the discrete scenarios) must return qfrc_applied + J'xfrc_applied + qfrc_actuator and the same "
         "constraint force; crossed with integrator in {Euler, implicit, implicitfast}, disable flags {eulerdamp, damper, "
         "spring, gravity, actuation}, solver in {PGS, CG, Newton}, cone, diagexact.",
    note="Trusted: TLC, harness smooth_drv.cc. Multi-row coupled problems depend on solver convergence and are not decided; "
         "tolerance 1e-8 relative to the force scale for solver outputs, 1e-9 otherwise. RK4 has no discrete inverse.",
    ref="DESIGN.md section 4 C09; section 7 item 6")

SPEC = os.path.join(S.TLA, "SmoothFwdInv.tla")
U = S.U
SOLTOL = 1e-8


def fr(x):
    return Fraction(x[0], x[1])


def solref_of(sr):
    if sr[0] == "direct":
        return [-float(sr[1]), -float(sr[2])]
    return [float(Fraction(sr[1], sr[2])), float(sr[3])]


def solimp_of(imp):
    d = float(fr(imp))
    return [d, d, 0.001, 0.5, 2.0]


def dis_of(ev):
    return sorted(set(ev["glob"]["dis"]) | set(ev["fi"]["xdis"]))


def script_for(ev):
    fi = ev["fi"]
    sc = S.Script()
    nv = ev["nv"]
    mode = fi["mode"]
    h = Fraction(1, fi["hden"])
    integ = "euler" if mode == "cont" else mode
    opt = "solver=%d cone=%d jacobian=%d tolerance=0 iterations=200" % (fi["solver"], fi["cone"], fi["jac"])
    enable = ["diagexact"] if fi.get("diagexact") else []
    extra = []
    jx = None
    b1 = ev["bodies"][0]
    if fi["op"] == "free":
        if tuple(fi["motor"]) != (0, 0):
            extra.append("actuator name=a trntype=0 target=j%d gear=%s" % (ev["dofs"][0], S.num(fi["motor"][0])))
    else:
        sr, si = S.csv(solref_of(fi["solref"])), S.csv(solimp_of(fi["imp"]))
        q1 = b1["q"] * S.unit_of(ev, 0)
        if fi["kind"] == "limit":
            lo = q1 - fi["gap"]
            jx = lambda k, b: "limited=1 range=%s solref_limit=%s solimp_limit=%s" % (S.csv([lo, lo + 100.0]), sr, si)   # noqa: E731
        elif fi["kind"] == "friction":
            jx = lambda k, b: "frictionloss=%s solref_friction=%s solimp_friction=%s" % (S.num(fi["floss"]), sr, si)     # noqa: E731
        elif fi["kind"] == "equality":
            extra.append("equality name=e type=2 objtype=3 name1=j1 data=%s solref=%s solimp=%s" % (
                S.csv([q1 - fi["gap"], 0, 0, 0, 0]), sr, si))
        elif fi["kind"] == "contact":
            pz = ev["kin"][0]["p"][2]
            rad = pz - fi["gap"]
            if rad <= 0:
                raise Machinery("contact scenario with non-positive radius")
            extra.append("geom name=floor type=0 size=5,5,1 contype=1 conaffinity=1 condim=1 solref=%s solimp=%s" % (sr, si))
            extra.append("geom body=b1 name=ball type=2 size=%s contype=1 conaffinity=1 condim=1 solref=%s solimp=%s" % (
                S.num(rad), sr, si))
    sc.model(S.model_lines(ev, timestep=float(h), integrator=integ, disable=fi["xdis"], enable=enable, extra_lines=extra,
                           joint_extra=jx, option_extra=opt))
    sc.ok("data 0 0")
    S.sanity(sc, ev)
    sc.oks(S.state_lines(ev))
    un = [S.unit_of(ev, d) for d in range(nv)]
    dofs = ev["dofs"]
    if fi["op"] == "free":
        den = fi["den"]
        applied = [float(Fraction(fi["appliedNum"][b - 1], den)) + fi["totalB"][b - 1] * un[i] for i, b in enumerate(dofs)]
        total = [float(Fraction(fi["totalNum"][b - 1], den)) + fi["totalB"][b - 1] * un[i] for i, b in enumerate(dofs)]
        inv = [float(Fraction(fi["invNum"][b - 1], den)) + fi["invB"][b - 1] * un[i] for i, b in enumerate(dofs)]
        acc = [fi["qacc"][b - 1] for b in dofs]
        adisc = [fi["adisc"][b - 1] for b in dofs]
        sc.ok("setv 0 qfrc_applied %s" % S.csv(applied))
        f, t = fi["xf"]
        if any(f) or any(t):
            for k, x in enumerate(list(f) + list(t)):
                sc.ok("set 0 xfrc_applied %d %s" % (6 * ev["n"] + k, S.num(x)))
        if tuple(fi["motor"]) != (0, 0):
            sc.ok("setv 0 ctrl %s" % S.num(fi["motor"][1]))
        want_f = []
    else:
        applied = [float(fi["tau"])]
        total = applied
        inv = [float(fr(fi["inv"]))]
        acc = [fr(fi["qacc"])]
        adisc = [fr(fi["adisc"])]
        sc.ok("setv 0 qfrc_applied %s" % S.csv(applied))
        want_f = [fr(fi["force"])] if fi["active"] else []
    scale = max([1.0] + [abs(x) for x in total] + [abs(float(x)) for x in want_f])
    ascale = max([1.0] + [abs(float(x)) for x in acc])
    sc.ok("forward 0")
    if fi["op"] == "row":
        sc.vec("efc 0", "forward:efc_force", want_f, scale=scale, tol=SOLTOL)
        # mj_compareFwdInv: both discrepancy norms (constraint force, applied force) vanish at the converged solution
        sc.vec("fwdinv 0", "compareFwdInv", [0.0, 0.0], scale=scale, tol=SOLTOL)
    if mode == "cont":
        sc.vec("get 0 qacc", "forward:qacc", acc, scale=ascale, tol=SOLTOL)
        sc.ok("inverse 0")
    else:
        sc.vec("stepacc 0", "step:discrete-acceleration", adisc, scale=ascale, tol=SOLTOL)
        sc.ok("optset 0 enableflags %d" % (S.ENBL["invdiscrete"] | (S.ENBL["diagexact"] if fi.get("diagexact") else 0)))
        sc.ok("setv 0 qacc %s" % S.csv(adisc))
        sc.ok("inverse 0")
    sc.vec("get 0 qfrc_inverse", "inverse:qfrc_inverse", inv, scale=scale, tol=SOLTOL)
    if fi["op"] == "row":
        sc.vec("efc 0", "inverse:efc_force", [fr(fi["finv"])] if fi["active"] else [], scale=scale, tol=SOLTOL)
    return sc


INTEGRATOR_FLAGS = ("damper", "eulerdamp")       # the disable flags that change what an integrator treats implicitly


def sig_of(ev, label):
    """quantity : time model : integrator-relevant disabled flags (: row kind for constraint-force mismatches);
    the complete flag set, the model and the scenario are in the description and in the replay file"""
    fi = ev["fi"]
    sg = "C09:%s:%s:disabled=%s" % (label, "invdiscrete-" + fi["mode"] if fi["mode"] != "cont" else "continuous",
                                    "+".join(x for x in dis_of(ev) if x in INTEGRATOR_FLAGS) or "none")
    if "efc_force" in label or "qacc" in label:
        sg += ":" + (fi["kind"] if fi["op"] == "row" else "free")
    return sg


def describe(ev):
    fi = ev["fi"]
    b = ev["bodies"]
    return ("scenario=%s mode=%s timestep=1/%d disabled=%s solver=%s damping=%s qvel=%s" % (
        fi["kind"] if fi["op"] == "row" else "free", fi["mode"], fi["hden"], dis_of(ev), "%d cone=%d jacobian=%d" % (fi["solver"], fi["cone"], fi["jac"]),
        [x["damp"] for x in b], [x["v"] for x in b]))


def key_of(ev):
    from vlib import tlc
    return tlc.to_py({"bodies": ev["bodies"], "glob": ev["glob"], "fi": {k: v for k, v in ev["fi"].items() if k in (
        "op", "kind", "mode", "xdis", "hden", "motor", "xf", "tau", "solref", "imp", "gap", "floss", "solver", "cone", "jac",
        "diagexact")}})


NEED = {
    "an active limit row with positive force": lambda ev: ev["fi"].get("kind") == "limit" and ev["fi"]["active"] and ev["fi"]["force"][0] > 0,
    "an active contact row with positive force": lambda ev: ev["fi"].get("kind") == "contact" and ev["fi"]["active"] and ev["fi"]["force"][0] > 0,
    "an inactive (separated) contact": lambda ev: ev["fi"].get("kind") == "contact" and not ev["fi"]["active"],
    "a friction row inside its bounds": lambda ev: ev["fi"].get("kind") == "friction" and abs(fr(ev["fi"]["force"])) < ev["fi"]["floss"],
    "a saturated friction row": lambda ev: ev["fi"].get("kind") == "friction" and abs(fr(ev["fi"]["force"])) == ev["fi"]["floss"],
    "an equality row": lambda ev: ev["fi"].get("kind") == "equality",
    "Euler with implicit joint damping": lambda ev: ev["fi"]["op"] == "free" and ev["fi"]["mode"] == "euler" and any(
        any(r) for r in ev["fi"]["k2m"]),
    "Euler with damping but eulerdamp disabled": lambda ev: ev["fi"]["mode"] == "euler" and "eulerdamp" in ev["fi"]["xdis"] and any(
        b["damp"] for b in ev["bodies"]),
    "damping present but dampers disabled (invdiscrete)": lambda ev: ev["fi"]["mode"] != "cont" and "damper" in ev["glob"]["dis"] and any(
        b["damp"] for b in ev["bodies"]),
    "implicit integrator with a velocity-dependent bias": lambda ev: ev["fi"]["op"] == "free" and ev["fi"]["mode"] == "implicit" and any(
        ev["fi"]["k2m"][i][j] != 0 for i in range(ev["n"]) for j in range(ev["n"]) if i != j),
    "a free scenario in continuous time": lambda ev: ev["fi"]["op"] == "free" and ev["fi"]["mode"] == "cont",
}


def run(ctx):
    ctx.assume("free scenarios: lattice trees of SmoothLattice.tla without tendons, integer accelerations, timestep 1/2, 1/4, 1/8",
               "row scenarios: one body, one dof, exactly one constraint row, flat impedance (solimp d d), margin 0; "
               "limit / equality / contact on slide joints; the contact row uses the exact diagonal (diagexact)",
               "solver tolerance 0, 200 iterations; comparison 1e-8 relative to the force / acceleration scale")
    exe = S.harness()
    if ctx.quick:
        mcs, sims = ["SmoothFwdInv_RowMC.cfg"], [("SmoothFwdInv_RowSim.cfg", 150), ("SmoothFwdInv_FreeSim.cfg", 100)]
    else:
        mcs = ["SmoothFwdInv_RowMC.cfg", "SmoothFwdInv_FreeMC.cfg"]
        sims = [("SmoothFwdInv_RowSim.cfg", 3000), ("SmoothFwdInv_FreeSim.cfg", 2000)]
    jo = S.FAST_JIT if ctx.quick else ()
    allres, allev, total = [], [], 0
    for cfg in mcs:
        res, evs = S.mc_models(SPEC, os.path.join(S.TLA, cfg), timeout=1500, marker=S.ENDED, with_fi=True, java_opts=jo)
        ctx.tlc_ok(res, cfg[:-4])
        if not evs:
            raise Machinery("no finished scenario in " + cfg)
        total += len(evs)
        allres.append(S.check_models(ctx, "C09", exe, evs, cfg[:-4], script_for, sig_of, describe, key=key_of))
        allev += evs
    nsim = 0
    for cfg, num in sims:
        res, evs = S.sim_models(SPEC, os.path.join(S.TLA, cfg), num=num, depth=80, seed=ctx.seed + 11, timeout=1500,
                                marker=S.ENDED, with_fi=True, java_opts=jo)
        ctx.tlc_ok(res, cfg[:-4])
        ctx.cov["states"] += res.generated
        if len(evs) < num // 2:
            raise Machinery("simulation %s produced only %d finished scenarios" % (cfg, len(evs)))
        nsim += len(evs)
        allres.append(S.check_models(ctx, "C09", exe, evs, cfg[:-4], script_for, sig_of, describe, key=key_of))
        allev += evs
    if not ctx.quick:
        from vlib import tlc
        resn = tlc.run(SPEC, os.path.join(S.TLA, "SmoothFwdInv_Neg.cfg"), timeout=1500, java_opts=S.FAST_JIT)
        ctx.tlc_ok(resn, "SmoothFwdInv_Neg", allow_violation=True)
        ctx.control("TLC refutes the false claim NegDiscreteIsContinuous",
                    resn.violation is not None and "NegDiscreteIsContinuous" in resn.violation)
    for name, pred in NEED.items():
        if not any(pred(ev) for ev in allev):
            raise Machinery("vacuity: no replayed scenario with " + name)
    flat = [x for r in allres for x in r]
    S.perturb_control(ctx, "perturbed expected qfrc_inverse is flagged", flat, "inverse:qfrc_inverse", 1e-6)
    S.perturb_control(ctx, "perturbed expected constraint force is flagged", allres[0], "forward:efc_force", 1e-6)
    S.perturb_control(ctx, "perturbed expected discrete acceleration is flagged", flat, "step:discrete-acceleration", 1e-6)
    ctx.cov["exhaustive"] = True
    ctx.cov["rule"] = ("every scenario of the exhaustive lattices %s (%d scenarios) and %d simulated scenarios (%s) is built "
                       "through mjSpec, the published forces are applied, and forward / step / inverse outputs are compared "
                       "with the published values; non-trivial = at least one dof; distinct = distinct model+scenario" % (
                           ", ".join(c[:-4] for c in mcs), total, nsim, ", ".join(c[:-4] for c, _ in sims)))


def replay(ctx, rp):
    S.replay_common(ctx, rp)
