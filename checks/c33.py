"""C33 - compilation is deterministic and copy-invariant; mj_recompile preserves the simulation state.

SpecLifecycle.tla decided by TLC; its behaviours (edge covers of the exhaustive graphs + simulated histories) replayed
into mj_compile / mj_copySpec / mj_copyModel / mjs_* edits / compiler.usethread / mj_recompile / mj_makeData through
harness/speclife_drv.cc.  After every operation the mj_saveModel image of every model slot must realise the partition
obs.cls of the specification, and the data must hold, element by element (by NAME), the tokens of obs.st."""
import json
import os

from vlib import build, tlc, drv
from vlib.check import Machinery, VERIF
from checks import tladump

TLA = os.path.join(VERIF, "tla")
SPEC = os.path.join(TLA, "SpecLifecycle.tla")
JOPT = ("-XX:TieredStopAtLevel=1",)

META = dict(
    engine="tlc-replay",
    technique="TLA+ spec SpecLifecycle.tla (spec slots with content = base + edit sequence, usethread flag and the "
              "model their addresses refer to; model slots; one mjData with a token per state-carrying element; "
              "actions NewSpec, CopySpec, Edit, ToggleThreads, Compile, CopyModel, MakeData, SetState, Recompile) "
              "model-checked by TLC; every transition of the small graphs and simulated 10-operation histories replayed "
              "into the public compiler API; model equality decided on mj_saveModel bytes, state preservation per "
              "named element",
    text="TLC decides on SpecLifecycle.tla that copies and thread toggles never change a content, that the class "
         "partition equals content equality and that Recompile keeps time and every surviving element's token. "
         "The replay executes each history on real objects (model with 4 user-vertex meshes, 4 builtin textures, two "
         "muscles so that both compiler thread pools run, a mocap body, filter-dynamics and - in base 'multi' - a "
         "two-input PID actuator): after every operation all model slots of one class must have identical "
         "mj_saveModel bytes, and after mj_recompile time, qpos, qvel, act, ctrl and mocap pose of every element "
         "that existed before must be bit-identical while new elements hold the defaults; edits insert a joint in "
         "the middle of the tree and delete the first actuator, so addresses shift.",
    note="Trusted: TLC, harness/speclife_drv.cc (element-wise state report by name, edits through mjs_*), the base "
         "descriptions in checks/c33.py. OS scheduling of the compiler thread pools is not controlled: threaded "
         "compiles are repeated (30 / 200 times) and can only add evidence. mj_recompile is exercised only with the "
         "model and data of the spec's own last compile (what the API documents). qacc_warmstart, applied forces, "
         "eq_active, userdata are not claimed to survive mj_recompile.",
    ref="DESIGN.md section 4 C33, section 7 item 12")

TET = "uservert=0,0,0,1,0,0,0,1,0,0,0,1 userface=0,2,1,0,1,3,0,3,2,1,2,3"
MUSCLE = ("gaintype=2 biastype=2 dyntype=4 gainprm=0.75,1.05,-1,200,0.5,1.6,1.5,1.3,1.2 "
          "biasprm=0.75,1.05,-1,200,0.5,1.6,1.5,1.3,1.2 dynprm=0.01,0.04")


def msh_bytes(bar, h):
    """binary .msh (header nvert, nnormal, ntexcoord, nface; float vertices; int faces): an L-shaped, NON-CONVEX prism -
    polygon (0,0) (bar,0) (bar,1) (1,1) (1,2) (0,2) extruded over [0, h]; exact and legacy inertia differ on it"""
    import struct
    P = [(0, 0), (bar, 0), (bar, 1), (1, 1), (1, 2), (0, 2)]
    v = []
    for k in range(2):
        for (x, y) in P:
            v += [x, y, h if k else 0.0]
    tri = [(0, 1, 2), (0, 2, 3), (0, 3, 4), (0, 4, 5)]
    f = []
    for t in tri:
        f += [6 + t[0], 6 + t[1], 6 + t[2]]
    for t in tri:
        f += [t[0], t[2], t[1]]
    for i in range(6):
        j = (i + 1) % 6
        f += [i, j, 6 + j, i, 6 + j, 6 + i]
    return struct.pack("<4i", len(v) // 3, 0, 0, len(f) // 3) + struct.pack("<%df" % len(v), *v) + struct.pack("<%di" % len(f), *f)


VFS_CMDS = ["sl_vfs L.msh %s" % msh_bytes(3.0, 0.5).hex(), "sl_vfs O.msh %s" % msh_bytes(2.5, 1.0).hex()]


def base_lines(base, thr):
    L = ["compiler usethread=%d" % (1 if thr else 0), "option timestep=0.01",
         # user meshes (vertices + faces in the spec) with the scale sign patterns +++, -++ (mirrored: the compiler
         # flips every triangle), +-- (two negative factors: not mirrored), ++- (mirrored)
         "mesh name=m1 %s inertia=1" % TET, "mesh name=m2 %s scale=-2,1,1 inertia=1" % TET,
         "mesh name=m3 %s scale=1,-3,-1 inertia=1" % TET, "mesh name=m4 %s scale=1,1,-0.5 inertia=1" % TET,
         # file meshes through the VFS and the global asset cache: fe and fl load the SAME file with different inertia modes
         "mesh name=fe file=L.msh inertia=1", "mesh name=fl file=L.msh inertia=2", "mesh name=fo file=O.msh inertia=2",
         "texture name=t1 type=0 builtin=2 width=32 height=32 rgb1=1,0,0 rgb2=0,1,0",
         "texture name=t2 type=0 builtin=1 width=16 height=48 rgb1=0,0,1 rgb2=1,1,0",
         "texture name=t3 type=0 builtin=3 width=8 height=8 rgb1=0.5,0.5,0.5",
         "texture name=t4 type=2 builtin=1 width=16 height=96 rgb1=0.2,0.3,0.4 rgb2=0.9,0.8,0.7",
         "geom name=floor type=0 size=5,5,0.1",
         "body name=b1 pos=0,0,1", "joint body=b1 name=j1 type=3 axis=0,1,0 limited=1 range=-1,1",
         "geom body=b1 name=g1 type=2 size=0.1", "geom body=b1 name=gm1 type=7 meshname=m1 contype=0 conaffinity=0",
         "body name=b2 pos=1,0,1", "joint body=b2 name=j2 type=2 axis=0,0,1 limited=1 range=-0.5,0.5",
         "geom body=b2 name=g2 type=2 size=0.1", "geom body=b2 name=gm2 type=7 meshname=m2 contype=0 conaffinity=0",
         "geom body=b2 name=gfe type=7 meshname=fe contype=0 conaffinity=0 density=10",
         "body name=b3 pos=2,0,1", "joint body=b3 name=j3 type=0",
         "geom body=b3 name=g3 type=6 size=0.1,0.1,0.1", "geom body=b3 name=gm3 type=7 meshname=m3 contype=0 conaffinity=0",
         "geom body=b3 name=gm4 type=7 meshname=m4 contype=0 conaffinity=0",
         "geom body=b3 name=gfo type=7 meshname=fo contype=0 conaffinity=0 density=10",
         "body name=b4 pos=3,0,1", "joint body=b4 name=j4 type=3 axis=1,0,0",
         "geom body=b4 name=g4 type=3 size=0.05,0.2", "geom body=b4 name=gfl type=7 meshname=fl contype=0 conaffinity=0 density=10",
         "body name=mb pos=0,1,1 mocap=1", "geom body=mb name=gmb type=2 size=0.05 contype=0 conaffinity=0"]
    if base == "multi":
        # PID servo with position and velocity setpoint inputs: actuator_ctrlnum = 2
        L.append("actuator name=a0 trntype=0 target=j1 gaintype=5 biastype=1 ctrlspec=3 gainprm=0,5,1 biasprm=0,-5,-1")
    elif base != "plain":
        raise Machinery("unknown base %r" % base)
    L += ["actuator name=a1 trntype=0 target=j2 dyntype=2 dynprm=0.5",
          "actuator name=a2 trntype=0 target=j1",
          "actuator name=u1 trntype=0 target=j1 %s" % MUSCLE,
          "actuator name=u2 trntype=0 target=j2 %s" % MUSCLE]
    return L


def op_cmds(ev):
    """harness commands of one specification event"""
    op = ev["op"]
    if op == "init":
        return (["sl_reset"] + VFS_CMDS + ["spec 1"] + base_lines(ev["base"], ev["thr"]) + ["end", "compile 1 1", "data 0 1"]), 6
    if op == "newspec":
        return (["spec %d" % ev["s"]] + base_lines(ev["base"], ev["thr"]) + ["end"]), 1
    if op == "copyspec":
        return ["sl_copyspec %d %d" % (ev["s2"], ev["s"])], 1
    if op == "edit":
        return ["sl_edit %d %s" % (ev["s"], ev["e"])], 1
    if op == "thread":
        return ["sl_thread %d %d" % (ev["s"], 1 if ev["thr"] else 0)], 1
    if op == "compile":
        return ["compile %d %d" % (ev["m"], ev["s"])], 1
    if op == "copymodel":
        return ["copymodel %d %d" % (ev["m2"], ev["m"])], 1
    if op == "makedata":
        return ["data 0 %d" % ev["m"]], 1
    if op == "setstate":
        return ["sl_setstate 0 %d" % ev["v"], "sl_state 0"], 2
    if op == "recompile":
        return ["recompile %d %d 0" % (ev["s"], ev["m"])], 1
    if op == "cache":
        return ["sl_cache %s" % ev["k"]], 1
    raise Machinery("unknown operation %r" % (ev,))


OK_ANSWER = {"sl_vfs": "ok", "sl_cache": "ok", "sl_reset": "ok", "spec": "ok", "compile": "ok", "data": "ok", "sl_copyspec": "ok", "sl_edit": "ok",
             "sl_thread": "ok", "copymodel": "ok", "sl_setstate": "ok", "recompile": "0"}


def parse_state(line):
    """'time=1 j1.qpos=.. ...' -> (time text, {element: {field: text}}, sizes)"""
    out, t, sizes = {}, None, None
    for tok in line.split():
        k, v = tok.split("=", 1)
        if k == "time":
            t = v
        elif k == "sizes":
            sizes = v
        else:
            el, f = k.rsplit(".", 1)
            out.setdefault(el, {})[f] = v
    return t, out, sizes


def zeros(text):
    return ",".join("0" for _ in text.split(","))


def script_for(beh, nm):
    """commands and, per state of the behaviour, the line indices of its answers and observations"""
    cmds, plan = [], []
    for st in beh:
        ev = st["ev"]
        c, nout = op_cmds(ev)
        first = len(cmds)
        cmds += c
        obs = st["obs"]
        live = [m for m in range(1, nm + 1) if obs["cls"][m - 1] != 0]
        ib = len(cmds)
        cmds += ["sl_bytes %d" % m for m in live]
        istate = None
        if obs["dm"] != 0:
            istate = len(cmds)
            cmds.append("sl_state 0")
        plan.append((first, c, nout, live, ib, istate))
    return cmds, plan


def out_index(cmds):
    """index of the output line of every command (the lines of a spec description produce no output)"""
    idx, k, inside = {}, 0, False
    for i, c in enumerate(cmds):
        if inside:
            if c == "end":
                inside = False
            continue
        if c.startswith("spec "):
            inside = True
        idx[i] = k
        k += 1
    return idx


def context(beh, k):
    """what kind of history precedes the recompile at position k (for the signature)"""
    st = beh[k]
    s = st["ev"]["s"]
    # contents are not in obs: rebuild the edit list of that spec slot from the events (bookkeeping of names only)
    base, edits, owner = None, {}, {}
    for j in range(k + 1):
        ev = beh[j]["ev"]
        if ev["op"] == "init":
            owner[1] = (ev["base"], [])
        elif ev["op"] == "newspec":
            owner[ev["s"]] = (ev["base"], [])
        elif ev["op"] == "copyspec":
            owner[ev["s2"]] = (owner[ev["s"]][0], list(owner[ev["s"]][1]))
        elif ev["op"] == "edit":
            owner[ev["s"]][1].append(ev["e"])
    base, ed = owner[s]
    if "delact" in ed:
        return "actuator-deleted"
    if base == "multi":
        return "multi-input-actuator"
    if "addchild" in ed:
        return "element-added"
    return "plain"


TWICE = [0]         # behaviours in which one spec object (every base has mirrored user meshes) is compiled twice or more
DIFFERENT = [0]     # pairs of model slots with different contents and different bytes seen in this run
FIELDS = {"j": ("qpos", "qvel"), "a": ("ctrl", "act"), "u": ("ctrl", "act"), "m": ("mpos", "mquat")}
DEFAULT_OF = {"qpos": "qpos0", "mpos": "mpos0", "mquat": "mquat0"}


def check_behaviour(ctx, beh, nm, cmds, plan, lines, oi, label):
    """compare one replayed behaviour with the specification; returns True if it agreed everywhere"""
    snaps = {}                     # token -> (time, {element: {field: text}})
    ops = [tlc.to_py(st["ev"]) for st in beh]
    short = [(e["op"], e.get("s"), e.get("m"), e.get("e")) for e in ops]

    def line(i):
        j = oi[i]
        return lines[j] if j < len(lines) else None
    for k, (st, (first, c, nout, live, ib, istate)) in enumerate(zip(beh, plan)):
        ev = st["ev"]
        # 1. the operation itself must succeed
        for i in range(first, first + len(c)):
            if i not in oi:
                continue
            word = cmds[i].split()[0]
            got = line(i)
            if got is None:
                return ("crash", "harness died after %s" % short[:k + 1], None)
            if word in OK_ANSWER and got != OK_ANSWER[word]:
                return ("%s:fails" % ev["op"], "%s answered %r in history %s" % (cmds[i], got, short[:k + 1]), None)
            if word == "sl_state" and ev["op"] == "setstate":
                t, els, _ = parse_state(got)
                snaps[ev["v"]] = (t, els)
        # 2. model classes
        hashes = {}
        for j, m in enumerate(live):
            got = line(ib + j)
            if got is None or len(got.split()) != 2:
                return ("crash", "sl_bytes %d answered %r in history %s" % (m, got, short[:k + 1]), None)
            hashes[m] = got
        cls = st["obs"]["cls"]
        for a in live:
            for b in live:
                if a < b and cls[a - 1] == cls[b - 1] and hashes[a] != hashes[b]:
                    thr = [e.get("thr") for e in ops[:k + 1] if e["op"] in ("compile", "recompile", "init")]
                    how = st["obs"]["how"]
                    cstate = ("cache-state-differs" if tuple(how[a - 1]) != tuple(how[b - 1]) else "same-cache-state")
                    if tuple(how[a - 1])[:1] != tuple(how[b - 1])[:1]:
                        cstate = "cache-enabled-vs-disabled"
                    return ("model-bytes-differ:after-%s:%s" % (ev["op"], cstate),
                            "model slots %d and %d must be byte-identical (same content) but mj_saveModel gives %s vs %s; "
                            "history %s (usethread of the compiles: %s)" % (a, b, hashes[a], hashes[b], short[:k + 1], thr), None)
                if a < b and cls[a - 1] != cls[b - 1] and hashes[a] != hashes[b]:
                    DIFFERENT[0] += 1        # vacuity guard: edits do change the compiled model
        # 3. data
        if istate is not None:
            got = line(istate)
            if got is None or not got.startswith("time="):
                return ("crash", "sl_state answered %r in history %s" % (got, short[:k + 1]), None)
            t, els, sizes = parse_state(got)
            want = st["obs"]["st"]
            if set(els) != set(want):
                return ("elements:after-%s" % ev["op"],
                        "data holds elements %s, specification %s; history %s" % (sorted(els), sorted(want), short[:k + 1]), None)
            tt = st["obs"]["time"]
            wt = "0" if tt == 0 else snaps[tt][0]
            if t != wt:
                return ("%s:time:%s" % (ev["op"], "lost" if tt else "not-default"),
                        "time is %s, specification says %s after %s" % (t, wt, short[:k + 1]), None)
            for el in sorted(want):
                tok = want[el]
                for f in FIELDS[el[0]]:
                    if f not in els[el]:
                        continue
                    if tok == 0:
                        w = els[el][DEFAULT_OF[f]] if f in DEFAULT_OF else zeros(els[el][f])
                    else:
                        w = snaps[tok][1].get(el, {}).get(f)
                        if w is None:
                            raise Machinery("%s: no snapshot of %s.%s for token %d" % (label, el, f, tok))
                    if els[el][f] != w:
                        ctxt = context(beh, k) if ev["op"] == "recompile" else "-"
                        return ("%s:%s:%s:%s" % (ev["op"], f, "lost" if tok else "not-default", ctxt),
                                "%s.%s = %s after %s, specification says %s (token %d: %s); history %s"
                                % (el, f, els[el][f], ev["op"], w, tok,
                                   "the values written by SetState %d" % tok if tok else "model default", short[:k + 1]), None)
    return None


def replay_behaviours(ctx, exe, behs, nm, label, chunk=400):
    """behs: list of lists of states (first = initial state)"""
    nbad = 0
    for c0 in range(0, len(behs), chunk):
        part = behs[c0:c0 + chunk]
        cmds, plans, offs = [], [], []
        for beh in part:
            c, plan = script_for(beh, nm)
            offs.append(len(cmds))
            plans.append(plan)
            cmds += c
        r = drv.run_script(exe, cmds, timeout=3000)
        oi = out_index(cmds)
        for beh, plan, off in zip(part, plans, offs):
            plan = [(first + off, c, nout, live, ib + off, (istate + off) if istate is not None else None)
                    for (first, c, nout, live, ib, istate) in plan]
            ops = [tlc.to_py(st["ev"]) for st in beh]
            key = [(e["op"], e.get("base"), e.get("thr"), e.get("s"), e.get("s2"), e.get("m"), e.get("m2"), e.get("e")) for e in ops]
            per = {}
            for e in ops:
                if e["op"] == "init":
                    per[1] = per.get(1, 0) + 1
                elif e["op"] in ("compile", "recompile"):
                    per[e["s"]] = per.get(e["s"], 0) + 1
            if any(v >= 2 for v in per.values()):
                TWICE[0] += 1
            nrec = sum(1 for e in ops if e["op"] == "recompile")
            ncomp = sum(1 for e in ops if e["op"] in ("compile", "copymodel", "recompile"))
            ctx.case({"ops": key}, nontrivial=ncomp >= 1, sample={"ops": [k[0] for k in key], "recompiles": nrec})
            res = check_behaviour(ctx, beh, nm, cmds, plan, r.lines, oi, label)
            if res is None:
                ctx.trace_ok()
                continue
            nbad += 1
            sig, what, _ = res
            if sig == "crash" and r.crashed:
                what += " (" + r.crash_text() + ")"
            lo = off
            hi = offs[offs.index(off) + 1] if offs.index(off) + 1 < len(offs) else len(cmds)
            ctx.violation(sig, "[%s] %s" % (label, what), {"script": cmds[lo:hi], "nm": nm, "signature": sig,
                                                          "behaviour": [tlc.to_py({"ev": st["ev"], "obs": st["obs"]}) for st in beh]})
            if sig == "crash":
                return nbad
    return nbad


def canon_graph(nodes, edges, inits):
    """TLC numbers states by fingerprint: relabel by content so that the edge cover is the same in every run"""
    key = {i: json.dumps(tlc.to_py(st), sort_keys=True) for i, st in nodes.items()}
    order = sorted(nodes, key=lambda i: key[i])
    new = {old: "%07d" % k for k, old in enumerate(order)}
    n2 = {new[i]: nodes[i] for i in order}
    e2 = sorted({(new[u], new[v], a) for (u, v, a) in edges if u in new and v in new})
    return n2, e2, sorted(new[i] for i in inits)


def graph_behaviours(ctx, cfg, label):
    res, nodes, edges, inits = tlc.dump_graph(SPEC, os.path.join(TLA, cfg), timeout=1800)
    ctx.tlc_ok(res, label)
    nodes, edges, inits = canon_graph(nodes, edges, inits)
    edges = [(u, v, a) for (u, v, a) in edges if u != v]
    paths = tlc.edge_cover_paths(nodes, edges, inits)
    if len(paths) < 10:
        raise Machinery("%s: only %d paths" % (label, len(paths)))
    return [[nodes[i] for i in p] for p in paths], len(edges)


def run(ctx):
    try:
        run_all(ctx)
    except Machinery as e:
        if not ctx.violations:
            raise
        print("note: machinery failure after violations were found (%s)" % str(e)[:300])


def run_all(ctx):
    exe = build.build_harness("speclife_drv", [os.path.join(VERIF, "harness", "speclife_drv.cc")],
                              extra=tladump.harness_digest_flag())
    ctx.assume("base descriptions: 4 user-vertex meshes (exact inertia, no hull), 4 builtin textures, 4 joints, a mocap "
               "body, filter / muscle actuators, and in base 'multi' a two-input PID actuator",
               "mj_recompile is called with the model and data of the spec's own last compile",
               "thread schedules of the compiler pools are whatever the OS produces (repeated compiles add evidence only)",
               "state outside time/qpos/qvel/act/ctrl/mocap pose is not claimed to survive mj_recompile")
    import time
    t0 = time.time()
    acts = ["DoNewSpec", "DoCopySpec", "DoEdit", "DoThreads", "DoCompile", "DoCopyModel", "DoMakeData", "DoSetState", "DoRecompile"]
    cfg = "SpecLifecycle_MC.cfg" if ctx.quick else "SpecLifecycle_Deep.cfg"
    res = tlc.run(SPEC, os.path.join(TLA, cfg), coverage=True, timeout=2400, java_opts=JOPT if ctx.quick else ())
    ctx.tlc_ok(res, cfg[:-4], need_actions=acts)
    exhaustive = bool(res.finished)
    tladump.timing("c33 mc", t0)
    total_bad = 0
    # ---- every transition of the all-operations graph (2 / 3 operations after the initial compile)
    behs, ne1 = graph_behaviours(ctx, "SpecLifecycle_Graph.cfg" if ctx.quick else "SpecLifecycle_Graph3.cfg", "graph(all operations)")
    total_bad += replay_behaviours(ctx, exe, behs, 2, "all-operations graph")
    n1 = len(behs)
    tladump.timing("c33 graph1 (%d paths)" % n1, t0)
    # ---- every transition of the recompile graph (SetState / Edit / Recompile histories of 4 / 5 operations)
    behs, ne2 = graph_behaviours(ctx, "SpecLifecycle_Rec4.cfg" if ctx.quick else "SpecLifecycle_Rec.cfg", "graph(recompile)")
    total_bad += replay_behaviours(ctx, exe, behs, 1, "recompile graph")
    n2 = len(behs)
    behs2 = behs
    tladump.timing("c33 graph2 (%d paths)" % n2, t0)
    # ---- every transition of the asset-cache graph: cache off / on / cleared, thread toggles, compile into a second
    #      slot, recompile - the images must not depend on the cache state
    behs, ne3 = graph_behaviours(ctx, "SpecLifecycle_Cache.cfg" if ctx.quick else "SpecLifecycle_Cache4.cfg", "graph(asset cache)")
    total_bad += replay_behaviours(ctx, exe, behs, 2, "asset-cache graph")
    n3 = len(behs)
    tladump.timing("c33 graph3 (%d paths)" % n3, t0)
    behs = behs2
    # negative control: the comparer must react to a wrong expectation.  The FIRST item it compares after the last
    # operation (time) is perturbed, and the verdict must change - whatever the implementation did.
    ctl = next((b for b in behs if b[-1]["ev"]["op"] == "recompile" and b[-1]["obs"]["time"] > 0), None)
    if ctl is None:
        raise Machinery("no behaviour for the negative control")
    bad = [dict(s) for s in ctl]
    last = dict(bad[-1])
    ob = dict(last["obs"])
    ob["time"] = 0
    last["obs"] = ob
    bad[-1] = last
    cmds, plan = script_for(ctl, 1)
    r = drv.run_script(exe, cmds, timeout=600)
    resg = check_behaviour(ctx, ctl, 1, cmds, plan, r.lines, out_index(cmds), "control")
    resb = check_behaviour(ctx, bad, 1, cmds, plan, r.lines, out_index(cmds), "control")
    ctx.control("a perturbed expected time token (preserved -> default) changes the comparer's verdict", resb != resg)
    # ---- simulated longer histories over three model slots
    nsim = 25 if ctx.quick else 300
    res, sims = tlc.simulate(SPEC, os.path.join(TLA, "SpecLifecycle_Sim.cfg"), num=nsim, depth=11, seed=ctx.seed + 33, timeout=1800)
    ctx.tlc_ok(res, "SpecLifecycle_Sim")
    behs = [[s for (_a, s) in b] for b in sims]
    if len(behs) < nsim // 2:
        raise Machinery("SpecLifecycle_Sim produced %d behaviours" % len(behs))
    total_bad += replay_behaviours(ctx, exe, behs, 3, "simulated histories")
    tladump.timing("c33 sim", t0)
    # ---- OS schedules of the compiler pools: repeated threaded compiles / recompiles against the serial image
    reps = 30 if ctx.quick else 200
    cmds = ["sl_reset"] + VFS_CMDS + ["sl_cache off", "spec 1"] + base_lines("multi", False) + [
        "end", "compile 1 1", "sl_bytes 1", "sl_cache on", "spec 2"] + base_lines("multi", True) + ["end"]
    for k in range(reps):
        # cold cache for two compiles out of three: the mesh tasks of the two assets sharing a file race for the entry
        cmds += (["sl_cache clear"] if k % 3 else []) + ["compile 2 2", "sl_bytes 2"]
    cmds += ["data 0 2"]
    for k in range(reps // 3):
        cmds += ["recompile 2 2 0", "sl_bytes 2"]
    r = drv.run_script(exe, cmds, timeout=1800)
    oi = out_index(cmds)
    ref = None
    for i, c in enumerate(cmds):
        if i in oi and c.startswith("sl_bytes"):
            got = r.lines[oi[i]] if oi[i] < len(r.lines) else None
            if ref is None:
                ref = got
                continue
            ctx.case({"threaded-compile": i}, nontrivial=True)
            if got != ref:
                total_bad += 1
                ctx.violation("model-bytes-differ:threaded-compile-repetition",
                              "threaded compile / recompile number %d gives image %s, the serial compile %s" % (i, got, ref),
                              {"script": cmds[:i + 1], "nm": 2, "signature": "model-bytes-differ:threaded-compile-repetition",
                               "repeat": True})
                break
            ctx.trace_ok()
    tladump.timing("c33 threads", t0)
    if TWICE[0] == 0:
        raise Machinery("vacuity: no behaviour compiled a spec with a mirrored user mesh twice")
    if DIFFERENT[0] == 0:
        raise Machinery("no two models of different content ever differed in their bytes: the edits have no effect")
    ctx.cov["exhaustive"] = exhaustive
    ctx.cov["rule"] = ("behaviours = edge cover of the exhaustive all-operations graph (%d transitions, %d paths) and of the "
                       "recompile graph (%d transitions, %d paths) and of the asset-cache graph (%d transitions, %d paths) + %d simulated histories of 10 operations over 3 model slots + "
                       "%d threaded compiles/recompiles against the serial cache-disabled image; after every operation the mj_saveModel "
                       "image of each model slot and the element-wise state are compared with obs; non-trivial = the history "
                       "compiles, copies or recompiles a model" % (ne1, n1, ne2, n2, ne3, n3, len(sims), reps + reps // 3))


def replay(ctx, rp):
    exe = build.build_harness("speclife_drv", [os.path.join(VERIF, "harness", "speclife_drv.cc")],
                              extra=tladump.harness_digest_flag())
    q = rp["replay"]
    ctx.case({"replay": rp["signature"]})
    ctx.case({"replay": rp["signature"], "x": 1})
    if q.get("repeat"):
        r = drv.run_script(exe, q["script"], timeout=1800)
        oi = out_index(q["script"])
        hs = [r.lines[oi[i]] for i, c in enumerate(q["script"]) if i in oi and c.startswith("sl_bytes") and oi[i] < len(r.lines)]
        print("images:", sorted(set(hs)))
        if len(set(hs)) != 1:
            ctx.violation(rp["signature"], rp["what"], q)
        return
    beh = q["behaviour"]
    for st in beh:                      # JSON turned tuples into lists and kept dicts: that is what the comparer reads
        st["obs"]["cls"] = list(st["obs"]["cls"])
        st["obs"]["how"] = [list(h) for h in st["obs"]["how"]]
    cmds, plan = script_for(beh, q["nm"])
    r = drv.run_script(exe, cmds, timeout=600)
    res = check_behaviour(ctx, beh, q["nm"], cmds, plan, r.lines, out_index(cmds), "replay")
    print("comparer:", res[:2] if res else None)
    if res is not None:
        ctx.violation(res[0], res[1], q)
