"""C31 - binary model files round-trip exactly; truncated / corrupted files are rejected (or yield a model whose
cross-references are in bounds) and loading never reads outside the buffer or the model.

MjbFile.tla models the loader as a phase machine over an abstract file described by a schema; it is model-checked
exhaustively on a miniature format, and evaluated by TLC on the real format of each pool model (MjbFileReal.tla:
schema + reference arrays + list of damaged files come from the harness).  TLC's verdict per damaged file
(null / ok admissible) is the oracle for mj_loadModelBuffer on the plain and the sanitizer build."""
import json
import os
import random
import re
import shutil
import struct
import tempfile

from vlib import build, drv, tlc
from vlib.check import Machinery, VERIF

TLA = os.path.join(VERIF, "tla")
HARNESS_SRC = os.path.join(VERIF, "harness", "mjb_drv.cc")

META = dict(
    engine="tlc-replay",
    technique="TLA+ spec MjbFile.tla (loader phase machine ReadHeader..Validate over a schema-described file; damage = "
              "truncation/extension x header word x size fields x reference entries x uninterpreted fields, optionally "
              "with derived fields and length made consistent) model-checked exhaustively on a miniature format; the "
              "same module instantiated by TLC with the real schema and reference arrays of each pool model decides "
              "every generated damaged file; verdicts replayed into mj_saveModel/mj_loadModelBuffer on plain and "
              "asan/ubsan builds; round trip compared over every size, struct and array",
    text="TLC decides for each damaged MJB image whether acceptance is admissible (sizes consistent with the buffer, "
         "file consumed exactly, interpretable cross-references in bounds) - rejection with a warning is always "
         "admissible, an error or crash never; every truncation length, extensions, each header word, each size field "
         "x value classes, each reference-array entry x {-1,<-1,n,>n,INT_MAX}, enum fields, and consistent multi-field "
         "damage are replayed; load(save(m)) == m bytewise, mj_sizeModel == bytes written, file round trip.",
    note="Trusted: TLC, harness mjb_drv.cc, the layout arithmetic that turns a field name into a byte offset, the "
         "table of reference arrays (which arrays are references, which accept -1). Accepted files whose arrays moved "
         "are not re-validated by the specification (either verdict admissible). Accepted -1 in a mandatory reference "
         "and accepted out-of-range values in arrays the validator does not cover are violations only if the model "
         "then trips the sanitizer build in mj_makeData/mj_forward/mj_step.",
    ref="DESIGN.md section 4 C31, section 7 items 7, 8")

MODELS = {
    "arm": """option timestep=0.25
size memory=262144
body name=b1 pos=0,0,1
joint body=b1 name=j1 type=3 axis=0,1,0
geom body=b1 name=g1 type=2 size=0.1,0,0
body name=b2 parent=b1 pos=0,0,0.5
joint body=b2 name=j2 type=2 axis=0,0,1
geom body=b2 name=g2 type=2 size=0.1,0,0
site body=b2 name=s1
actuator name=a1 trntype=0 target=j1 gainprm=1
sensor name=sen1 type=9 objtype=3 objname=j1
equality name=e1 type=1 objtype=1 name1=b1 name2=b2""",
    "rich": """option timestep=0.125
size nuserdata=2 nkey=1 nuser_body=1 nuser_geom=2 memory=262144
texture name=tx type=0 builtin=1 width=4 height=4 rgb1=1,0,0 rgb2=0,1,0
material name=mat rgba=1,1,1,1
mesh name=tet uservert=0,0,0,1,0,0,0,1,0,0,0,1 userface=0,2,1,0,1,3,0,3,2,1,2,3
geom name=floor type=0 size=5,5,0.1 material=mat
camera name=cam pos=0,-3,1
light name=lit pos=0,0,4
body name=mc pos=2,0,1 mocap=1
geom body=mc name=mcg type=6 size=0.1,0.1,0.1 contype=0 conaffinity=0
body name=f pos=0,0,1 userdata=7
joint body=f name=fj type=0
geom body=f name=fg type=7 meshname=tet contype=0 conaffinity=0 density=100
geom body=f name=fs type=2 size=0.2,0,0 userdata=1,2
site body=f name=fsite
body name=p pos=1,0,1
joint body=p name=pj type=3 axis=0,1,0 damping=0.5
geom body=p name=pg type=3 size=0.05,0.3,0
site body=p name=psite pos=0,0,0.3
body name=q parent=p pos=0,0,0.6
joint body=q name=qj type=1
geom body=q name=qg type=2 size=0.1,0,0
tendon name=t1
wrapsite tendon=t1 site=fsite
wrapsite tendon=t1 site=psite
tendon name=t2
wrapjoint tendon=t2 joint=pj coef=2
actuator name=am trntype=0 target=pj gainprm=2 dyntype=1 dynprm=1
actuator name=at trntype=3 target=t1 gainprm=1
sensor name=acc type=1 objtype=6 objname=fsite
sensor name=tp type=11 objtype=18 objname=t1
sensor name=fp type=26 objtype=1 objname=p reftype=1 refname=f
equality name=e1 type=0 objtype=1 name1=f name2=p data=0,0,0
equality name=e2 type=2 objtype=3 name1=pj
pair geomname1=fs geomname2=pg
exclude bodyname1=p bodyname2=q
numeric name=n1 size=3 data=1,2,3
text name=tx1 data=hello
hfield name=terrain nrow=3 ncol=4 size=1,1,0.5,0.1 userdata=0,0.1,0.2,0.3,0.4,0.5,0.6,0.7,0.8,0.9,1,0.5
geom name=ground type=1 hfieldname=terrain pos=-4,0,0
tuple name=tp1 objtype=1,1 objname=f,p objprm=0,1
skin name=sk body=p
key name=k0 qpos=0,0,1,1,0,0,0,0.1,1,0,0,0 mpos=2,0,1 mquat=1,0,0,0""",
    "tiny": """size memory=65536
body name=b pos=0,0,1
joint body=b name=j type=2 axis=0,0,1
geom body=b name=g type=6 size=0.1,0.1,0.1""",
}

# arrays the loader's validator is documented to cover: (array, target size, range-length array | None, -1 means "none")
REFS = [
    ("body_parentid", "nbody", None, False), ("body_rootid", "nbody", None, False), ("body_weldid", "nbody", None, False),
    ("body_mocapid", "nmocap", None, True), ("body_jntadr", "njnt", "body_jntnum", False),
    ("body_dofadr", "nv", "body_dofnum", False), ("body_geomadr", "ngeom", "body_geomnum", False),
    ("body_bvhadr", "nbvh", "body_bvhnum", False), ("body_plugin", "nplugin", None, True),
    ("jnt_qposadr", "nq", None, False), ("jnt_dofadr", "nv", None, False), ("jnt_bodyid", "nbody", None, False),
    ("dof_bodyid", "nbody", None, False), ("dof_jntid", "njnt", None, False), ("dof_parentid", "nv", None, True),
    ("dof_Madr", "nM", None, False), ("tree_bodyadr", "nbody", "tree_bodynum", False),
    ("tree_dofadr", "nv", "tree_dofnum", False), ("geom_bodyid", "nbody", None, False), ("geom_matid", "nmat", None, True),
    ("site_bodyid", "nbody", None, False), ("site_matid", "nmat", None, True), ("cam_bodyid", "nbody", None, False),
    ("cam_targetbodyid", "nbody", None, True), ("light_bodyid", "nbody", None, False),
    ("light_targetbodyid", "nbody", None, True), ("mesh_vertadr", "nmeshvert", "mesh_vertnum", False),
    ("mesh_normaladr", "nmeshnormal", "mesh_normalnum", False), ("mesh_texcoordadr", "nmeshtexcoord", "mesh_texcoordnum", False),
    ("mesh_faceadr", "nmeshface", "mesh_facenum", False), ("mesh_bvhadr", "nbvh", "mesh_bvhnum", False),
    ("mesh_graphadr", "nmeshgraph", None, True), ("mesh_polyadr", "nmeshpoly", "mesh_polynum", False),
    ("mesh_polyvertadr", "nmeshpolyvert", "mesh_polyvertnum", False), ("mesh_polymapadr", "nmeshpolymap", "mesh_polymapnum", False),
    ("pair_geom1", "ngeom", None, False), ("pair_geom2", "ngeom", None, False), ("actuator_plugin", "nplugin", None, True),
    ("actuator_actadr", "na", "actuator_actnum", False), ("actuator_ctrladr", "nu", "actuator_ctrlnum", False),
    ("actuator_outadr", "nout", "actuator_outnum", False), ("sensor_plugin", "nplugin", None, True),
    ("tendon_adr", "nwrap", "tendon_num", False), ("tendon_matid", "nmat", None, True), ("tendon_treeid", "ntree", None, True),
    ("numeric_adr", "nnumericdata", "numeric_size", False), ("text_adr", "ntextdata", "text_size", False),
    ("name_bodyadr", "nnames", None, False), ("name_jntadr", "nnames", None, False), ("name_geomadr", "nnames", None, False),
    ("name_siteadr", "nnames", None, False), ("name_camadr", "nnames", None, False), ("name_lightadr", "nnames", None, False),
    ("name_meshadr", "nnames", None, False), ("name_texadr", "nnames", None, False), ("name_matadr", "nnames", None, False),
    ("name_pairadr", "nnames", None, False), ("name_excludeadr", "nnames", None, False), ("name_eqadr", "nnames", None, False),
    ("name_tendonadr", "nnames", None, False), ("name_actuatoradr", "nnames", None, False),
    ("name_sensoradr", "nnames", None, False), ("name_numericadr", "nnames", None, False), ("name_textadr", "nnames", None, False),
    ("name_keyadr", "nnames", None, False), ("mesh_pathadr", "npaths", None, True), ("tex_pathadr", "npaths", None, True),
    ("tuple_adr", "ntupledata", "tuple_size", False), ("name_tupleadr", "nnames", None, False),
    ("name_hfieldadr", "nnames", None, False), ("hfield_pathadr", "npaths", None, True),
    ("skin_matid", "nmat", None, True), ("skin_vertadr", "nskinvert", "skin_vertnum", False),
    ("skin_texcoordadr", "nskintexvert", None, True), ("skin_faceadr", "nskinface", "skin_facenum", False),
    ("skin_boneadr", "nskinbone", "skin_bonenum", False), ("skin_bonevertadr", "nskinbonevert", "skin_bonevertnum", False),
    ("skin_bonebodyid", "nbody", None, False), ("skin_bonevertid", "nskinvert", None, False),
    ("name_skinadr", "nnames", None, False), ("skin_pathadr", "npaths", None, True),
]
# extents  adr + f1 * f2 * ... <= target size  checked by the validator: (start array, factor arrays, target size)
EXTENTS = [("hfield_adr", ("hfield_nrow", "hfield_ncol"), "nhfielddata"),
           ("tex_adr", ("tex_nchannel", "tex_height", "tex_width"), "ntexdata")]
# references the validator does not cover (documented ids): judged by the sanitizer run only
UNCHECKED_REFS = [("body_treeid", "ntree", None, True), ("dof_treeid", "ntree", None, False), ("mat_texid", "ntex", None, True)]
# enum / type fields (content the specification does not interpret): (array, some out-of-range values)
TYPE_FIELDS = [("jnt_type", ((4, "out-of-range"), (-1, "negative"))), ("geom_type", ((77, "out-of-range"), (9, "out-of-range"), (-1, "negative"))),
               ("eq_type", ((99, "out-of-range"), (7, "out-of-range"))),
               ("sensor_type", ((47, "PLUGIN"), (48, "USER"), (-1, "negative"), (999, "out-of-range"))),
               ("sensor_objtype", ((26, "out-of-range"), (99, "out-of-range"), (-1, "negative"))),
               ("sensor_datatype", ((9, "out-of-range"),)), ("sensor_needstage", ((9, "out-of-range"),)),
               ("wrap_type", ((9, "out-of-range"), (-1, "negative"))), ("actuator_trntype", ((7, "out-of-range"), (999, "out-of-range"))),
               ("actuator_dyntype", ((99, "out-of-range"),)), ("actuator_gaintype", ((99, "out-of-range"),)),
               ("actuator_biastype", ((99, "out-of-range"),)), ("geom_condim", ((7, "out-of-range"), (-1, "negative"))),
               ("eq_objtype", ((99, "out-of-range"),)), ("mesh_bvhnum", ((-1, "negative"),)),
               ("body_jntnum", ((-1, "negative"), (99, "out-of-range"))), ("tendon_num", ((-5, "negative"),))]
OBJ_SIZE = {1: "nbody", 2: "nbody", 3: "njnt", 4: "nv", 5: "ngeom", 6: "nsite", 7: "ncam", 8: "nlight", 9: "nflex", 10: "nmesh",
            11: "nskin", 12: "nhfield", 13: "ntex", 14: "nmat", 15: "npair", 16: "nexclude", 17: "neq", 18: "ntendon",
            19: "nactuator", 20: "nsensor", 21: "nnumeric", 22: "ntext", 23: "ntuple", 24: "nkey", 25: "nplugin"}
MAKE_ARGS_END = "nnames_map"          # size fields before this one are arguments of mj_makeModel
MAP_SRC = ["nbody", "njnt", "ngeom", "nsite", "ncam", "nlight", "nflex", "nmesh", "nskin", "nhfield", "ntex", "nmat", "npair",
           "nexclude", "neq", "ntendon", "nactuator", "nsensor", "nnumeric", "ntext", "ntuple", "nkey", "nplugin"]
INT_MAX = 2147483647


def _dbg(*a):
    if os.environ.get("VERIF_DEBUG"):
        import sys, time
        print("[c31 %s]" % time.strftime("%H:%M:%S"), *a, file=sys.stderr, flush=True)


def _exe(variant):
    return build.build_harness("mjb_drv", [HARNESS_SRC], variant=variant)


def _model_lines():
    lines, slots = [], {}
    for i, (name, desc) in enumerate(MODELS.items()):
        slots[name] = i
        lines += ["xmodel %d" % i] + desc.split("\n") + ["end"]
    return lines, slots


class Pool:
    """layout, image size and reference arrays of one pool model (read from the harness)"""

    def __init__(self, name, lay, total, arrays_vals):
        self.name = name
        self.sizes = [(n, v) for n, v in lay["sizes"]]
        self.sname = [n for n, _ in self.sizes]
        self.sidx = {n: i + 1 for i, n in enumerate(self.sname)}         # 1-based, as in the specification
        self.sval = dict(self.sizes)
        self.structs = lay["structs"]
        self.arrays = lay["arrays"]                                        # [name, el, nrname, cc, cvname, bytes]
        self.aidx = {a[0]: i + 1 for i, a in enumerate(self.arrays)}
        self.total = total
        self.vals = arrays_vals
        off = 20 + 8 * len(self.sizes) + self.structs
        self.aoff = {}
        for a in self.arrays:
            self.aoff[a[0]] = off
            off += a[5]
        if off != total:
            raise Machinery("layout of %s adds up to %d bytes, image has %d" % (name, off, total))

    def size_off(self, n):
        return 20 + 8 * (self.sidx[n] - 1)

    def entry_off(self, arr, k):
        a = self.arrays[self.aidx[arr] - 1]
        return self.aoff[arr] + a[1] * k

    def boundaries(self):
        b = {0, 20, 20 + 8 * len(self.sizes), 20 + 8 * len(self.sizes) + self.structs, self.total}
        for a in self.arrays:
            b.add(self.aoff[a[0]])
        return sorted(b)


def typed_refs(p):
    """references whose target depends on a type field of the same object (resolved on the pristine model)"""
    out = []
    v = p.vals
    for i, t in enumerate(v.get("eq_type", [])):
        ot = v["eq_objtype"][i]
        if t in (0, 1) and ot in (1, 6):
            tg = "nbody" if ot == 1 else "nsite"
            out += [("eq_obj1id", i, tg, False), ("eq_obj2id", i, tg, False)]
        elif t == 2:
            out += [("eq_obj1id", i, "njnt", False), ("eq_obj2id", i, "njnt", True)]
        elif t == 3:
            out += [("eq_obj1id", i, "ntendon", False), ("eq_obj2id", i, "ntendon", True)]
    for i, t in enumerate(v.get("actuator_trntype", [])):
        tg = {0: "njnt", 1: "njnt", 3: "ntendon", 4: "nsite", 5: "nbody"}.get(t)
        if tg:
            out.append(("actuator_trnid", 2 * i, tg, False))
    for i, t in enumerate(v.get("sensor_objtype", [])):
        if t in OBJ_SIZE:
            out.append(("sensor_objid", i, OBJ_SIZE[t], False))
        rt = v["sensor_reftype"][i]
        if rt in OBJ_SIZE:
            out.append(("sensor_refid", i, OBJ_SIZE[rt], True))
    for i, t in enumerate(v.get("wrap_type", [])):
        tg = {1: "njnt", 3: "nsite", 4: "ngeom", 5: "ngeom"}.get(t)
        if tg:
            out.append(("wrap_objid", i, tg, False))
    for i, t in enumerate(v.get("geom_type", [])):
        if t in (7, 8):
            out.append(("geom_dataid", i, "nmesh", False))
        elif t == 1:
            out.append(("geom_dataid", i, "nhfield", False))
    for i, t in enumerate(v.get("tuple_objtype", [])):
        if t in OBJ_SIZE:
            out.append(("tuple_objid", i, OBJ_SIZE[t], False))
    return out


def spec_exts(p):
    """extent records of the schema: (record for TLC, [(array, entry) of the start address, then of each factor | None])"""
    recs = []
    for adr, facs, tgt in EXTENTS:
        for i in range(len(p.vals.get(adr) or [])):
            recs.append(({"tgt": p.sidx[tgt], "adr": p.vals[adr][i], "f": [p.vals[f][i] for f in facs],
                          "label": adr + "+" + "*".join(facs)}, [(adr, i)] + [(f, i) for f in facs]))
    # sensor outputs: adr + dim <= nsensordata; the dimension is read off the (contiguous) pristine layout
    sa = p.vals.get("sensor_adr") or []
    for i in range(len(sa)):
        dim = (sa[i + 1] if i + 1 < len(sa) else p.sval["nsensordata"]) - sa[i]
        recs.append(({"tgt": p.sidx["nsensordata"], "adr": sa[i], "f": [dim], "label": "sensor_adr+dim"},
                     [("sensor_adr", i), None]))
    return recs


def spec_refs(p):
    """reference records of the schema: (record for TLC, array, first entry, checked)"""
    recs = []
    for tab, checked in ((REFS, True), (UNCHECKED_REFS, False)):
        for arr, tgt, num, opt in tab:
            vals = p.vals.get(arr)
            if not vals:
                continue
            nums = p.vals[num] if num else []
            per = len(vals) // len(nums) if nums else 1
            if nums and per != 1:
                raise Machinery("range array %s does not match %s" % (num, arr))
            recs.append(({"name": arr, "tgt": p.sidx[tgt], "opt": opt, "vals": vals, "nums": nums,
                          "group": "range-table" if checked else "unvalidated:" + arr}, arr, 0, checked))
    for arr, k, tgt, opt in typed_refs(p):
        recs.append(({"name": "%s[%d]" % (arr, k), "tgt": p.sidx[tgt], "opt": opt, "vals": [p.vals[arr][k]], "nums": [],
                      "group": "typed:" + arr}, arr, k, True))
    return recs


def enc(v):
    if v >= 2 ** 31:
        return {"k": "huge", "v": 0}
    if v < -2 ** 31:
        return {"k": "neg", "v": 0}
    return {"k": "val", "v": v}


def vclass(v, n, pristine=None):
    if v == -1:
        return "-1"
    if v < -1:
        return "<-1"
    if v == INT_MAX:
        return "INT_MAX"
    if n is not None and v == n:
        return "=n"
    if n is not None and v > n:
        return ">n"
    if pristine is not None and v == pristine - 1:
        return "v-1"
    if pristine is not None and v == pristine + 1:
        return "v+1"
    if v == 0:
        return "0"
    return "other"


NO = dict(trunc=-1, ext=0, hdr=0, sz=[], rf=[], nf=[], xf=[], ty=False, fit=False, exact=False)


def wrap32(v):
    """v as the signed 32-bit word a file field holds"""
    v &= 0xFFFFFFFF
    return v - 2 ** 32 if v >= 2 ** 31 else v


def wrap_values(v, partners=()):
    """high-order corruptions of a count-like 32-bit field: values whose 32-bit products / sums with the neighbouring
    fields wrap around (0x40000000 + v, INT_MAX, 0x80000000 + v) and, for each factor p it is multiplied with, the
    smallest value whose product with p passes 2^32 (it wraps to less than p)"""
    out = [(0x40000000 + max(v, 0), "0x40000000+v"), (INT_MAX, "INT_MAX"), (wrap32(0x80000000 + max(v, 0)), "0x80000000+v")]
    for q in partners:
        if q >= 3:
            out.append((-(-2 ** 32 // q), "wraps-with-partner"))
    return out


def gen_cases(p, refs, quick, rng, exts=()):
    """damaged files: list of (spec case dict, implementation patch description, kind, field, value class)"""
    cs = []

    def add(kind, field, vc, patches=(), group=None, **kw):
        c = dict(NO)
        c.update(kw)
        cs.append({"spec": c, "patches": list(patches), "kind": kind, "field": field, "vc": vc, "group": group})

    add("pristine", "-", "-")
    # truncation at every prefix length (quick: around every section / array boundary and a coarse grid)
    if quick:
        cuts = set(range(0, p.total, 509))
        for b in p.boundaries():
            for d in (-1, 0, 1):
                if 0 <= b + d < p.total:
                    cuts.add(b + d)
    else:
        cuts = set(range(0, p.total)) if p.total < 9000 else set(range(0, p.total, 3)) | {
            b + d for b in p.boundaries() for d in range(-9, 9) if 0 <= b + d < p.total}
    for t in sorted(cuts):
        add("trunc", "-", "-", trunc=t)
    for e in (1, 4, 8, 64, 4096):
        add("ext", "-", "+%d" % e, ext=e)
    for h in range(1, 6):
        for delta in (1, -1):
            add("hdr", "word%d" % h, "%+d" % delta, patches=[("hdr", h - 1, delta)], hdr=h)
    # size fields
    args = p.sname[:p.sname.index(MAKE_ARGS_END)]
    for n, v in p.sizes:
        cand = [-1, v + 1, 2 ** 31, 2 ** 62] if quick else [-1, 0, v - 1, v + 1, v + 2, 2 * v + 3, 2 ** 31, 2 ** 62, -2 ** 62]
        if n not in args:
            cand += [INT_MAX] if quick else [INT_MAX, 10 ** 6 + 7]
        if n in ("ntexdata", "ntextdata"):                                   # byte arrays: no INT_MAX cap in the loader
            cand = [-1, v + 1, 2 ** 62] if quick else [-1, 0, v - 1, v + 1, v + 2, 2 ** 62, -2 ** 62]
        seen = set()
        for x in cand:
            if x == v or x in seen:
                continue
            if n in args and 10 ** 4 < x < 2 ** 31:
                continue                                                     # would really allocate gigabytes
            seen.add(x)
            e = enc(x)
            e["i"] = p.sidx[n]
            vc = vclass(x, None, v) if abs(x) < 2 ** 31 else ("huge" if x > 0 else "neghuge")
            if n == "nnames_map":
                vc = "negative" if x < 0 else "larger" if x > v else "smaller"
            add("size", n, vc, patches=[("size", n, x)], sz=[e])
    # derived field larger than computed + file extended: the array sized by it would not fit the model buffer
    nm = p.sval["nnames_map"]
    for d in (1, 16, 1000):
        e = enc(nm + d)
        e["i"] = p.sidx["nnames_map"]
        add("size+ext", "nnames_map", "larger", patches=[("size", "nnames_map", nm + d)], sz=[e], ext=4 * d)
    # argument sizes changed by one with derived fields and length made consistent (arrays move)
    for n in args:
        v = p.sval[n]
        if quick and v == 0 and rng.random() < 0.7:
            continue
        for x in ([v + 1] if quick else [v + 1, v + 2]) + ([v - 1] if v > 0 else []):
            if n == "nbody" and x == 0:
                continue
            e = enc(x)
            e["i"] = p.sidx[n]
            for fit, exact in ((True, True), (True, False), (False, True)):
                if quick and not (fit and exact):
                    continue
                add("size+fit", n, vclass(x, None, v) + (",fit" if fit else "") + (",exact" if exact else ""),
                    patches=[("size", n, x)], sz=[e], fit=fit, exact=exact)
    # reference entries
    for ri, (rec, arr, k0, checked) in enumerate(refs):
        n = p.sval[p.sname[rec["tgt"] - 1]]
        ents = list(range(len(rec["vals"])))
        if len(ents) > 2:
            ents = [ents[0], ents[-1]] if quick else ents[:3] + ents[-3:]
        for k in sorted(set(ents)):
            for x in ((-1, -2, n, INT_MAX) if k == ents[0] or not quick else (-1, n)) + (() if quick else (n + 1, -2 ** 31 + 1, n - 1, 0)):
                if x == rec["vals"][k]:
                    continue
                add("ref" if checked else "ref-unchecked", rec["name"], vclass(x, n), group=rec["group"],
                    patches=[("entry", arr, k0 + k, x)], rf=[{"r": ri + 1, "k": k + 1, "v": x}])
    # lengths of ranges (the *_num / *_size partner of an *_adr array): values whose sum with the address wraps
    for ri, (rec, arr, k0, checked) in enumerate(refs):
        if not rec["nums"] or not checked:
            continue
        numarr = [nm for a, _t, nm, _o in REFS if a == arr][0]
        have = [k for k in range(len(rec["nums"])) if rec["vals"][k] >= 0]
        ks = sorted({have[0], have[-1]}) if have and not quick else have[-1:]
        for k in ks:
            v = rec["nums"][k]
            if rec["vals"][k] < 0:
                continue                      # no range here (address -1): nothing whose length could be damaged
            for x, label in wrap_values(v) + [(-1, "-1"), (v + 1, "v+1")]:
                add("num", numarr, label, group="range-table", patches=[("entry", numarr, k, x)],
                    nf=[{"r": ri + 1, "k": k + 1, "v": x}])
    # extents: start address and every factor, with values whose 32-bit product / sum wraps
    for xi, (rec, locs) in enumerate(exts):
        tgt = p.sval[p.sname[rec["tgt"] - 1]]
        for j, loc in enumerate(locs):
            if loc is None:
                continue
            v = rec["adr"] if j == 0 else rec["f"][j - 1]
            others = [f for q, f in enumerate(rec["f"], 1) if q != j]
            vals = wrap_values(v, others if j else ()) + [(-1, "-1"), (v + 1, "v+1")]
            if j == 0:
                vals += [(tgt, "=n"), (tgt + 1, ">n")]
            if not quick:
                vals += [(0x20000000 + max(v, 0), "0x20000000+v"), (0, "0"), (2 * v + 1, "2v+1")]
            for x, label in vals:
                if x == v:
                    continue
                add("extent", loc[0], label, group=rec["label"], patches=[("entry", loc[0], loc[1], x)],
                    xf=[{"x": xi + 1, "j": j, "v": x}])
    # enum / type fields and raw content the specification does not interpret
    for arr, values in TYPE_FIELDS:
        if not p.vals.get(arr):
            continue
        for k in sorted({0, len(p.vals[arr]) - 1}):
            for x, label in values:
                add("type", arr, label, patches=[("entry", arr, k, x)], ty=True)
    st0 = 20 + 8 * len(p.sizes)
    for _ in range(6 if quick else 60):
        o = st0 + rng.randrange(p.structs)
        add("type", "structs", "byte", patches=[("raw", o, bytes([rng.randrange(256)]))], ty=True)
    return cs


def world_json(p, refs, cases, exts=()):
    args = p.sname[:p.sname.index(MAKE_ARGS_END)]

    def cls(n):
        return "nbuf" if n == "nbuffer" else "map" if n == "nnames_map" else "arg" if n in args else "dat"
    return {
        "hdr": 20, "structs": p.structs, "mapmul": 2, "mapsrc": [p.sidx[n] for n in MAP_SRC],
        "imap": p.sidx["nnames_map"], "inbuf": p.sidx["nbuffer"], "inbody": p.sidx["nbody"],
        "sizes": [{"name": n, "val": v, "cls": cls(n)} for n, v in p.sizes], "pvals": [v for _n, v in p.sizes],
        "arrays": [{"el": a[1], "rows": p.sidx[a[2]], "cc": a[3], "cv": p.sidx[a[4]] if a[4] else 0} for a in p.arrays],
        "refs": [{"tgt": r[0]["tgt"], "opt": r[0]["opt"], "vals": r[0]["vals"], "nums": r[0]["nums"]} for r in refs],
        "exts": [{"tgt": e[0]["tgt"], "adr": e[0]["adr"], "f": e[0]["f"]} for e in exts],
        "cases": [c["spec"] for c in cases],
    }


def tlc_real(ctx, p, refs, cases, tmp, exts=()):
    wf = os.path.join(tmp, "world_%s.json" % p.name)
    with open(wf, "w") as f:
        json.dump(world_json(p, refs, cases, exts), f)
    res = tlc.run(os.path.join(TLA, "MjbFileReal.tla"), os.path.join(TLA, "MjbFileReal.cfg"), env={"MJB_WORLD": wf},
                  timeout=2400, workers=8)
    ctx.tlc_ok(res, "MjbFileReal(%s)" % p.name)
    outs = {}
    for m in re.finditer(r'<<"OUT", (\d+), "(\w*)", "([\w-]*)", (-?\d+), (-?\d+), (-?\d+), (-?\d+)>>', res.out):
        c = int(m.group(1))
        o = outs.setdefault(c, {"res": set(), "why": set()})
        o["res"].add(m.group(2))
        o["why"].add(m.group(3))
        o["len"], o["map"], o["nbuf"] = int(m.group(5)), int(m.group(6)), int(m.group(7))
    if len(outs) != len(cases):
        raise Machinery("TLC decided %d of %d cases for model %s\n%s" % (len(outs), len(cases), p.name, res.out[-1500:]))
    return outs


def impl_cmd(p, slot, case, out, exercise):
    """mjbload command for a case (byte offsets from the layout; fitted fields / exact length from TLC's output)"""
    pat = []
    for q in case["patches"]:
        if q[0] == "hdr":
            pat.append((4 * q[1], None, q[2]))
        elif q[0] == "size":
            pat.append((p.size_off(q[1]), struct.pack("<q", q[2]), 0))
        elif q[0] == "entry":
            a = p.arrays[p.aidx[q[1]] - 1]
            pat.append((p.entry_off(q[1], q[2]), struct.pack("<i", q[3]) if a[1] == 4 else
                        struct.pack("<b", max(-128, min(127, q[3]))) if a[1] == 1 else struct.pack("<q", q[3]), 0))
        elif q[0] == "raw":
            pat.append((q[1], q[2], 0))
    sp = case["spec"]
    if sp["fit"]:
        pat.append((p.size_off("nnames_map"), struct.pack("<q", out["map"]), 0))
        pat.append((p.size_off("nbuffer"), struct.pack("<q", out["nbuf"]), 0))
    ln = out["len"]
    toks = []
    for off, by, delta in pat:
        if by is None:                      # header word: relative change of the int in the image
            toks.append("h%d:%d" % (off, delta))
        else:
            toks.append("%d:%s" % (off, by.hex()))
    return "mjbload %d %d %s%s" % (slot, ln, ",".join(toks) if toks else "-", " x" if exercise else "")


def run_impl(exe, cmds, cwd, nmodel_cmds_prefix, symbolize=False):
    """run the load commands as one mjbbatch (a forked worker; a command it dies at costs one 'crash ...' line)"""
    r = drv.run_script(exe, nmodel_cmds_prefix + ["mjbbatch %d" % len(cmds)] + cmds, cwd=cwd, timeout=3000,
                       env={"ASAN_OPTIONS": "detect_leaks=0:abort_on_error=0:exitcode=77:allocator_may_return_null=1:symbolize=%d"
                                            % (1 if symbolize else 0),
                            "UBSAN_OPTIONS": "halt_on_error=1:exitcode=78:print_stacktrace=0"})
    lines = r.lines[_nprefix(nmodel_cmds_prefix):]
    if r.crashed or len(lines) != len(cmds):
        raise Machinery("harness died outside a load (%s): %d answers for %d commands" % (r.crash_text()[:200], len(lines), len(cmds)))
    out = []
    for ln in lines:
        if ln.startswith("crash "):
            out.append(("crash", re.sub(r"\s*\(/[^)]*\)(\s*\(BuildId:[^)]*\)?)?", "", ln[6:])[:300]))
        elif ln.startswith(("null ", "ok ", "error ")):
            out.append(ln)
        else:
            raise Machinery("unexpected harness answer %r" % ln[:200])
    return out


def _nprefix(prefix):
    # the prefix prints one line per model ("ok") and one per mjbsave
    return sum(1 for x in prefix if x.startswith(("xmodel ", "mjbsave ")))


def run(ctx):
    ctx.assume("pool models are built through the mjSpec API (no XML parser offline); no flex / plugin-sensor models",
               "argument sizes between 10^4 and 2^31 are not tried (they would really allocate gigabytes)",
               "when damaged sizes move the arrays the specification admits both verdicts (it does not re-interpret content)",
               "a rejection with at least one warning is admissible for every damaged file",
               "mj_loadModel (src/xml) is not built offline: the file round trip uses mj_saveModel(filename) and the same "
               "mju_openResource + mj_loadModelBuffer sequence")
    spec = os.path.join(TLA, "MjbFile.tla")
    res = tlc.run(spec, os.path.join(TLA, "MjbFile_MC.cfg"), coverage=True, timeout=900)
    ctx.tlc_ok(res, "MjbFile_MC", need_actions=["Pick", "Prepare", "ReadHeader", "ReadSizes", "Make", "CheckNbuffer", "SetSizes",
                                                "ReadStructs", "ReadArrays", "CheckEnd", "Validate"])
    mc_finished = bool(res.finished)
    # the loader as written (nnames_map taken from the file after the buffer was sized): TLC must find the overflow
    res = tlc.run(spec, os.path.join(TLA, "MjbFile_AsIs.cfg"), timeout=900)
    ctx.tlc_ok(res, "MjbFile_AsIs(expected violation)", allow_violation=True)
    ctx.control("TLC finds the out-of-bounds array read of the as-written loader (WriteInBounds violated)",
                bool(res.violation) and "WriteInBounds" in res.violation)

    tmp = tempfile.mkdtemp(prefix="c31", dir=os.path.join(VERIF, ".cache"))
    try:
        rng = random.Random(ctx.seed)
        _dbg("building harnesses")
        exes = {"plain": _exe("plain"), "asan": _exe("asan")}
        _dbg("built")
        mlines, slots = _model_lines()
        # ---- layout, round trip, reference arrays
        need = sorted({a for a, _t, _n, _o in REFS + UNCHECKED_REFS} | {n for _a, _t, n, _o in REFS if n} |
                      {a for a, _ in TYPE_FIELDS} |
                      {"eq_type", "eq_objtype", "eq_obj1id", "eq_obj2id", "actuator_trntype", "actuator_trnid",
                       "sensor_objtype", "sensor_objid", "sensor_reftype", "sensor_refid", "wrap_type", "wrap_objid",
                       "geom_type", "geom_dataid", "tuple_objtype", "tuple_objid", "sensor_adr"} |
                      {a for adr, facs, _t in EXTENTS for a in (adr,) + facs})
        cmds = list(mlines)
        for name, s in slots.items():
            cmds += ["mjbsave %d" % s, "mjblayout %d" % s, "mjbroundtrip %d" % s,
                     "mjbfile %d %s" % (s, drv.hx(os.path.join(tmp, "rt_%s.mjb" % name)))]
            cmds += ["mget %d %s" % (s, a) for a in need]
        pools = {}
        for variant in ("plain", "asan"):
            r = drv.run_script(exes[variant], cmds, cwd=tmp, timeout=600)
            if r.crashed:
                ctx.violation("crash:round-trip:" + variant, "harness died during save/load round trip: " + r.crash_text()[:300],
                              {"what": "roundtrip", "variant": variant})
                continue
            li = len(MODELS)
            for name, s in slots.items():
                if not r.lines[s].startswith("ok"):
                    raise Machinery("pool model %s does not compile: %s" % (name, r.lines[s]))
                written, sz = [int(x) for x in r.lines[li].split()]
                lay = json.loads(r.lines[li + 1])
                rt, ft = r.lines[li + 2], r.lines[li + 3]
                vals = {}
                for j, a in enumerate(need):
                    t = r.lines[li + 4 + j].split()
                    vals[a] = [int(float(x)) for x in t[1:]]
                li += 4 + len(need)
                ctx.case({"roundtrip": name, "variant": variant}, sample={"model": name, "bytes": sz, "roundtrip": rt})
                if written != sz:
                    ctx.violation("sizeModel-differs-from-bytes-written", "model %s: mj_saveModel wrote %d bytes, mj_sizeModel = %d"
                                  % (name, written, sz), {"what": "roundtrip", "model": name, "variant": variant})
                if rt != "eq":
                    ctx.violation("round-trip-differs:" + rt.split()[-1], "model %s (%s): load(save(m)) differs from m: %s"
                                  % (name, variant, rt), {"what": "roundtrip", "model": name, "variant": variant})
                if not ft.startswith("eq"):
                    ctx.violation("file-round-trip-differs:" + ft.split()[-1], "model %s (%s): file round trip: %s"
                                  % (name, variant, ft), {"what": "roundtrip", "model": name, "variant": variant})
                if variant == "plain":
                    pools[name] = Pool(name, lay, sz, vals)
        if len(pools) != len(MODELS):
            raise Machinery("no layouts")
        # ---- cases, TLC's verdicts, implementation
        total_cases = 0
        acc_info = {"accepted_minus_one_survives": 0, "accepted_unchecked_survives": 0, "exercise_failures_uninterpreted": 0}
        for name, p in pools.items():
            if ctx.quick and name != "rich":
                continue                      # quick tier: damaged images of the richest model only (round trips: all)
            refs = spec_refs(p)
            exts = spec_exts(p)
            cases = gen_cases(p, refs, ctx.quick, rng, exts)
            _dbg(name, len(cases), "cases; TLC ...")
            outs = tlc_real(ctx, p, refs, cases, tmp, exts)
            _dbg(name, "TLC done")
            if outs[1]["res"] != {"ok"} or outs[1]["len"] != p.total:
                raise Machinery("specification does not accept the pristine image of %s: %r (image %d bytes)"
                                % (name, outs[1], p.total))
            total_cases += len(cases)
            slot = slots[name]
            prefix = mlines + ["mjbsave %d" % s for s in slots.values()]
            got = {}
            for variant in ("plain", "asan"):
                cm = [impl_cmd(p, slot, c, outs[i + 1], variant == "asan" and c["kind"] in ("ref", "ref-unchecked", "pristine", "extent", "num"))
                      for i, c in enumerate(cases)]
                got[variant] = run_impl(exes[variant], cm, tmp, prefix)
                _dbg(name, variant, "implementation done:", sum(1 for g in got[variant] if isinstance(g, tuple)), "dead children")
            judge(ctx, p, cases, outs, got, acc_info, slot)
        # negative control of the comparer: an expectation flipped to "rejection only" must flag the pristine file
        fake = Ctl()
        p0 = pools["tiny"]
        ctx.cov["info_fields_minus_one"] = sorted(MINUS_ONE_FIELDS)
        c0 = {"spec": dict(NO), "patches": [], "kind": "trunc", "field": "-", "vc": "-"}
        judge(fake, p0, [c0], {1: {"res": {"null"}, "why": {"x"}, "len": p0.total, "map": 0, "nbuf": 0}},
              {"plain": ["ok w=0 refs=ok"], "asan": ["ok w=0 refs=ok ex=ok"]}, dict(acc_info), 0)
        ctx.control("an accepted file that the specification rejects is flagged by the comparer", len(fake.violations) > 0)
        ctx.cov["exhaustive"] = mc_finished
        ctx.cov["info"] = acc_info
        ctx.cov["rule"] = ("one case = one damaged MJB image of a pool model (%d models, %d cases) loaded on the plain and "
                           "sanitizer builds: every truncation length%s, extensions, header words, every size field x value "
                           "classes, reference entries x {-1,<-1,n,>n,INT_MAX}, enum fields, raw struct bytes, sizes with "
                           "derived fields / length made consistent; expected verdicts are TLC's output for MjbFileReal on "
                           "the model's real schema; non-trivial = a damaged image; plus save/load round trips"
                           % (len(pools), total_cases, " (quick: around every boundary + grid)" if ctx.quick else ""))
    finally:
        shutil.rmtree(tmp, ignore_errors=True)


MINUS_ONE_FIELDS = set()


class Ctl:
    """collects violations of a control run of the comparer"""

    def __init__(self):
        self.violations = []

    def violation(self, sig, what, rp=None):
        self.violations.append(sig)

    def case(self, *a, **k):
        pass

    def trace_ok(self, n=1):
        pass


def wrap_class(vc):
    """value classes of count-like fields, coarse enough that one arithmetic slip is one signature"""
    if vc in ("0x40000000+v", "0x20000000+v", "INT_MAX", "wraps-with-partner"):
        return "wraps-32-bit"
    if vc in ("0x80000000+v", "-1"):
        return "negative"
    return "too-large"


def sig_tag(c, o):
    """input class of a case for signatures: references by validator group and value class, enum fields by field,
    damaged size fields by the reason the specification gives for rejecting them (one root cause = one class;
    the field is kept where the reason is about that field alone)"""
    kind, field, vc = c["kind"], c["field"], c["vc"]
    why = "|".join(sorted(o["why"] - {"accepted"})) or "accepted"
    if kind in ("ref", "ref-unchecked"):
        if vc == "-1":          # the validator itself tripping over an admitted -1: one array, one signature
            return "ref:%s:%s:-1" % (c["group"], field)
        return "ref:%s:%s" % (c["group"], vc)
    if kind == "type":
        return "type:%s:%s" % (field, vc)
    if kind in ("extent", "num"):
        return "%s:%s:%s" % (kind, c["group"] if kind == "extent" else field, wrap_class(vc))
    if kind.startswith("size"):
        if why in ("derived-size-wrong", "validation"):
            return "size-fields:" + why
        return "size-fields:%s:%s:%s" % (why, field, vc)
    return "%s:%s" % (kind, why)


def judge(ctx, p, cases, outs, got, info, slot):
    for i, c in enumerate(cases):
        o = outs[i + 1]
        kind, field, vc = c["kind"], c["field"], c["vc"]
        rp = {"model": p.name, "case": c["spec"], "patches": [list(map(_js, q)) for q in c["patches"]], "kind": kind,
              "field": field, "vc": vc, "len": o["len"], "map": o["map"], "nbuf": o["nbuf"]}
        ctx.case({"model": p.name, "case": c["spec"], "patches": rp["patches"]}, nontrivial=kind != "pristine",
                 sample={"model": p.name, "kind": kind, "field": field, "value": vc, "tlc": sorted(o["res"])})
        okall = True
        for variant in ("plain", "asan"):
            g = got[variant][i]
            tag = sig_tag(c, o)
            rpv = dict(rp, variant=variant)
            if isinstance(g, tuple) and g[1].startswith("exercise"):
                g = "ok w=0 refs=ok ex=crash:" + g[1][9:].replace(" ", "_")       # the loader had accepted the image
            if isinstance(g, tuple):
                ctx.violation("loader-crash:" + tag, "model %s (%s build): loading the image damaged by %s:%s:%s dies: %s"
                              % (p.name, variant, kind, field, vc, g[1]), rpv)
                okall = False
                continue
            if g.startswith("error"):
                ctx.violation("loader-error:" + tag, "model %s (%s build): mj_loadModelBuffer raises mju_error instead of "
                              "warning + NULL for %s:%s:%s: %s" % (p.name, variant, kind, field, vc, g[:200]), rpv)
                okall = False
                continue
            if g.startswith("null"):
                w = int(g.split()[1][2:])
                if kind == "pristine":
                    ctx.violation("pristine-image-rejected", "model %s (%s): the undamaged image is rejected: %s"
                                  % (p.name, variant, bytes.fromhex(g.split()[2]).decode(errors="replace") if len(g.split()) > 2 and g.split()[2] != "-" else ""), rpv)
                    okall = False
                elif w == 0:
                    ctx.violation("rejected-without-warning:" + tag, "model %s (%s): NULL without a warning for %s"
                                  % (p.name, variant, tag), rpv)
                    okall = False
                continue
            # accepted
            ex = re.search(r'ex=(\S+)', g)
            ex = ex.group(1) if ex else None
            if "ok" in o["res"]:
                if ex and ex not in ("ok", "nodata"):
                    if kind == "pristine":
                        ctx.violation("pristine-model-misbehaves", "model %s (%s): the reloaded undamaged model fails in "
                                      "mj_makeData/forward/step: %s" % (p.name, variant, short(ex)), rpv)
                        okall = False
                    else:       # in-bounds but inconsistent content: outside the property
                        info["exercise_failures_admissible_images"] = info.get("exercise_failures_admissible_images", 0) + 1
                continue
            # the specification admits only a rejection
            if kind == "ref" and vc in ("<-1", "=n", ">n", "INT_MAX", "other"):
                ctx.violation("accepted-out-of-bounds-reference:%s:%s" % (c["group"], vc),
                              "model %s (%s): %s = %s is accepted by mj_loadModelBuffer (specification: %s)"
                              % (p.name, variant, field, vc, sorted(o["why"])), rpv)
                okall = False
            elif kind == "num" or (kind == "extent" and vc not in ("-1", "0x80000000+v")):
                ctx.violation("accepted-out-of-bounds-%s:%s:%s" % ("range-length" if kind == "num" else "extent",
                                                                  field if kind == "num" else c["group"], wrap_class(vc)),
                              "model %s (%s): %s = %s (0x%08x) is accepted by mj_loadModelBuffer although the %s it "
                              "describes does not fit its target array (specification: %s)"
                              % (p.name, variant, field, vc, c["patches"][0][3] & 0xFFFFFFFF,
                                 "range" if kind == "num" else "extent adr + product", sorted(o["why"])), rpv)
                okall = False
            elif kind == "extent":
                # negative extents: sanitizer oracle, as for -1 references
                if variant == "asan" and ex not in (None, "ok", "nodata"):
                    ctx.violation("accepted-negative-extent-misbehaves:%s" % c["group"],
                                  "model %s: %s = %s is accepted and mj_makeData/forward/step then fails: %s"
                                  % (p.name, field, vc, short(ex)), rpv)
                    okall = False
                else:
                    info["accepted_negative_extent_survives"] = info.get("accepted_negative_extent_survives", 0) + 1
            elif kind in ("ref", "ref-unchecked"):
                # -1 in a mandatory reference / arrays outside the validator's table: sanitizer oracle
                if variant == "asan" and ex not in (None, "ok", "nodata"):
                    if vc == "-1":
                        MINUS_ONE_FIELDS.add(field)
                    ctx.violation("accepted-minus-one-in-mandatory-reference" if vc == "-1" else
                                  "accepted-reference-misbehaves:%s" % (c["group"] + ":" + vc if kind == "ref" else c["group"]),
                                  "model %s: %s = %s is accepted and mj_makeData/forward/step then fails: %s"
                                  % (p.name, field, vc, short(ex)), rpv)
                    okall = False
                else:
                    info["accepted_minus_one_survives" if kind == "ref" else "accepted_unchecked_survives"] += 1
            else:
                ctx.violation("accepted-damaged-image:" + tag, "model %s (%s): image damaged by %s:%s:%s is accepted, the "
                              "specification admits only a rejection (%s)" % (p.name, variant, kind, field, vc, sorted(o["why"])), rpv)
                okall = False
        if okall:
            ctx.trace_ok()


def short(ex):
    """stable short form of an exercise failure (no paths / build ids)"""
    ex = ex or ""
    m = re.search(r'(AddressSanitizer|UndefinedBehaviorSanitizer):_?([\w-]+)', ex)
    if m:
        return "sanitizer report: " + m.group(2).strip("_")
    if ex.startswith("error:"):
        try:
            return "mju_error: " + bytes.fromhex(ex[6:]).decode(errors="replace")[:120]
        except ValueError:
            pass
    return ex.replace("_", " ")[:120]


def _js(x):
    return x.hex() if isinstance(x, (bytes, bytearray)) else x


def replay(ctx, rp):
    c = rp["replay"]
    tmp = tempfile.mkdtemp(prefix="c31r", dir=os.path.join(VERIF, ".cache"))
    try:
        variant = c.get("variant", "plain")
        exe = _exe(variant)
        mlines, slots = _model_lines()
        ctx.case({"replay": rp["signature"]})
        ctx.case({"replay": rp["signature"], "x": 1})
        if c.get("what") == "roundtrip":
            r = drv.run_script(exe, mlines + ["mjbsave %d" % slots[c["model"]], "mjbroundtrip %d" % slots[c["model"]]], cwd=tmp)
            print(r.lines[-2:], r.rc)
            if r.crashed or r.lines[-1] != "eq":
                ctx.violation(rp["signature"], rp["what"], c)
            return
        name = c["model"]
        slot = slots[name]
        r = drv.run_script(exe, mlines + ["mjbsave %d" % slot, "mjblayout %d" % slot], cwd=tmp)
        total = int(r.lines[len(MODELS)].split()[1])
        p = Pool(name, json.loads(r.lines[len(MODELS) + 1]), total, {})
        patches = []
        for q in c["patches"]:
            q = list(q)
            if q[0] == "raw":
                q[2] = bytes.fromhex(q[2])
            patches.append(tuple(q))
        case = {"spec": c["case"], "patches": patches, "kind": c["kind"]}
        cmd = impl_cmd(p, slot, case, {"len": c["len"], "map": c["map"], "nbuf": c["nbuf"]}, variant == "asan")
        r = drv.run_script(exe, mlines + ["mjbsave %d" % slot, cmd], cwd=tmp)
        last = r.lines[-1] if r.lines else ""
        print("%s -> rc=%d %s" % (cmd[:120], r.rc, last[:200]))
        bad = r.crashed or last.startswith("error") or (last.startswith("ok") and c["kind"] != "pristine") or \
            (last.startswith("null") and c["kind"] == "pristine")
        if bad:
            ctx.violation(rp["signature"], rp["what"], c)
        else:
            ctx.trace_ok()
    finally:
        shutil.rmtree(tmp, ignore_errors=True)
