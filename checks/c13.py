"""C13 - contacts report true geometry: ContactLattice.tla decided by TLC, its placements replayed into mj_forward and
mj_geomDistance on two-geom models; distance, normal, frame, position and both argument orders are compared."""
import concurrent.futures as cf
import os
import time

from vlib import build, tlc, drv
from vlib.check import Machinery, VERIF
from checks import tladump

TLA = os.path.join(VERIF, "tla")
SPEC = os.path.join(TLA, "ContactLattice.tla")
DRV = os.path.join(VERIF, "harness", "collision_drv.cc")

META = dict(
    engine="tlc-replay",
    technique="TLA+ spec ContactLattice.tla (planes, spheres, axis-parallel capsules and axis-aligned boxes as rounded "
              "boxes, axis-parallel cylinders and axis-aligned ellipsoids where their extent is reached on a centre line, with lengths in quarter units: signed distance, normal axis and sign, facing surfaces and the "
              "region of the nearest points are integers; placements of the moving geom, mj_forward and mj_geomDistance "
              "in both orders as actions) model-checked by TLC; every placement of the exhaustive state space and "
              "of simulated sequences of placements is replayed on a compiled model",
    text="TLC decides on ContactLattice.tla that the distance is symmetric and the normal antisymmetric in the two geoms, "
         "that a contact is reported exactly below the margin, that the distance equals the separation of the facing "
         "surfaces along the normal, and that mj_geomDistance returns the same value in both orders. Each placement is "
         "executed: contact present iff specified; every contact has the specified geom order, an orthonormal "
         "right-handed frame and dist <= margin; the nearest contact has the specified distance and normal and lies in "
         "the specified region between the surfaces; mj_geomDistance(g1,g2) and (g2,g1) return the specified distance.",
    note="Trusted: TLC, harness collision_drv.cc (frame orthonormality test at 1e-12), rendering of shapes as geoms "
         "(checks/c13.py: model_lines). Comparison tolerance 1e-9 (capsule colliders divide; capsule orientation comes "
         "from a fromto); for pairs whose mj_geomDistance goes through the convex (GJK) path the tolerance is the "
         "model's ccd_tolerance. Cylinders: sphere : cylinder with the sphere centre inside (nearest of cap and side), facing the cap, facing the "
         "side; plane : cylinder upright and lying; capsule / cylinder / box : cylinder only with centres displaced along "
         "the normal axis (convex collider: contact distance compared at 1e-5, normal at 2e-3, mj_geomDistance at "
         "ccd_tolerance). Ellipsoids only against planes and spheres. Oblique poses, edge/corner configurations with "
         "irrational distance, ellipsoid against other smooth or flat bodies, meshes are not decided; additional contacts of a multi-contact pair are only checked for the "
         "generic clauses.",
    ref="DESIGN.md section 4 C13")

Q = 4.0                     # quarter units
TOL = 1e-9
CCD_TOL = 1e-6              # mjOption.ccd_tolerance default, written into the models explicitly
CCD_DIST_TOL = 1e-5         # contacts of the convex collider: iteration-capped GJK on margin-smoothed shapes
CCD_NORMAL_TOL = 2e-3       # ... and its multi-contact search tilts the normal by 1e-3 rad


def num(x):
    return "%.10g" % (x / Q)


def geom_line(name, body, s, margin):
    k, h, r = s["kind"], s["h"], s["r"]
    if k == "plane":
        g = "type=0 size=0,0,1"
    elif k == "sphere":
        g = "type=2 size=%s" % num(r)
    elif k == "capsule":
        a = max(range(3), key=lambda i: h[i])
        p = [0, 0, 0]
        p[a] = h[a]
        g = "type=3 size=%s fromto=%s,%s,%s,%s,%s,%s" % ((num(r),) + tuple(num(-x) for x in p) + tuple(num(x) for x in p))
    elif k == "cylinder":
        a = s["ax"] - 1
        p = [0, 0, 0]
        p[a] = h[a]
        g = "type=5 size=%s fromto=%s,%s,%s,%s,%s,%s" % ((num(h[(a + 1) % 3]),) + tuple(num(-x) for x in p) + tuple(num(x) for x in p))
    elif k == "ellipsoid":
        g = "type=4 size=%s,%s,%s" % (num(h[0]), num(h[1]), num(h[2]))
    else:
        g = "type=6 size=%s,%s,%s" % (num(h[0]), num(h[1]), num(h[2]))
    return "geom body=%s name=%s %s margin=%s" % (body, name, g, num(margin))


def model_lines(A, B, margin):
    return ["option ccd_tolerance=%g" % CCD_TOL,
            "body name=bB pos=0,0,0",
            "joint body=bB name=jx type=2 axis=1,0,0", "joint body=bB name=jy type=2 axis=0,1,0",
            "joint body=bB name=jz type=2 axis=0,0,1",
            geom_line("gA", "world", A, 0), geom_line("gB", "bB", B, margin)]


def convex_pair(A, B):
    """pairs whose collision function is the general convex collider mjc_Convex (native CCD: GJK/EPA); see the table
    mjCOLLISIONFUNC: every pair with an ellipsoid except plane, and cylinder with capsule / cylinder / box"""
    ks = {A["kind"], B["kind"]}
    if "plane" in ks:
        return False
    if "ellipsoid" in ks:
        return True
    return "cylinder" in ks and not ks & {"sphere"}


def ccd_pair(A, B):
    """mj_geomDistance goes through the convex pipeline for mjc_Convex pairs and for box : box"""
    return convex_pair(A, B) or (A["kind"] == "box" and B["kind"] == "box")


def parse_cinfo(line):
    t = line.split()
    if not t or not t[0].isdigit() or len(t) != int(t[0]) + 1:
        return None
    out = []
    for x in t[1:]:
        f = x.split(":")
        out.append(dict(g1=f[0], g2=f[1], dist=float(f[2]), n=[float(v) for v in f[3].split(",")],
                        p=[float(v) for v in f[4].split(",")], orth=int(f[5]), incl=float(f[6]), excl=int(f[7])))
    return out


def close(a, b, tol=TOL):
    return abs(a - b) <= tol * max(1.0, abs(a), abs(b))


def judge_forward(ev, margin, line, convex=False):
    """None or (class, detail); convex: the contact comes from the iterative convex collider"""
    dtol, ntol, ptol = (CCD_DIST_TOL, CCD_NORMAL_TOL, CCD_NORMAL_TOL) if convex else (TOL, TOL, TOL)
    cs = parse_cinfo(line) if line is not None else None
    if cs is None:
        return "garbage", str(line)[:80]
    if ev["reported"] and not cs:
        return "missing-contact", "no contact, specification distance %s < margin %s" % (ev["dist"] / Q, margin / Q)
    if not ev["reported"] and cs:
        return "spurious-contact", "contact with dist %r, specification distance %s > margin %s" % (cs[0]["dist"], ev["dist"] / Q,
                                                                                                  margin / Q)
    if not cs:
        return None
    first, second = ("gA", "gB") if ev["firstA"] else ("gB", "gA")
    for c in cs:
        if (c["g1"], c["g2"]) != (first, second):
            return "geom-order", "contact lists (%s,%s), specification (%s,%s)" % (c["g1"], c["g2"], first, second)
        if not c["orth"]:
            return "frame", "frame not orthonormal right-handed"
        if c["dist"] > margin / Q + 1e-12:
            return "dist-above-margin", "contact dist %r > margin %r" % (c["dist"], margin / Q)
    dmin = min(c["dist"] for c in cs)
    if not close(dmin, ev["dist"] / Q, dtol):
        return "distance", "nearest contact dist %r, specification %r" % (dmin, ev["dist"] / Q)
    want_n = [0.0, 0.0, 0.0]
    want_n[ev["axis"] - 1] = float(ev["sign"])
    reg = ev["region"]
    for c in cs:
        if not close(c["dist"], dmin, dtol):
            continue
        if any(abs(c["n"][i] - want_n[i]) > ntol for i in range(3)):
            return "normal", "normal %r, specification %r (from %s to %s)" % (c["n"], want_n, first, second)
        for i in range(3):
            lo, hi = reg[2 * i] / Q, reg[2 * i + 1] / Q
            if not (lo - ptol <= c["p"][i] <= hi + ptol):
                return "position", "contact position %r outside the region %r of the nearest points" % (c["p"], [x / Q for x in reg])
        if convex:
            break           # further contacts of the convex collider come from tilting the normal by 1e-3 rad (multiccd)
    return None


def judge_gdist(ev, line, tol):
    if line is None:
        return "garbage", "no output"
    try:
        d = float(line.split()[0])
    except ValueError:
        return "garbage", line[:80]
    if not close(d, ev["dist"] / Q, tol):
        return "geomdistance", "mj_geomDistance returned %r, specification %r" % (d, ev["dist"] / Q)
    return None


def out_index(lines):
    idx, k, inmodel = [], 0, False
    for ln in lines:
        if inmodel:
            idx.append(None)
            if ln == "end":
                inmodel = False
            continue
        idx.append(k)
        k += 1
        if ln.startswith("model "):
            inmodel = True
    return idx


def place_cmds(c):
    return ["setv 0 qpos %s,%s,%s" % (num(c[0]), num(c[1]), num(c[2])), "forward 0"]


RANK = {"plane": 0, "sphere": 2, "capsule": 3, "ellipsoid": 4, "cylinder": 5, "box": 6}


def pairname(A, B):
    n = "-".join(sorted((A["kind"], B["kind"]), key=lambda k: RANK[k]))      # geom type order, as in the collision table
    if A["kind"] == "capsule" and B["kind"] == "capsule":
        ax = lambda s: max(range(3), key=lambda i: s["h"][i])
        n += "-parallel" if ax(A) == ax(B) else "-crossed"
    return n


def replay_models(ctx, exe, models, label):
    """models: list of (A, B, margin, [sequence of events]); events: forward / gdist in behaviour order"""
    lines, checks = [], []
    for mi, (A, B, margin, evs) in enumerate(models):
        ml = model_lines(A, B, margin)
        lines += ["model 0"] + ml + ["end", "data 0 0"]
        cur = None
        for ev in evs:
            if ev["op"] == "forward":
                cur = ev["c"]
                lines += place_cmds(cur)
                checks.append((len(lines), "forward", ev, mi, cur))
                lines.append("cinfo 0")
            else:
                if tuple(ev["c"]) != tuple(cur or ()):
                    cur = ev["c"]
                    lines += place_cmds(cur)
                checks.append((len(lines), "gdist", ev, mi, cur))
                lines.append("gdist 0 gA gB 100" if ev["ab"] else "gdist 0 gB gA 100")
    r = drv.run_script(exe, lines, timeout=1800)
    oi = out_index(lines)
    if not r.crashed:
        for i, ln in enumerate(lines):
            if oi[i] is not None and ln.split()[0] in ("model", "data", "setv", "forward") and \
                    (oi[i] >= len(r.lines) or r.lines[oi[i]] != "ok"):
                raise Machinery("%s: set-up command %r answered %r" % (label, ln, r.lines[oi[i]] if oi[i] < len(r.lines) else None))
    for (li, kind, ev, mi, c) in checks:
        A, B, margin, _ = models[mi]
        ml = model_lines(A, B, margin)
        line = r.lines[oi[li]] if oi[li] < len(r.lines) else None
        if kind == "forward":
            mm = judge_forward(ev, margin, line, convex_pair(A, B))
        else:
            mm = judge_gdist(ev, line, CCD_TOL if ccd_pair(A, B) else TOL)
        ctx.case({"model": ml, "c": list(c), "cmd": lines[li]}, nontrivial=(kind == "gdist" or ev["reported"]),
                 sample={"model": ml[5:], "centre_of_B": [x / Q for x in c], "cmd": lines[li],
                         "spec": {k: tlc.to_py(v) for k, v in ev.items()}})
        if mm is None:
            ctx.trace_ok()
            continue
        cls, detail = mm
        if line is None and r.crashed:
            sig, what = "crash", "harness died: " + r.crash_text()
        else:
            pen = ("centre-inside" if ev.get("deep") else "penetrating") if ev["dist"] < 0 else "separated"
            sig = "%s:%s:%s:%s" % (kind, cls, pairname(A, B), pen)
            what = "%s; pair %s with B centred at %s (units 1/4: A=%s B=%s margin=%s); command `%s` answered %r" % (
                detail, pairname(A, B), [x / Q for x in c], tlc.to_py(A), tlc.to_py(B), margin, lines[li], (line or "")[:300])
        ctx.violation(sig, what, {"script": ["model 0"] + ml + ["end", "data 0 0"] + place_cmds(c) + [lines[li]],
                                  "kind": kind, "ev": tlc.to_py(ev), "margin": margin, "ccd": ccd_pair(A, B),
                                  "convex": convex_pair(A, B)})
    return r, lines, checks


def _sel_dump(blk):
    if 'op |-> "forward"' in blk or 'op |-> "gdist"' in blk:
        return ("A", "B", "margin", "ev")
    return None


def _sel_sim(act, blk):
    return ("A", "B", "margin", "ev") if act in ("Place", "GeomDist") else None


def run(ctx):
    exe = build.build_harness("collision_drv", [DRV], extra=tladump.harness_digest_flag())
    ctx.assume("geoms are planes, spheres, capsules and cylinders along a coordinate axis, axis-aligned boxes and ellipsoids; "
               "lengths are multiples of 1/4",
               "a sphere centre is off a cylinder's axis along at most one coordinate; other pairs with a cylinder or ellipsoid "
               "are displaced along the normal axis only",
               "exactly one axis separates the cores, or a sphere centre / box lies inside a box with a unique nearest face",
               "no pair is exactly at its margin; margin is given to the moving geom, gap is 0",
               "tolerance 1e-9, and ccd_tolerance (1e-6) for mj_geomDistance of box : box (convex pipeline)")
    cfgs = ["ContactLattice_MC.cfg"] + ([] if ctx.quick else ["ContactLattice_Deep.cfg"])
    mc_cfg = "+".join(c[15:-4] for c in cfgs)
    nsim = 60 if ctx.quick else 1500
    t0 = time.time()
    with cf.ThreadPoolExecutor(4) as ex:
        j_mc = [ex.submit(tladump.run_dump, SPEC, os.path.join(TLA, c), 3000, True, 6, None, _sel_dump) for c in cfgs]
        j_neg = ex.submit(tlc.run, SPEC, os.path.join(TLA, "ContactLattice_Neg.cfg"), 4, (), None, 900)
        j_sim = ex.submit(tladump.simulate, SPEC, os.path.join(TLA, "ContactLattice_Sim.cfg"), nsim, 30, ctx.seed + 13, 3000,
                          _sel_sim)
        r_mc = [j.result() for j in j_mc]
        res_neg = j_neg.result()
        res_sim, sims = j_sim.result()
    tladump.timing("C13 tlc runs", t0)
    try:
        models = {}
        for k, (res, states, _cl) in enumerate(r_mc):
            ctx.tlc_ok(res, cfgs[k][:-4], need_actions=["PickA", "PickB", "PickM", "Place", "GeomDist"])
            for st in states():
                key = repr((st["A"], st["B"], st["margin"]))
                evs = models.setdefault(key, (st["A"], st["B"], st["margin"], [], set()))
                ek = repr(sorted((kk, repr(v)) for kk, v in st["ev"].items()))
                if ek not in evs[4]:
                    evs[4].add(ek)
                    evs[3].append(st["ev"])
    finally:
        for (_r, _s, cl) in r_mc:
            cl()
    models = {k: v[:4] for k, v in models.items()}
    ctx.control("TLC refutes the false claim 'reported geoms never penetrate' (ContactLattice_Neg.cfg)",
                res_neg.violation is not None and "NegNoPenetration" in res_neg.violation)
    ctx.tlc_ok(res_sim, "ContactLattice_Sim")
    if len(sims) < nsim // 2:
        raise Machinery("simulation produced %d behaviours" % len(sims))
    # vacuity: contacts and non-contacts, penetration, every pair kind with a contact
    evs = [e for m in models.values() for e in m[3] if e["op"] == "forward"]
    kinds_hit = set(pairname(m[0], m[1]) for m in models.values() if any(e["op"] == "forward" and e["reported"] for e in m[3]))
    kinds_all = set(pairname(m[0], m[1]) for m in models.values())
    if kinds_hit != kinds_all:
        raise Machinery("vacuity: pair kinds without a reported contact: %s" % sorted(kinds_all - kinds_hit))
    for what, seen in {"a reported contact": any(e["reported"] for e in evs), "no contact": any(not e["reported"] for e in evs),
                       "a penetration": any(e["dist"] < 0 for e in evs),
                       "a contact inside the margin": any(e["reported"] and e["dist"] > 0 for e in evs),
                       "a sphere centre inside a cylinder, cap nearest": any(
                           e["deep"] and "cylinder" in (m[0]["kind"], m[1]["kind"]) and
                           e["axis"] == (m[0] if m[0]["kind"] == "cylinder" else m[1])["ax"]
                           for m in models.values() for e in m[3] if e["op"] == "forward"),
                       "a sphere centre inside a cylinder, side nearest": any(
                           e["deep"] and "cylinder" in (m[0]["kind"], m[1]["kind"]) and
                           e["axis"] != (m[0] if m[0]["kind"] == "cylinder" else m[1])["ax"]
                           for m in models.values() for e in m[3] if e["op"] == "forward")}.items():
        if not seen:
            raise Machinery("vacuity: exhaustive run without " + what)
    mlist = []
    for key in sorted(models):
        A, B, margin, es = models[key]
        es = sorted(es, key=lambda e: (tuple(e["c"]), 0 if e["op"] == "forward" else (1 if e["ab"] else 2)))
        mlist.append((A, B, margin, es))
    t0 = time.time()
    r, lines, checks = replay_models(ctx, exe, mlist, "exhaustive")
    # negative controls on the comparer
    oi = out_index(lines)
    li, kind, ev, mi, c = next(x for x in checks if x[1] == "forward" and x[2]["reported"])
    line = r.lines[oi[li]]
    bad = dict(ev)
    bad["dist"] = ev["dist"] + 1
    ctx.control("comparer flags a specified distance shifted by 1/4", judge_forward(bad, mlist[mi][2], line) is not None
                and judge_forward(ev, mlist[mi][2], line) is None)
    bad = dict(ev)
    bad["sign"] = -ev["sign"]
    ctx.control("comparer flags a reversed normal", judge_forward(bad, mlist[mi][2], line) is not None)
    li, kind, ev, mi, c = next(x for x in checks if x[1] == "gdist")
    bad = dict(ev)
    bad["dist"] = ev["dist"] + 1
    ctx.control("comparer flags a shifted mj_geomDistance", judge_gdist(bad, r.lines[oi[li]], TOL) is not None)
    tladump.timing("C13 exhaustive replay", t0)
    t0 = time.time()
    slist = []
    for beh in sims:
        if not beh:
            continue
        st0 = beh[0][1]
        slist.append((st0["A"], st0["B"], st0["margin"], [st["ev"] for _a, st in beh]))
    replay_models(ctx, exe, slist, "simulated")
    tladump.timing("C13 simulated replay", t0)
    ctx.cov["exhaustive"] = all(bool(x[0].finished) for x in r_mc)
    ctx.cov["rule"] = ("every placement of the exhaustive state spaces ContactLattice_{%s} (%d models = shape pair x margin, pair kinds %s) and "
                       "%d simulated sequences of up to 6 placements over the larger lattice; per placement: mj_forward + contact "
                       "list, mj_geomDistance in both orders; evaluation = one of these compared with the specification; "
                       "non-trivial = a contact is specified or a distance is queried" % (
                           mc_cfg, len(mlist), sorted(kinds_all), len(slist)))


def replay(ctx, rp):
    exe = build.build_harness("collision_drv", [DRV], extra=tladump.harness_digest_flag())
    script = rp["replay"]["script"]
    r = drv.run_script(exe, script, timeout=120)
    oi = out_index(script)
    line = r.lines[oi[-1]] if oi[-1] < len(r.lines) else None
    ev = rp["replay"]["ev"]
    print("command: %s\noutput : %s\nspec   : %s" % (script[-1], line, ev))
    ctx.case({"replay": rp["signature"]})
    ctx.case({"replay": rp["signature"], "x": 1})
    if rp["replay"]["kind"] == "forward":
        mm = judge_forward(ev, rp["replay"]["margin"], line, rp["replay"].get("convex", False))
    else:
        mm = judge_gdist(ev, line, CCD_TOL if rp["replay"]["ccd"] else TOL)
    if mm is not None:
        ctx.violation(rp["signature"], rp["what"], rp["replay"])
