"""C40 - extension registries stay consistent under concurrent use (GlobalTable.tla + Registry.tla).

Concurrent part: the UNMODIFIED src/engine/engine_global_table.h, instantiated for a test object whose copy
is two separately scheduled field writes, runs under the controlled scheduler (mutex + atomic count are
yield points).  TLC behaviours of GlobalTable.tla are replayed as schedules; seeded random schedules are
recorded and validated by GlobalTableTrace.tla.  Sequential part: Registry.tla histories replayed through the
real mjp_registerPlugin / mjp_getPlugin / mjp_getPluginAtSlot / mjp_pluginCount of the rebuilt library.
"""
import concurrent.futures as cf
import json
import os
import re
import subprocess

from vlib import build, tlc, drv
from vlib.check import Machinery, VERIF

TLA = os.path.join(VERIF, "tla")

META = dict(
    engine="tlc-sched",
    technique="TLA+ specs GlobalTable.tla (mutex/atomic/field-copy granularity, TLC incl. liveness) and Registry.tla; "
              "TLC behaviours replayed as schedules into the unmodified engine_global_table.h under a controlled "
              "scheduler, recorded random schedules validated by a TLA+ trace spec, sequential histories replayed "
              "into the real plugin registry",
    text="TLC decides NoPartialSeen/Dense/OneSlotPerKey/Stable/WriterResults/NameSlotAgree/termination for every "
         "interleaving of 2-3 writers and 1-2 readers across the first block boundary (count 14 -> 16, block 15); "
         "the real template code is bound step by step in both directions; the public registry API is bound to "
         "the sequential spec over all histories of <=4 registrations.",
    note="Sequential consistency only. The concurrent binding uses a test instantiation of GlobalTable<T> (the "
         "production CopyObject functions are not interleaved at field level); the real mjp_* registries are "
         "exercised sequentially. Trusted: TLC, shim/sched, harnesses globaltable_drv.cc / registry_drv.cc.",
    ref="DESIGN.md section 4 C40, section 2.4")

# thread programs: must equal MC_Reqs2/MC_Queries1 and MC_Reqs3/MC_Queries2 of GlobalTable.tla
PROG2 = ["prog w b 1 c 1", "prog w C 1 b 2", "prog r k b k c s 15", "pre 14"]
PROG3 = ["prog w b 1 a 2", "prog w C 1 B 1", "prog w c 1", "prog r k B s 14 k c", "prog r s 15 k a", "pre 14"]


def harness():
    return build.build_harness("globaltable_drv", [os.path.join(VERIF, "harness", "globaltable_drv.cc")],
                               extra=["-include", os.path.join(VERIF, "shim/sched/sched_prelude.h"),
                                      "-DVERIF_SCHED_MUTEX"], link_lib=False)


def to_schedule(evs, nthreads):
    lines = ["0 spawn - %d" % k for k in range(1, nthreads + 1)]
    expect = []
    for ev in evs:
        lines.append("%d %s %s %d" % (ev["t"], ev["op"], ev["obj"], ev["val"]))
        expect.append((ev["t"], ev["op"], ev["obj"], ev["val"]))
    return lines, expect


def parse_log(out):
    evs, end = [], None
    for ln in out.splitlines():
        try:
            e = json.loads(ln)
        except ValueError:
            continue
        if "end" in e:
            end = e
        else:
            evs.append(e)
    return evs, end


def run_h(exe, prog, tail):
    p = subprocess.run([exe], input="\n".join(prog + tail) + "\n", capture_output=True, text=True, timeout=60)
    evs, end = parse_log(p.stdout)
    return p.returncode, evs, end


def sequential(ctx):
    """Registry.tla histories through the real plugin registry (process-global: unique key suffix per history,
    slots compared relative to the registry size at the start of the history)"""
    exe = build.build_harness("registry_drv", [os.path.join(VERIF, "harness", "registry_drv.cc")])
    spec = os.path.join(TLA, "Registry.tla")
    res, nodes, edges, inits = tlc.dump_graph(spec, os.path.join(TLA, "Registry_MC.cfg"), timeout=600)
    ctx.tlc_ok(res, "Registry_MC")
    paths = tlc.edge_cover_paths(nodes, edges, inits)
    if ctx.quick:
        paths = sorted(paths, key=lambda p: (-len(p), p))[:1200]
    keys = ["a", "A", "b", "B", "c"]
    lines, exp, index = [], [], []
    for hi, p in enumerate(paths):
        suf = "_%d" % hi
        start = len(lines)
        lines.append("nplugin")
        exp.append(("base", None))
        for nid in p:
            st = nodes[nid]
            ev = st["ev"]
            if ev["op"] == "register":
                lines.append("regplugin %s %d" % (drv.hx(ev["key"] + suf), ev["body"]))
                exp.append(("reg", ev["ret"]))
        obs = nodes[p[-1]]["obs"]
        for k in keys:
            lines.append("getplugin %s" % drv.hx(k + suf))
            exp.append(("get", obs["byname"][k]))
        lines.append("nplugin")
        exp.append(("count", obs["count"]))
        for s in sorted(obs["atslot"].keys()):
            lines.append("pluginat +%d" % s)
            exp.append(("at", (obs["atslot"][s] + suf) if obs["atslot"][s] else ""))
        index.append((start, len(lines), hi))
    # "pluginat +k" needs the base: resolve in a second pass -> run history by history in one process using absolute
    # slots computed from the first nplugin answer is impossible offline, so the driver is fed incrementally
    p = subprocess.Popen([exe], stdin=subprocess.PIPE, stdout=subprocess.PIPE, text=True, bufsize=1)

    def ask(cmd):
        p.stdin.write(cmd + "\n")
        p.stdin.flush()
        return p.stdout.readline().rstrip("\n")
    def agree(kind, want, got, base):
        if kind == "reg":
            return (got == "error" and want == -1) or (got != "error" and want != -1 and int(got) - base == want)
        if kind == "get":
            return (int(got) == -1 and want == -1) or (want != -1 and int(got) - base == want)
        if kind == "count":
            return int(got) - base == want
        if kind == "at":
            return (got == "null" and want == "") or (want != "" and got == drv.hx(want))
        return True
    control_done = False
    for (a, b, hi) in index:
        base = None
        hist = []
        good = True
        for i in range(a, b):
            kind, want = exp[i]
            cmd = lines[i]
            if kind == "at":
                cmd = "pluginat %d" % (base + int(cmd.split("+")[1]))
            got = ask(cmd)
            hist.append(cmd)
            if got == "":          # driver died: a crash of the real registry code is an observation
                p.poll()
                ctx.violation("registry:crash", "registry driver died (rc=%s) at '%s' after history %s" % (
                    p.returncode, cmd, [h for h in hist if h.startswith("regplugin")]), {"mode": "registry", "script": hist})
                return len(paths)
            if kind == "base":
                base = int(got)
                continue
            if kind == "reg" and not control_done and want != -1:
                ctx.control("registry comparer flags a wrong expected slot", not agree(kind, want + 1, got, base))
                control_done = True
            if not agree(kind, want, got, base):
                good = False
                sig = "registry:%s:want=%s" % (kind, "fail" if want in (-1, "") else "ok")
                ctx.violation(sig, "history %s: %s answered %s, Registry.tla expects %s (relative to base %s)" % (
                    [h for h in hist if h.startswith("regplugin")], cmd, got, want, base), {"mode": "registry", "script": hist})
                break
        ctx.case({"registry": [lines[i] for i in range(a, b) if lines[i].startswith("reg")]}, nontrivial=True,
                 sample={"registry_history": hist[:6]})
        if good:
            ctx.trace_ok()
    p.stdin.close()
    p.wait(timeout=30)
    return len(paths)


def run(ctx):
    exe = harness()
    ctx.assume("interleavings at the granularity of std::mutex / std::atomic operations and the two field writes of "
               "the test CopyObject; sequential consistency",
               "block size 15 (the code's), 14 pre-registered objects so the first block boundary is crossed",
               "thread programs fixed per configuration (overlapping, conflicting and case-variant keys)")
    spec = os.path.join(TLA, "GlobalTable.tla")
    res = tlc.run(spec, os.path.join(TLA, "GlobalTable_MC.cfg"), coverage=True, timeout=1200)
    ctx.tlc_ok(res, "GlobalTable_MC", need_actions=["W_Lock", "W_Load", "W_CopyKey", "W_CopyBody", "W_Store", "W_Unlock",
                                                    "W_Ret", "R_Load", "R_Ret"])
    if not ctx.quick:
        res = tlc.run(spec, os.path.join(TLA, "GlobalTable_B2.cfg"), timeout=1200)
        ctx.tlc_ok(res, "GlobalTable_B2")
        res = tlc.run(spec, os.path.join(TLA, "GlobalTable_Big.cfg"), timeout=3000)
        ctx.tlc_ok(res, "GlobalTable_Big")
    for cfg, want in (("GlobalTable_BugPublish.cfg", "Dense|NoPartialSeen"), ("GlobalTable_BugNoLock.cfg", "MutexExclusive|OneSlotPerKey")):
        r = tlc.run(spec, os.path.join(TLA, cfg), timeout=600)
        ctx.cov["tlc_runs"].append({"name": cfg, "violation": r.violation, "distinct": r.distinct})
        ctx.control("spec mutant %s violates a property" % cfg, bool(r.violation and re.search(want, r.violation)))
    # spec -> code
    res, nodes, edges, inits = tlc.dump_graph(spec, os.path.join(TLA, "GlobalTable_MC.cfg"), timeout=1200)
    ctx.tlc_ok(res, "GlobalTable_MC(graph)")
    edges = [e for e in edges if e[2] != "Next"]
    paths = tlc.edge_cover_paths(nodes, edges, inits)
    behs = [[nodes[i]["ev"] for i in p if nodes[i]["ev"]["op"] != "init"] for p in paths]
    if ctx.quick:
        behs.sort(key=lambda b: (-len(b), json.dumps(tlc.to_py(b))))
        behs = behs[:1200]
    jobs = [(PROG2, 3) + to_schedule(b, 3) for b in behs]
    nsim = 100 if ctx.quick else 2000
    res, sims = tlc.simulate(spec, os.path.join(TLA, "GlobalTable_Big.cfg"), num=nsim, depth=80, seed=ctx.seed + 1,
                             timeout=900)
    ctx.tlc_ok(res, "GlobalTable_Big(sim)")
    for b in sims:
        evs = [s["ev"] for (_a, s) in b if s["ev"]["op"] != "init"]
        jobs.append((PROG3, 5) + to_schedule(evs, 5))

    def one(job):
        return run_h(exe, job[0], job[2])

    with cf.ThreadPoolExecutor(16) as ex:
        results = list(ex.map(one, jobs))
    for (prog, nth, lines, expect), (rc, evs, end) in zip(jobs, results):
        ctx.case({"prog": prog, "schedule": lines}, nontrivial=len(lines) > nth, sample={"schedule": lines[:25]})
        bad = None
        if end is None or rc != 0:
            bad = ("crash", "harness died (rc=%s) replaying a specification behaviour" % rc)
        elif end["end"] == "diverge":
            m = re.search(r'spec step (\S+)', end["msg"])
            bad = ("replay:diverge:" + (m.group(1) if m else "value"), end["msg"])
        elif end["end"] not in ("scriptend", "done"):
            bad = ("replay:" + end["end"], end["msg"])
        else:
            got = [(e["t"], e["op"], e["obj"], e["val"]) for e in evs if e["t"] != 0]
            if got != expect:
                k = next((i for i in range(min(len(got), len(expect))) if got[i] != expect[i]), min(len(got), len(expect)))
                e_ = expect[k] if k < len(expect) else None
                bad = ("replay:mismatch:%s/%s" % (e_[1], e_[2]) if e_ else "replay:extra-events",
                       "event %d: spec %s, implementation %s" % (k, e_, got[k] if k < len(got) else None))
        if bad:
            ctx.violation(bad[0], bad[1], {"mode": "replay", "prog": prog, "schedule": lines})
        else:
            ctx.trace_ok()
    # negative control: perturbed schedule value
    prog, nth, lines, expect = next(j for j in reversed(jobs) if any(l.split()[1] == "load" for l in j[2]))
    lines = list(lines)
    k = next(i for i, l in enumerate(lines) if l.split()[1] == "load")
    f = lines[k].split()
    lines[k] = " ".join(f[:3] + [str(int(f[3]) + 3)])
    rc, evs, end = run_h(exe, prog, lines)
    ctx.control("perturbed schedule value is reported as divergence", end is not None and end["end"] == "diverge")
    # code -> spec
    nrand = 300 if ctx.quick else 5000
    seeds = [ctx.seed * 100003 + i + 1 for i in range(nrand)]
    with cf.ThreadPoolExecutor(16) as ex:
        rres = list(ex.map(lambda s: run_h(exe, PROG3, ["random %d" % s]), seeds))
    traces, tseeds = [], []
    for s, (rc, evs, end) in zip(seeds, rres):
        if end is None or rc != 0 or end["end"] != "done":
            ctx.violation("random:" + (end["end"] if end else "crash"), "random schedule seed %d ended with %s" % (s, end),
                          {"mode": "random", "seed": s})
            continue
        traces.append([{"t": e["t"], "op": e["op"], "obj": e["obj"], "val": e["val"]} for e in evs if e["t"] != 0])
        tseeds.append(s)
    src = next((t for t in traces if any(e["op"] == "rret" for e in t)), None)
    if src is not None:
        bad = [dict(e) for e in src]
        k = next(i for i, e in enumerate(bad) if e["op"] == "rret")
        bad[k]["val"] += 100            # pretend a reader saw another body
        traces.append(bad)
    B = 500
    for off in range(0, len(traces), B):
        chunk = traces[off:off + B]
        res, verdicts = tlc.validate_traces(os.path.join(TLA, "GlobalTableTrace.tla"),
                                            os.path.join(TLA, "GlobalTableTrace.cfg"), chunk, timeout=1500)
        ctx.cov["tlc_runs"].append({"name": "GlobalTableTrace[%d]" % off, "generated": res.generated,
                                    "distinct": res.distinct, "wall_s": round(res.wall, 1)})
        ctx.cov["states"] += res.distinct
        ctx.cov["transitions"] += res.generated
        if res.violation and "Invariant" in res.violation:
            ctx.violation("trace:invariant:" + res.violation, "a recorded trace drives the specification into a state "
                          "violating " + res.violation, {"mode": "trace", "seeds": tseeds[off:off + B][:50]})
            continue
        if len(verdicts) != len(chunk):
            raise Machinery("trace validation produced %d verdicts for %d traces: %s" % (
                len(verdicts), len(chunk), (res.error or res.out[-800:])))
        for i, tr in enumerate(chunk):
            reached, ln = verdicts[i + 1]
            gi = off + i
            if src is not None and gi == len(traces) - 1:
                ctx.control("corrupted recorded reader result is rejected by the trace spec", reached < ln)
                continue
            ctx.case({"trace": tr}, nontrivial=True, sample={"trace": tr[:20]})
            if reached == ln:
                ctx.trace_ok()
            else:
                e = tr[reached]
                ctx.violation("trace:unexplained:%s/%s" % (e["op"], e["obj"]),
                              "event %d %s of random schedule seed %d is not a step of GlobalTable.tla" % (reached, e, tseeds[gi]),
                              {"mode": "random", "seed": tseeds[gi]})
    nseq = sequential(ctx)
    ctx.cov["exhaustive"] = True
    ctx.cov["rule"] = ("replay: %d edge-cover paths of the exhaustive 2-writer/1-reader graph + %d simulated behaviours "
                       "(3 writers, 2 readers); traces: %d seeded random schedules validated by GlobalTableTrace; "
                       "%d sequential registration histories through the real plugin registry; non-trivial = at least "
                       "one thread step; distinct = distinct schedules / histories" % (len(behs), len(sims), nrand, nseq))


def replay(ctx, rp):
    r = rp["replay"]
    if r.get("mode") == "replay":
        rc, evs, end = run_h(harness(), r["prog"], r["schedule"])
        print("end:", end)
        if end is None or end["end"] not in ("scriptend", "done"):
            ctx.violation(rp["signature"], rp["what"], r)
    elif r.get("mode") == "random":
        rc, evs, end = run_h(harness(), PROG3, ["random %d" % r["seed"]])
        tr = [{"t": e["t"], "op": e["op"], "obj": e["obj"], "val": e["val"]} for e in evs if e["t"] != 0]
        res, verdicts = tlc.validate_traces(os.path.join(TLA, "GlobalTableTrace.tla"),
                                            os.path.join(TLA, "GlobalTableTrace.cfg"), [tr])
        print("end:", end, "verdict:", verdicts, res.violation)
        v = verdicts.get(1, (0, 1))
        if end is None or end["end"] != "done" or res.violation or v[0] != v[1]:
            ctx.violation(rp["signature"], rp["what"], r)
    else:
        print("registry history:", r.get("script"))
        ctx.violation(rp["signature"], rp["what"], r)
    ctx.case({"r": 1})
    ctx.case({"r": 2})
