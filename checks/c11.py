"""C11 - constraint forces are admissible: rows of mjData.efc_* recorded after mj_forward on generated models under
every solver x cone, validated by the trace specification ConstraintTrace.tla (monitor ConstraintRows.tla)."""
import concurrent.futures as cf
import json
import os
import random

from vlib import build, tlc, drv
from vlib.check import Machinery, VERIF

TLA = os.path.join(VERIF, "tla")
HARNESS = [os.path.join(VERIF, "harness", "constraint_drv.cc")]

META = dict(
    engine="tlc-trace",
    category="other",
    technique="TLA+ monitor ConstraintRows.tla (one action per constraint-row type whose guard is the admissible set, "
              "contact-block layout, mj_contactForce and J'f events) model-checked by TLC; traces recorded from mjData "
              "after mj_forward (one event per efc row with order keys of efc_force and its bounds) validated by the "
              "trace specification ConstraintTrace.tla with tlc.validate_traces",
    text="After mj_forward on generated models (joint/tendon friction loss and limits, joint/connect/weld equalities, "
         "sphere/capsule/box contacts of condim 1/3/4/6; a box settling on condim-6 contacts; independent trees with "
         "different, saturated dof and tendon friction-loss bounds) under every solver x cone x {dense, sparse} with "
         "converged and truncated iteration counts, islands on/off and the noslip pass, every constraint row is logged "
         "as an event; "
         "TLC accepts a trace only if every friction-loss force is within +-frictionloss, every limit / frictionless / "
         "pyramid-edge force is >= 0, every elliptic contact has f_n >= 0 and f_n^2 >= ||f_t/mu||^2 (within 2e-10 absolute + 1e-9 relative), "
         "the rows have the documented layout, mj_contactForce equals the decoding of the rows, and qfrc_constraint = "
         "J' efc_force (1e-9 relative).",
    note="Weakest kind of binding used here: a specification-level MONITOR. The admissible sets are order predicates "
         "evaluated by TLC on order keys of the recorded doubles; nothing says the forces are the right ones, only that "
         "they are admissible and mutually consistent. Trusted: TLC, harness constraint_drv.cc (order keys, the cone "
         "slack f_n^2 - ||f_t/mu||^2 computed in floating point and widened by 2e-10 + 1e-9 relative, the independent decoding of "
         "pyramid rows and the independent J'f with tolerance 1e-9). Models come from a fixed generator (no meshes, "
         "no adhesion, no flex); sampled states, not all states.",
    ref="DESIGN.md section 4 C11")

SOLVER = {0: "PGS", 1: "CG", 2: "Newton"}
TYNAME = {0: "equality", 1: "friction_dof", 2: "friction_tendon", 3: "limit_joint", 4: "limit_tendon",
          5: "frictionless", 6: "pyramidal", 7: "elliptic"}


# ---------------------------------------------------------------------------------------------------------
# model generator (mkmodel.h description language)
# ---------------------------------------------------------------------------------------------------------
def model_arm(rng):
    """planar-ish arm: hinge chain with limits and friction loss, a tendon with limit and friction loss over two
    joints, a joint equality, capsule links and an end sphere that reach the floor"""
    cd = rng.choice([1, 3, 4, 6])
    fl = [rng.choice([0, 0.05, 0.3, 2.0]) for _ in range(4)]
    L = ["geom name=floor type=0 size=0,0,1 pos=0,0,0 condim=%d friction=%g,%g,%g" % (
        cd, rng.choice([0.3, 1, 2]), rng.choice([0.005, 0.1]), rng.choice([0.0001, 0.02]))]
    par = "world"
    for k in range(3):
        L.append("body name=a%d parent=%s pos=%s" % (k, par, "0,0,0.7" if k == 0 else "0.4,0,0"))
        L.append("joint body=a%d name=h%d type=3 axis=0,1,0 limited=1 range=%g,%g frictionloss=%g damping=0.05" % (
            k, k, -rng.choice([0.2, 0.6, 1.5]), rng.choice([0.2, 0.6, 1.5]), fl[k]))
        L.append("geom body=a%d name=l%d type=3 size=0.04,0,0 fromto=0.05,0,0,0.35,0,0 mass=0.5 condim=%d "
                 "friction=%g,0.01,0.001" % (k, k, rng.choice([1, 3, 4, 6]), rng.choice([0.2, 0.8])))
        par = "a%d" % k
    L.append("body name=tip parent=a2 pos=0.4,0,0")
    L.append("joint body=tip name=s0 type=2 axis=1,0,0 limited=1 range=-0.05,0.1 frictionloss=%g" % fl[3])
    L.append("geom body=tip name=gt type=2 size=0.06,0,0 mass=0.3 condim=%d friction=%g,0.02,0.002" % (
        rng.choice([1, 3, 4, 6]), rng.choice([0.5, 1.5])))
    L.append("tendon name=t0 limited=1 range=%g,%g frictionloss=%g" % (-rng.choice([0.1, 0.4]), rng.choice([0.1, 0.4]),
                                                                     rng.choice([0, 0.2])))
    L.append("wrapjoint tendon=t0 joint=h0 coef=1")
    L.append("wrapjoint tendon=t0 joint=h1 coef=-0.5")
    if rng.random() < 0.6:
        L.append("equality name=e0 type=2 objtype=3 name1=h2 name2=h1 data=0,%g,0,0,0" % rng.choice([0.5, 1, -1]))
    nq = 4
    qpos = [rng.uniform(-0.8, 0.8) for _ in range(3)] + [rng.uniform(-0.05, 0.1)]
    qvel = [rng.uniform(-3, 3) for _ in range(nq)]
    return L, qpos, qvel


def model_pile(rng):
    """free bodies (box, sphere, capsule, second box) dropped on a plane and on each other; connect and weld equalities"""
    L = ["geom name=floor type=0 size=0,0,1 condim=%d friction=%g,%g,%g" % (
        rng.choice([3, 4, 6]), rng.choice([0.4, 1]), rng.choice([0.005, 0.05]), rng.choice([0.0001, 0.01]))]
    shapes = [("6", "0.15,0.1,0.08"), ("2", "0.1,0,0"), ("3", "0.06,0.15,0"), ("6", "0.1,0.1,0.1")]
    qpos, qvel = [], []
    for k, (ty, sz) in enumerate(shapes):
        x, y = 0.12 * k - 0.2, rng.uniform(-0.03, 0.03)
        z = rng.choice([0.07, 0.1, 0.16]) + 0.17 * (k % 2)
        L.append("body name=f%d pos=%g,%g,%g" % (k, x, y, z))
        L.append("joint body=f%d name=fj%d type=0" % (k, k))
        L.append("geom body=f%d name=fg%d type=%s size=%s mass=%g condim=%d friction=%g,%g,%g" % (
            k, k, ty, sz, rng.choice([0.2, 1.0]), rng.choice([1, 3, 4, 6]), rng.choice([0.3, 0.9, 1.6]),
            rng.choice([0.003, 0.05]), rng.choice([0.0001, 0.005])))
        a = [rng.gauss(0, 1) for _ in range(4)]
        n = sum(v * v for v in a) ** 0.5
        qpos += [x, y, z] + [v / n for v in a]
        qvel += [rng.uniform(-1, 1) for _ in range(3)] + [rng.uniform(-4, 4) for _ in range(3)]
    r = rng.random()
    if r < 0.4:
        L.append("equality name=c0 type=0 objtype=1 name1=f0 name2=f1 data=0.06,0,0")
    elif r < 0.7:
        L.append("equality name=w0 type=1 objtype=1 name1=f2 name2=f3")
    return L, qpos, qvel


def model_ball(rng):
    """ball joints with friction loss and limits hanging over a sphere that lies on the floor"""
    L = ["geom name=floor type=0 size=0,0,1 condim=%d friction=%g,0.01,0.001" % (rng.choice([1, 3, 4, 6]), rng.choice([0.5, 1]))]
    L.append("body name=p0 pos=0,0,0.8")
    L.append("joint body=p0 name=b0 type=1 limited=1 range=0,%g frictionloss=%g" % (rng.choice([0.3, 0.8]), rng.choice([0, 0.1, 0.5])))
    L.append("geom body=p0 name=pg0 type=3 size=0.04,0.15,0 pos=0,0,-0.15 mass=0.4 condim=%d friction=%g,0.02,0.003" % (
        rng.choice([1, 3, 4, 6]), rng.choice([0.3, 1.2])))
    L.append("body name=p1 parent=p0 pos=0,0,-0.3")
    L.append("joint body=p1 name=b1 type=1 limited=1 range=0,%g frictionloss=%g" % (rng.choice([0.3, 1.0]), rng.choice([0, 0.2])))
    L.append("geom body=p1 name=pg1 type=2 size=0.08,0,0 pos=0,0,-0.2 mass=0.6 condim=%d friction=%g,0.02,0.003" % (
        rng.choice([3, 4, 6]), rng.choice([0.3, 1.2])))
    L.append("body name=r0 pos=0.05,0,0.12")
    L.append("joint body=r0 name=rj type=0")
    L.append("geom body=r0 name=rg type=2 size=0.12,0,0 mass=1 condim=%d friction=%g,0.03,0.004" % (
        rng.choice([1, 3, 4, 6]), rng.choice([0.4, 1])))
    if rng.random() < 0.5:
        L.append("equality name=c1 type=0 objtype=1 name1=p1 name2=r0 data=0,0,-0.25")

    def quat(s):
        a = [1.0] + [rng.gauss(0, s) for _ in range(3)]
        n = sum(v * v for v in a) ** 0.5
        return [v / n for v in a]
    qpos = quat(0.3) + quat(0.3) + [0.05, 0, rng.choice([0.11, 0.12, 0.2])] + quat(1)
    qvel = [rng.uniform(-3, 3) for _ in range(12)]
    return L, qpos, qvel


def model_rest(rng):
    """a box (or sphere) settling on the floor with full condim-6 contacts and small rolling friction"""
    roll = rng.choice([0.0001, 0.001])
    spin = rng.choice([0.005, 0.05])
    L = ["geom name=floor type=0 size=0,0,1 condim=6 friction=1,%g,%g" % (spin, roll),
         "body name=s pos=0,0,0.1", "joint body=s name=j type=0",
         "geom body=s name=g type=6 size=0.1,0.1,0.1 mass=1 condim=6 friction=1,%g,%g" % (spin, roll)]
    qpos = [0, 0, 0.0995, 1, 0, 0, 0]
    qvel = [rng.uniform(-.5, .5), rng.uniform(-.5, .5), 0] + [rng.uniform(-3, 3) for _ in range(3)]
    return L, qpos, qvel


def model_wheels(rng, order):
    """independent trees (-> one constraint island each) whose friction-loss rows have DIFFERENT bounds:
    three hinge flywheels, a two-hinge tree, and two slide trees whose friction loss sits on a tendon;
    order 'desc': the largest bounds come first in efc order, 'asc': the smallest first.  No equality rows, no
    contacts: the friction-loss rows are the first rows of efc.  Initial velocities saturate every row."""
    big = [rng.choice([2.0, 3.0]), rng.choice([0.5, 0.8]), rng.choice([0.01, 0.03])]
    pair = [rng.choice([1.0, 1.5]), rng.choice([0.05, 0.002])]
    tf = [rng.choice([0.4, 0.6]), rng.choice([0.02, 0.004])]
    if order == "asc":
        big, pair, tf = big[::-1], pair[::-1], tf[::-1]
    L = []
    for k in range(3):
        L.append("body name=w%d pos=%g,0,1" % (k, 0.5 * k))
        L.append("joint body=w%d name=wj%d type=3 axis=0,1,0 frictionloss=%g" % (k, k, big[k]))
        L.append("geom body=w%d name=wg%d type=2 size=0.1,0,0 mass=1 contype=0 conaffinity=0" % (k, k))
    L.append("body name=p0 pos=2,0,1")
    L.append("joint body=p0 name=pj0 type=3 axis=0,1,0 frictionloss=%g" % pair[0])
    L.append("geom body=p0 name=pg0 type=2 size=0.1,0,0 mass=1 contype=0 conaffinity=0")
    L.append("body name=p1 parent=p0 pos=0.3,0,0")
    L.append("joint body=p1 name=pj1 type=3 axis=0,0,1 frictionloss=%g" % pair[1])
    L.append("geom body=p1 name=pg1 type=2 size=0.08,0,0 mass=0.5 contype=0 conaffinity=0")
    for k in range(2):
        L.append("body name=t%d pos=%g,0,1" % (k, 3 + 0.5 * k))
        L.append("joint body=t%d name=tj%d type=2 axis=1,0,0" % (k, k))
        L.append("geom body=t%d name=tg%d type=2 size=0.1,0,0 mass=1 contype=0 conaffinity=0" % (k, k))
        L.append("tendon name=tn%d frictionloss=%g" % (k, tf[k]))
        L.append("wrapjoint tendon=tn%d joint=tj%d coef=1" % (k, k))
    qpos = [0.0] * 7
    qvel = [rng.choice([-1, 1]) * rng.uniform(8, 20) for _ in range(5)] + [rng.choice([-1, 1]) * rng.uniform(2, 5) for _ in range(2)]
    return L, qpos, qvel


FAMILIES = [("arm", model_arm), ("pile", model_pile), ("ball", model_ball)]
REST_STEPS = [0, 40, 200]
WHEEL_STEPS = [0, 2]


def option_line(cfg):
    return ("option timestep=0.004 solver=%d cone=%d jacobian=%d iterations=%d noslip_iterations=%d impratio=%g "
            "disableflags=%d tolerance=%g" % (cfg["solver"], cfg["cone"], cfg["jac"], cfg["iter"], cfg["noslip"],
                                              cfg["impratio"], cfg["dis"], cfg["tol"]))


def configs(rng, quick):
    """every solver x cone, crossed with sampled secondary settings"""
    out = []
    for solver in (0, 1, 2):
        for cone in (0, 1):
            nvar = 2 if quick else 8
            for v in range(nvar):
                out.append(dict(solver=solver, cone=cone, jac=rng.choice([0, 1]),
                                iter=rng.choice([1, 3, 100]) if v else 100,
                                noslip=rng.choice([0, 0, 3]), impratio=rng.choice([1, 1, 5]),
                                dis=rng.choice([0, 0, 1 << 18, 1 << 9]), tol=rng.choice([1e-8, 1e-12, 0])))
    return out


def event_sig(trace, reached, cfg):
    """class of the first unexplained event (stable signature)"""
    if reached >= len(trace):
        return "accepted", ""
    e = trace[reached]
    h = trace[0]
    cone = "elliptic" if h.get("cone") else "pyramidal"
    main = SOLVER.get(h.get("solver"), h.get("solver"))
    tag = "%s/%s%s" % (main, cone, "+noslip" if cfg.get("noslip") else "")
    # the noslip pass is the last writer of friction-loss rows and of frictional contact rows, whatever solver ran before
    if cfg.get("noslip") and e["op"] == "row" and e["ty"] in (1, 2, 6, 7):
        tag = "noslip/%s" % cone
    if e["op"] == "row":
        return "row:%s:%s" % (TYNAME.get(e["ty"], e["ty"]), tag), "row %d type %s" % (e["i"], TYNAME.get(e["ty"], e["ty"]))
    if e["op"] == "contact":
        return "contactForce:%s" % tag, "contact %d (dim %d, address %d, cf=%d)" % (e["id"], e["dim"], e["adr"], e["cf"])
    if e["op"] == "end":
        return "qfrc_constraint:%s" % tag, "qfrc_constraint != J' efc_force"
    return "%s:%s" % (e["op"], tag), "event %s" % e["op"]


def scenario_script(slot, lines, qpos, qvel, cfg, steps):
    s = ["model %d" % slot, option_line(cfg)] + lines + ["end", "data %d %d" % (slot, slot),
         "setv %d qpos %s" % (slot, ",".join(repr(x) for x in qpos)),
         "setv %d qvel %s" % (slot, ",".join(repr(x) for x in qvel))]
    marks = []
    done = 0
    for k in steps:
        if k > done:
            s.append("step %d %d" % (slot, k - done))
            done = k
        s.append("forward %d" % slot)
        marks.append(len(s))
        s.append("rows %d" % slot)
        s.append("cupd %d" % slot)
    return s, marks


def expected_outputs(script):
    """number of output lines the script produces (model ... end is one command)"""
    n, inmodel = 0, False
    for ln in script:
        if inmodel:
            if ln == "end":
                inmodel = False
            continue
        n += 1
        if ln.startswith("model "):
            inmodel = True
    return n


def run(ctx):
    exe = build.build_harness("constraint_drv", HARNESS)
    ctx.assume("models come from a fixed generator (hinge/slide/ball/free joints, tendons, joint/connect/weld equalities, "
               "plane/sphere/capsule/box geoms, condim 1/3/4/6); no meshes, flex, adhesion or plugins",
               "states are sampled: random initial state, then recorded after 0 / few / many steps",
               "elliptic cone membership is judged on f_n^2 - ||f_t/mu||^2 widened by 2e-10 (twice the absolute convergence "
               "threshold of the engine's cone projection mju_QCQP) + 1e-9 relative; friction-loss and unilateral bounds "
               "are judged exactly",
               "qfrc_constraint vs J'f: 1e-9 relative to the sum of absolute terms; mj_contactForce vs decoded rows: 1e-12 relative")
    # 1. the monitor itself (model checked while the traces are being recorded)
    pool = cf.ThreadPoolExecutor(2)
    mc_name = "ConstraintRows_MC" if ctx.quick else "ConstraintRows_Deep"
    f_mc = pool.submit(tlc.run, os.path.join(TLA, "ConstraintRows.tla"), os.path.join(TLA, mc_name + ".cfg"),
                       coverage=True, timeout=900, workers=8)
    f_neg = pool.submit(tlc.run, os.path.join(TLA, "ConstraintRows.tla"), os.path.join(TLA, "ConstraintRows_Neg.cfg"),
                        timeout=600, workers=2)
    # 2. record traces
    rng = random.Random(ctx.seed * 7919 + 11)
    cfgs = configs(rng, ctx.quick)
    nmodels = 1 if ctx.quick else 4
    steps = [0, 2, 25] if ctx.quick else [0, 1, 3, 12, 60, 200]
    script, meta = [], []
    slot = 0
    for cfg in cfgs:
        for fam, gen in FAMILIES:
            for mi in range(nmodels):
                lines, qpos, qvel = gen(rng)
                s, marks = scenario_script(slot, lines, qpos, qvel, cfg, steps)
                base = expected_outputs(script)
                for k, mk in zip(steps, marks):
                    meta.append(dict(fam=fam, cfg=cfg, steps=k, out=base + expected_outputs(s[:mk]), scen=len(meta),
                                     script_start=len(script), script_len=mk + 2))
                script += s + ["free %d" % slot, "freemodel %d" % slot]
    # directed: a body settling on condim-6 contacts, every solver x cone x {noslip off, on}
    for solver in (0, 1, 2):
        for cone in (0, 1):
            for noslip in (0, 3):
                cfg = dict(solver=solver, cone=cone, jac=0, iter=100, noslip=noslip, impratio=1, dis=0, tol=1e-8)
                for mi in range(1 if ctx.quick else 3):
                    lines, qpos, qvel = model_rest(rng)
                    s, marks = scenario_script(slot, lines, qpos, qvel, cfg, REST_STEPS)
                    base = expected_outputs(script)
                    for k, mk in zip(REST_STEPS, marks):
                        meta.append(dict(fam="rest", cfg=cfg, steps=k, out=base + expected_outputs(s[:mk]), scen=len(meta),
                                         script_start=len(script), script_len=mk + 2))
                    script += s + ["free %d" % slot, "freemodel %d" % slot]
    # directed: independent trees with different friction-loss bounds (dof and tendon friction, descending and
    # ascending efc order), every solver x cone x {noslip off, on} x {islands on, off}
    for solver in (0, 1, 2):
        for cone in (0, 1):
            for noslip in (0, 5):
                for dis in (0, 1 << 18):
                    cfg = dict(solver=solver, cone=cone, jac=0, iter=100, noslip=noslip, impratio=1, dis=dis, tol=1e-8)
                    both = (not ctx.quick) or (noslip and not dis)
                    orders = ["desc", "asc"] if both else [["desc", "asc"][(solver + cone + (dis > 0)) % 2]]
                    for order in orders:
                        for mi in range(1 if ctx.quick else 3):
                            lines, qpos, qvel = model_wheels(rng, order)
                            s, marks = scenario_script(slot, lines, qpos, qvel, cfg, WHEEL_STEPS)
                            base = expected_outputs(script)
                            for k, mk in zip(WHEEL_STEPS, marks):
                                meta.append(dict(fam="wheels-" + order, cfg=cfg, steps=k, out=base + expected_outputs(s[:mk]),
                                                 scen=len(meta), script_start=len(script), script_len=mk + 2))
                            script += s + ["free %d" % slot, "freemodel %d" % slot]
    r = drv.run_script(exe, script, timeout=1500)
    if r.crashed:
        ctx.violation("crash", "harness died while stepping a generated model: " + r.crash_text(),
                      {"script": script[:400]})
    traces, tmeta, cupd = [], [], []
    for m in meta:
        if m["out"] + 1 >= len(r.lines):
            continue
        ln = r.lines[m["out"]]
        if not ln.startswith("["):
            raise Machinery("unexpected harness output for rows: %s | %s" % (ln[:200], r.lines[m["out"] - 1][:100]))
        tr = json.loads(ln)
        traces.append(tr)
        tmeta.append(m)
        cupd.append(r.lines[m["out"] + 1])
    if len(traces) < 20:
        raise Machinery("too few traces recorded (%d)" % len(traces))
    # vacuity: every row type, both cones, every solver, saturated friction loss, active cones
    seen_ty, seen_cfg, nrows = set(), set(), 0
    for tr in traces:
        for e in tr:
            if e["op"] == "row":
                seen_ty.add(e["ty"])
                nrows += 1
        seen_cfg.add((tr[0]["solver"], tr[0]["cone"]))
    if seen_ty != set(range(8)) or len(seen_cfg) != 6:
        raise Machinery("vacuous trace pool: row types %s, solver x cone %s" % (sorted(seen_ty), sorted(seen_cfg)))
    # ... and, with the noslip pass on and >= 2 islands: saturated friction-loss rows (dof and tendon) in an island k > 0
    # whose own bound is smaller than the bound of an earlier efc row (the row a wrong index would pick up)
    sat_later = {1: 0, 2: 0}
    nsat = 0
    for tr, m in zip(traces, tmeta):
        rows = [e for e in tr if e["op"] == "row" and e["ty"] in (1, 2)]
        nsat += sum(e.get("sat", 0) for e in rows)
        if not m["cfg"]["noslip"] or tr[0].get("nisland", 0) < 2:
            continue
        for e in rows:
            if e.get("sat") and e.get("isl", -1) > 0 and any(p["hi"] > e["hi"] for p in rows if p["i"] < e["i"]):
                sat_later[e["ty"]] += 1
    if not sat_later[1] or not sat_later[2] or not nsat:
        raise Machinery("vacuous trace pool: no saturated friction-loss row in an island k > 0 with a smaller bound than an "
                        "earlier row under noslip (dof %d, tendon %d, saturated rows %d)" % (sat_later[1], sat_later[2], nsat))
    res = f_mc.result()
    ctx.tlc_ok(res, mc_name,
               need_actions=["MCBegin", "MCEq", "MCFric", "MCLimit", "MCFrictionless", "MCPyrFirst", "MCPyrNext",
                             "MCEllFirst", "MCEllNext", "MCContactIncluded", "MCContactExcluded", "MCEnd"])
    neg = f_neg.result()
    pool.shutdown()
    ctx.tlc_ok(neg, "ConstraintRows_Neg", allow_violation=True)
    ctx.control("TLC refutes 'no elliptic block is ever accepted' on the monitor", neg.violation is not None)
    # 3. negative controls: perturbed copies of recorded traces must be rejected at the perturbed event
    ctl, ctl_at, ctl_name = [], [], []

    def first_index(tr, pred):
        for i, e in enumerate(tr):
            if pred(e):
                return i
        return None
    big = [4194303, 2097151, 2097151]
    small = [0, 0, 1]
    for name, pred, mut in (
            ("friction-loss force above +frictionloss", lambda e: e["op"] == "row" and e["ty"] in (1, 2), lambda e: dict(e, f=big)),
            ("negative limit force", lambda e: e["op"] == "row" and e["ty"] in (3, 4), lambda e: dict(e, f=small)),
            ("negative pyramid edge force", lambda e: e["op"] == "row" and e["ty"] == 6, lambda e: dict(e, f=small)),
            ("elliptic force outside the cone", lambda e: e["op"] == "row" and e["ty"] == 7 and "sl" in e, lambda e: dict(e, sl=small)),
            ("mj_contactForce disagreeing with the rows", lambda e: e["op"] == "contact", lambda e: dict(e, cf=0)),
            ("qfrc_constraint != J'f", lambda e: e["op"] == "end", lambda e: dict(e, resid=0)),
            ("dropped row", lambda e: e["op"] == "row" and e["i"] == 1, None)):
        for tr in traces:
            i = first_index(tr, pred)
            if i is None:
                continue
            t2 = [dict(e) for e in tr]
            if mut is None:
                del t2[i]
            else:
                t2[i] = mut(t2[i])
            ctl.append(t2)
            ctl_at.append(i)
            ctl_name.append(name)
            break
    if len(ctl) < 6:
        raise Machinery("could not build the negative controls (%d)" % len(ctl))
    # 4. validate
    B = 400
    verd_all = {}
    batches = [traces[i:i + B] for i in range(0, len(traces), B)]
    batches[-1] = batches[-1] + ctl
    off = 0
    for bi, b in enumerate(batches):
        res, verd = tlc.validate_traces(os.path.join(TLA, "ConstraintTrace.tla"), os.path.join(TLA, "ConstraintTrace.cfg"),
                                        b, timeout=1500)
        if res.error and "ostcondition" in res.error and len(verd) == len(b):
            res.error = None
            res.finished = True
        if res.violation and "ostcondition" in res.violation and len(verd) == len(b):
            res.violation = None
        ctx.tlc_ok(res, "ConstraintTrace[%d]" % bi)
        if len(verd) != len(b):
            raise Machinery("ConstraintTrace returned %d verdicts for %d traces\n%s" % (len(verd), len(b), res.out[-1500:]))
        for j in range(len(b)):
            verd_all[off + j] = verd[j + 1]
        off += len(b)
    nt = len(traces)
    for j, (name, at) in enumerate(zip(ctl_name, ctl_at)):
        reached, ln = verd_all[nt + j]
        ctx.control("ConstraintTrace rejects a trace with " + name, reached == at)
    for j, (tr, m) in enumerate(zip(traces, tmeta)):
        reached, ln = verd_all[j]
        h = tr[0]
        ctx.case({"scen": m["scen"], "trace": tr},
                 nontrivial=h["nefc"] > 0,
                 sample={"family": m["fam"], "solver": SOLVER[h["solver"]], "cone": h["cone"], "steps": m["steps"],
                         "ne": h["ne"], "nf": h["nf"], "nl": h["nl"], "ncon": h["ncon"], "nefc": h["nefc"]})
        rp = {"script": script[m["script_start"]:m["script_start"] + m["script_len"]], "family": m["fam"], "cfg": m["cfg"],
              "steps": m["steps"]}
        ok = True
        if reached != ln:
            ok = False
            sig, what = event_sig(tr, reached, m["cfg"])
            ctx.violation(sig, "%s model, %s, %d steps then mj_forward: event %d of %d not admissible: %s; event = %s" % (
                m["fam"], option_line(m["cfg"]), m["steps"], reached, ln, what, json.dumps(tr[reached])[:300]), rp)
        # mj_constraintUpdate (the wrapper of the C12 function) on the recorded state: same rows as the pure function, J'f
        c = cupd[j].split()
        if len(c) != 5 or c[0] != "ok":
            raise Machinery("unexpected cupd output %r" % cupd[j][:200])
        if float(c[1]) != 0 or int(c[2]) != 0 or not float(c[3]) <= 1e-9 or float(c[4]) != 0:
            ok = False
            ctx.violation("constraintUpdate-wrapper:%s" % SOLVER[h["solver"]],
                          "mj_constraintUpdate differs from mj_constraintUpdate_impl + J'f on the recorded state: "
                          "force diff %s, state diffs %s, qfrc rel diff %s, cost diff %s" % tuple(c[1:]), rp)
        if ok:
            ctx.trace_ok()
    ctx.cov["exhaustive"] = False
    ctx.cov["rule"] = ("traces = mjData after mj_forward for %d scenarios: 3 generated model families (arm, pile, ball) x %d "
                       "models x %d solver/cone/jacobian/iterations/noslip/impratio/island settings covering every solver x "
                       "cone, recorded after %s steps, + the directed family 'rest' (a box settling on condim-6 contacts) "
                       "under every solver x cone x {noslip off, on} after %s steps, + the directed family 'wheels' (seven "
                       "independent-tree dofs, one island each tree, dof and tendon friction loss with different bounds "
                       "in descending / ascending efc order, saturated) under every solver x cone x {noslip off, on} x "
                       "{islands on, off} after %s steps; %d constraint rows, %d saturated friction-loss rows, %d / %d "
                       "saturated dof / tendon friction rows in an island k > 0 under noslip whose bound is smaller than "
                       "an earlier row's; non-trivial = at least one constraint row; distinct = distinct recorded traces" % (
                           len(traces), nmodels, len(cfgs), steps, REST_STEPS, WHEEL_STEPS, nrows, nsat, sat_later[1],
                           sat_later[2]))


def replay(ctx, rp):
    exe = build.build_harness("constraint_drv", HARNESS)
    d = rp["replay"]
    r = drv.run_script(exe, d["script"])
    if r.crashed:
        print("harness died:", r.crash_text())
        ctx.violation(rp["signature"], rp["what"], d)
        return
    tr = json.loads(r.lines[-2])
    res, verd = tlc.validate_traces(os.path.join(TLA, "ConstraintTrace.tla"), os.path.join(TLA, "ConstraintTrace.cfg"), [tr],
                                    timeout=600)
    reached, ln = verd.get(1, (0, len(tr)))
    print("trace of %d events, explained up to %d; cupd: %s" % (ln, reached, r.lines[-1]))
    c = r.lines[-1].split()
    bad_wrap = not (len(c) == 5 and float(c[1]) == 0 and int(c[2]) == 0 and float(c[3]) <= 1e-9 and float(c[4]) == 0)
    if reached != ln:
        print("first unexplained event:", json.dumps(tr[reached])[:400])
    if reached != ln or bad_wrap:
        ctx.violation(rp["signature"], rp["what"], d)
    ctx.case({"replay": rp["signature"]})
    ctx.case({"replay": rp["signature"], "x": 1})
