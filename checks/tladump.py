"""Helper shared by checks/c26.py, c30.py, c34.py: run TLC with '-dump' and stream the dumped states through a
fast parser (TLC's textual values rewritten into Python literals and handed to eval()).

vlib.tlc.dump_states builds every state with a pure-Python tokenizer, which is fine for thousands of states
but not for the ~10^5 states of the all-signatures run of StateAPI.tla.  Value mapping (same as vlib.tlc):
records -> dict, sequences / functions over 1..n -> tuple, sets -> frozenset, TRUE/FALSE -> bool.
Restrictions: no sets of records, no functions over non-1..n domains (the specs using this avoid both).
"""
import os
import re
import shutil
import tempfile

from vlib import tlc

_key = re.compile(r'([A-Za-z_][A-Za-z0-9_]*) \|->')
_rng = re.compile(r'(-?\d+)\.\.(-?\d+)')
_set = re.compile(r'\{([^{}\[\]]*)\}')


def _rng_sub(m):
    return "frozenset(range(%s,%s+1))" % (m.group(1), m.group(2))


def _set_sub(m):
    body = m.group(1).strip()
    return "frozenset((%s,))" % body if body else "frozenset()"


def to_python(text):
    """TLA+ value text -> Python value"""
    s = text.replace("<<>>", "()").replace("<< >>", "()")
    s = _rng.sub(_rng_sub, s)
    s = _set.sub(_set_sub, s)                       # innermost sets (of integers / strings / tuples)
    s = s.replace("<<", "(").replace(">>", ",)")
    s = _key.sub(r'"\1":', s)
    s = s.replace("[", "{").replace("]", "}")
    s = s.replace("TRUE", "True").replace("FALSE", "False")
    return eval(s, {"__builtins__": {}, "frozenset": frozenset, "range": range, "True": True, "False": False})


_conj = re.compile(r'(?:^|\n)/\\ ([A-Za-z_][A-Za-z0-9_]*) = ')


def parse_state(block, only=None):
    """one 'State n:' block -> dict of variables (restricted to `only` if given)"""
    st = {}
    ms = list(_conj.finditer(block))
    for i, m in enumerate(ms):
        name = m.group(1)
        if only is not None and name not in only:
            continue
        end = ms[i + 1].start() if i + 1 < len(ms) else len(block)
        st[name] = to_python(block[m.end():end])
    return st


def iter_blocks(path):
    """stream the raw text blocks (one per state) of a TLC '-dump' file"""
    buf = []
    with open(path) as f:
        for line in f:
            if line.startswith("State ") and line.rstrip().endswith(":"):
                if buf:
                    yield "".join(buf)
                buf = []
            elif line.strip():
                buf.append(line)
    if buf:
        yield "".join(buf)


def iter_dump(path, only=None, select=None):
    """stream the states of a TLC '-dump' file; select(block_text) -> None (skip the state) | set of variable
    names to parse (overrides `only`)"""
    for blk in iter_blocks(path):
        if select is not None:
            o = select(blk)
            if o is None:
                continue
            yield parse_state(blk, o)
        else:
            yield parse_state(blk, only)


def run_dump(spec, cfg, timeout=900, coverage=False, workers=16, only=None, select=None, java_opts=()):
    """model-check spec/cfg with a state dump; returns (TlcResult, generator factory, cleanup)"""
    meta = tempfile.mkdtemp(prefix="d", dir=os.path.join(tlc.VERIF, ".cache", "tlc")) \
        if os.path.isdir(os.path.join(tlc.VERIF, ".cache", "tlc")) else None
    if meta is None:
        os.makedirs(os.path.join(tlc.VERIF, ".cache", "tlc"), exist_ok=True)
        meta = tempfile.mkdtemp(prefix="d", dir=os.path.join(tlc.VERIF, ".cache", "tlc"))
    dump = os.path.join(meta, "states")
    res = tlc.run(spec, cfg, workers=workers, args=["-dump", dump], timeout=timeout, coverage=coverage,
                  keep_meta=meta, java_opts=java_opts)
    f = dump + ".dump" if os.path.exists(dump + ".dump") else dump

    def states():
        if os.path.exists(f):
            for st in iter_dump(f, only, select):
                yield st

    def cleanup():
        shutil.rmtree(meta, ignore_errors=True)
    return res, states, cleanup


def harness_digest_flag():
    """vlib.build keys its object cache on the source file and the /repo + shim headers only; headers under
    /verif/harness are not part of the key.  This flag makes the key depend on them as well."""
    import glob
    import hashlib
    h = hashlib.sha256()
    for f in sorted(glob.glob(os.path.join(tlc.VERIF, "harness", "*.h"))):
        h.update(f.encode())
        h.update(open(f, "rb").read())
    return ["-DVERIF_HARNESS_DIGEST=0x" + h.hexdigest()[:12]]


_state_hdr = re.compile(r'\\\* <?([A-Za-z_0-9]+)[^\n]*\nSTATE_\d+ ==[ \t]*\n')


def simulate(spec, cfg, num, depth, seed=0, timeout=900, select=None, only=None, java_opts=()):
    """'-simulate' with the fast parser: returns (TlcResult, behaviours); a behaviour is a list of
    (action name, state dict).  select(action, block_text) -> None (state dropped) | iterable of variable names"""
    import glob
    root = os.path.join(tlc.VERIF, ".cache", "tlc")
    os.makedirs(root, exist_ok=True)
    meta = tempfile.mkdtemp(prefix="s", dir=root)
    pref = os.path.join(meta, "tr")
    res = tlc.run(spec, cfg, workers=1, simulate="file=%s,num=%d" % (pref, num), depth=depth, seed=seed,
                  timeout=timeout, keep_meta=meta, java_opts=java_opts)
    behs = []
    try:
        def order(f):
            t = os.path.basename(f).split("_")
            return tuple(int(x) for x in t[1:] if x.isdigit())
        for f in sorted(glob.glob(pref + "_*"), key=order):
            txt = open(f).read()
            ms = list(_state_hdr.finditer(txt))
            beh = []
            for i, m in enumerate(ms):
                end = ms[i + 1].start() if i + 1 < len(ms) else len(txt)
                blk = txt[m.end():end]
                k = blk.find("\n====")
                if k >= 0:
                    blk = blk[:k]
                blk = "\n".join(l for l in blk.split("\n") if l.strip())
                act = m.group(1)
                o = only
                if select is not None:
                    o = select(act, blk)
                    if o is None:
                        continue
                beh.append((act, parse_state(blk, o)))
            if beh:
                behs.append(beh)
    finally:
        shutil.rmtree(meta, ignore_errors=True)
    return res, behs


def timing(label, t0):
    """debug aid: VERIF_TIMING=1 prints elapsed wall time per phase to stderr"""
    if os.environ.get("VERIF_TIMING"):
        import sys
        import time
        print("[timing] %-28s %.1fs" % (label, time.time() - t0), file=sys.stderr)
