"""C06 - inertia matrix, bias force and Newton-Euler are mutually consistent: SmoothLattice.tla decided by TLC on the
quarter-turn lattice, every finished lattice model replayed into mj_makeM / mj_factorM / mj_solveM / mj_mulM / mj_fullM /
mj_rne / mj_inverse / mj_energyVel."""
import os
from fractions import Fraction

from checks import _smooth as S

META = dict(
    engine="tlc-replay",
    technique="TLA+ spec SmoothLattice.tla: M = sum_b J'IJ + armature + tendon armature by definition, bias force and "
              "Newton-Euler derived twice (projected through the Jacobians and by the recursive pass over the tree) in exact "
              "integer arithmetic; TLC decides symmetry, positive definiteness, zero pattern, agreement of the two "
              "derivations, RNE(a) = M a + bias and 2 E_kin = v'Mv on the lattice; every finished model is replayed",
    text="Tendons: one fixed tendon (integer coefficients, optionally wrapping the other joints with coefficient 0 so that its "
         "stored Jacobian row has exact zeros before non-zeros) and one spatial site-to-site tendon with armature on "
         "configurations where its length is an integer (M + m J_t'J_t, kinetic energy, tendon-armature bias force m J_t' "
         "(Jdot_t.v), inverse dynamics, all in rationals over L^2 / L^4; TLC decides d(L^2) along slides = exact central "
         "difference, symmetry, x'Mx > 0, 2 E_kin = v'Mv). "
         "Exhaustive 2-body (thorough: 3-body) lattices with armature and tendon armature and simulated 3-4 body models "
         "(all tree shapes, slide/hinge on signed axes, quarter-turn poses, integer velocities and accelerations) are "
         "replayed: mj_fullM, L'DL rebuilt from qLD/qLDiagInv, mj_mulM (vector and every unit vector), mj_solveM o mj_mulM, "
         "qfrc_bias, mj_rne with and without acceleration, mj_inverse (= M a + bias), kinetic energy.",
    note="Trusted: TLC, harness smooth_drv.cc. mj_rne(flg_acc=1) is compared with (M - armature - tendon armature) a + bias "
         "(rotor inertia is outside Newton-Euler; the full M a + bias is compared through mj_inverse). Positive definiteness: "
         "x'Mx > 0 on {-1,0,1}^nv and leading minors when entries <= 60 (32-bit TLC integers). Not decided: general "
         "angles, ball/free joints, spatial tendons.",
    ref="DESIGN.md section 4 C06, C07, C29")

SPEC = os.path.join(S.TLA, "SmoothLattice.tla")


def script_for(ev):
    sc = S.Script()
    nv = ev["nv"]
    slp = ev["slp"] if ev["level"] >= 2 else {"on": False}
    if slp["on"]:
        # sleeping enabled: the last tree starts asleep (policy init = 5), the other trees never sleep (3)
        sc.model(S.model_lines(ev, enable=["sleep"], body_extra=lambda k, b: ("sleep=%d" % slp["pol"][k - 1]) if slp["pol"][k - 1] else ""))
    else:
        sc.model(S.model_lines(ev))
    sc.ok("data 0 0")
    S.sanity(sc, ev)
    if nv == 0:
        return sc
    sc.oks(S.state_lines(ev))
    sc.ok("forward 0")
    if slp["on"]:
        # inertia and its factorisation for ALL dofs, awake or asleep, after mj_forward and after further steps
        Ms = S.flat(ev["M"])
        sc.vec("asleep 0", "tree_asleep", slp["trees"], exact=True)
        sc.vec("fullm 0", "fullM(sleeping tree)", Ms)
        sc.vec("reconld 0", "qLD(L'DL)(sleeping tree)", Ms)
        for d in range(nv):
            e = [1.0 if k == d else 0.0 for k in range(nv)]
            col = [ev["M"][r][d] for r in range(nv)]
            sc.vec("mulm 0 %s" % S.csv(e), "mulM(e_i)(sleeping tree)", col)
            sc.vec("solvem 0 %s" % S.csv(col), "solveM(M e_i)(sleeping tree)", e)
        sc.vec("ldcheck 0", "factorisation identities(sleeping tree)", [0.0, 0.0, 0.0], scale=max(abs(x) for x in Ms))
        sc.ok("step 0 3")
        sc.ok("forward 0")
        sc.vec("asleep 0", "tree_asleep(after steps)", slp["trees"], exact=True)
        sc.vec("ldcheck 0", "factorisation identities(sleeping tree, after steps)", [0.0, 0.0, 0.0], scale=max(abs(x) for x in Ms))
        return sc
    # totals including the spatial tendon's armature are published over L^2 (inertia, energy) and L^4 (forces)
    L = ev["spL"]
    d2 = Fraction(L * L if L > 0 else 1)
    d4 = d2 * d2
    Mt = [[Fraction(x) / d2 for x in row] for row in ev["Msp"]]
    M = S.flat(Mt)
    if ev["xten"]:
        # M has entries outside the tree pattern; everything below would only repeat a mismatch of M itself
        sc.vec("fullm 0", "fullM(tendon armature across branches)", M)
        return sc
    tag = "+spatial" if L > 0 else ""
    sc.vec("fullm 0", "fullM" + tag, M)
    sc.vec("reconld 0", "qLD(L'DL)" + tag, M)
    v = list(ev["qvel"])
    Mv = [Fraction(x) / d2 for x in ev["Mvsp"]]
    sc.vec("mulm 0 %s" % S.csv(v), "mulM(qvel)" + tag, Mv)
    sc.vec("solvem 0 %s" % S.csv(Mv), "solveM(M qvel)" + tag, v)
    for d in range(nv):
        e = [1.0 if k == d else 0.0 for k in range(nv)]
        col = [Mt[r][d] for r in range(nv)]
        sc.vec("mulm 0 %s" % S.csv(e), "mulM(e_i)" + tag, col)
        sc.vec("solvem 0 %s" % S.csv(col), "solveM(M e_i)" + tag, e)
    bias = [Fraction(x) / d4 for x in ev["biassp"]]
    inv = [Fraction(x) / d4 for x in ev["invsp"]]
    scale = max([1.0] + [abs(x) for x in ev["bias"]] + [abs(float(x)) for x in bias] + [abs(x) for x in ev["rnea"]] +
                [abs(float(x)) for x in inv])
    if L > 0:
        sc.vec("get 0 ten_length", "ten_length(spatial)", [L], skip=1 if any(b["tc"] != 0 for b in ev["bodies"]) else 0)
    sc.vec("get 0 qfrc_bias", "qfrc_bias" + tag, bias, scale=scale)          # Newton-Euler bias + tendon-armature bias
    sc.vec("rne 0 0", "rne(0)", ev["bias"], scale=scale)
    sc.ok("setv 0 qacc %s" % S.csv(ev["qacc"]))
    sc.vec("rne 0 1", "rne(a)", ev["rnea"], scale=scale)
    sc.ok("energyVel 0")
    sc.num("dscalar 0 energy1", "energy(kinetic)" + tag, Fraction(ev["kin2sp"]) / d2 / 2)
    # inverse dynamics at the chosen acceleration: M a + bias (the C06 lattices carry no passive force)
    sc.ok("setv 0 qacc %s" % S.csv(ev["qacc"]))
    sc.ok("inverse 0")
    sc.vec("get 0 qfrc_inverse", "inverse(a)" + tag, inv, scale=scale)
    return sc


def sig_of(ev, label):
    if ev["xten"]:
        return "C06:tendon-armature-across-branches:M-coupling-dropped"
    if "sleeping tree" in label or "tree_asleep" in label:
        return "C06:%s" % label
    ten = "+tendon" if any(b["tc"] != 0 for b in ev["bodies"]) and ev["glob"]["tarm"] != 0 else ""
    return "C06:%s:joints=%s%s" % (label, "".join(sorted(set(S.features(ev)))), ten)


NEED = {
    "a hinge below a hinge, both moving (Coriolis / centripetal bias)":
        lambda ev: any(b["jt"] == "hinge" and b["v"] != 0 and b["par"] > 0 and ev["bodies"][b["par"] - 1]["jt"] == "hinge"
                       and ev["bodies"][b["par"] - 1]["v"] != 0 for b in ev["bodies"]),
    "armature": lambda ev: any(b["arm"] != 0 for b in ev["bodies"]),
    "tendon armature coupling two dofs": lambda ev: ev["glob"]["tarm"] != 0 and len([b for b in ev["bodies"] if b["tc"] != 0]) > 1,
    "a branching tree (zero block in M)": lambda ev: ev["nv"] >= 2 and any(
        ev["Mb"][i][j] == 0 for i in range(ev["nv"]) for j in range(ev["nv"]) if i != j),
    "nonzero acceleration": lambda ev: any(b["a"] != 0 for b in ev["bodies"]),
    "a spatial tendon with armature inside one chain": lambda ev: ev["spL"] > 0 and not ev["xten"],
    "a spatial tendon whose Jacobian has an exact zero before a non-zero entry": lambda ev: ev["spL"] > 0 and not ev["xten"] and any(
        ev["spn"][i] == 0 and any(x != 0 for x in ev["spn"][i + 1:]) for i in range(ev["nv"])),
}
NEED["a sleeping tree with an off-diagonal inertia entry next to an awake tree"] = lambda ev: ev["slp"]["on"] and ev["slp"]["coupled"]
NEED_THOROUGH = {
    "a spatial tendon with a velocity-dependent bias": lambda ev: ev["spL"] > 0 and not ev["xten"] and any(
        ev["biassp"][i] != ev["spL"] ** 4 * ev["bias"][i] for i in range(ev["nv"])),
}
NEED.update({
    "a fixed tendon with a zero coefficient before a non-zero one": lambda ev: ev["glob"]["tz"] and ev["glob"]["tarm"] != 0 and not ev["xten"] and any(
        ev["bodies"][b - 1]["tc"] == 0 and any(ev["bodies"][c - 1]["tc"] != 0 for c in ev["dofs"][i + 1:])
        for i, b in enumerate(ev["dofs"])),
})


def run(ctx):
    ctx.assume("trees of at most 4 bodies in depth-first order, one slide or hinge joint per body on a signed coordinate axis",
               "integer masses, principal inertias, armatures, velocities, accelerations; quarter-turn poses",
               "fixed tendons (integer coefficients, possibly 0) with armature; one spatial site-to-site tendon with armature on "
               "configurations where its length is an integer <= 7; no passive forces in these lattices",
               "comparison tolerance 1e-9 relative to the largest entry of the compared vector / of the force vectors")
    if ctx.quick:
        mcs, nsim, cov = ["SmoothLattice_C06MC.cfg", "SmoothLattice_C06Sleep.cfg"], 120, None
    else:
        mcs, nsim, cov = ["SmoothLattice_C06MC.cfg", "SmoothLattice_C06Sleep.cfg", "SmoothLattice_C06Deep.cfg"], 1500, "SmoothLattice_Cov.cfg"
    allres = S.run_lattice(ctx, "C06", SPEC, mcs, "SmoothLattice_C06Sim.cfg", nsim, script_for, sig_of,
                           need=NEED if ctx.quick else dict(NEED, **NEED_THOROUGH), cov_cfg=cov,
                           neg_cfg=None if ctx.quick else ("SmoothLattice_C06Neg.cfg", "NegBiasVelocityFree"))
    sims = allres[-1][1]
    S.perturb_control(ctx, "perturbed M entry is flagged", sims, "fullM", 1e-6)
    S.perturb_control(ctx, "perturbed bias force is flagged", sims, "qfrc_bias", 1e-5)
    S.perturb_control(ctx, "perturbed kinetic energy is flagged", sims, "energy(kinetic)", 1e-5)


def replay(ctx, rp):
    S.replay_common(ctx, rp)
