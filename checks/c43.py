"""C43 - MJX reproduces the C engine: MjxLattice.tla / MjxContact.tla (exact rational laws) decided by TLC; every completed
step / contact case of the specifications is replayed through mjx.step / mjx.forward stages (float64, vmap batches) and
through the C engine of the wheel on the same model."""
import concurrent.futures as cf
import os
import time
from fractions import Fraction

from vlib import build, tlc
from vlib.check import Machinery, VERIF
from checks import tladump, _mjx

TLA = os.path.join(VERIF, "tla")
SPEC = os.path.join(TLA, "MjxLattice.tla")
CSPEC = os.path.join(TLA, "MjxContact.tla")

META = dict(
    engine="tlc-replay",
    technique="TLA+ specs MjxLattice.tla (phases Gate / SetCtrl / Forward / Euler | Implicit | RKStage x3 + RKFinish over "
              "exact rationals: 1-dof slide systems with spring, damper, gravity, armature, applied force and one actuator "
              "preset, crossed with integrator x disable-flag pairs) and MjxContact.tla (plane-sphere / sphere-sphere "
              "distance, position, normal, margin/gap inclusion) model-checked by TLC; every completed step and contact "
              "case is replayed through jit(vmap(mjx.step)) / mjx.fwd_position and through mj_step / mj_forward of the "
              "C engine on the same MjModel and compared with the rational expectation at 1e-9",
    text="For every (integrator, flag set, actuator preset, body parameters, state, control) of the lattice TLC computes the "
         "next state, the forward quantities (act_dot, actuator_force, qfrc_actuator, qfrc_passive, qfrc_bias, qacc), the "
         "sensor readings and the feature-gate verdict; MJX (working tree) and the C engine must both reproduce them; "
         "put_model must refuse integrator 'implicit' with NotImplementedError. Contacts: dist, pos, normal and "
         "inclusion (listed iff dist < margin + gap; constraint row iff dist < margin) for plane-sphere and sphere-sphere pairs.",
    note="The MjModel and the reference C engine come from the wheel (mujoco 3.13), MJX from the working tree; models are "
         "MJCF strings compiled by the wheel. Trusted: TLC, the model generated from the parameters, the reading of the "
         "documentation in the specs. If the C engine disagrees with the specification the check stops with a machinery "
         "failure (the oracle is not trusted) instead of blaming MJX. Coupled multi-dof trees, the constraint solver's "
         "forces, convex/mesh collisions, tendons, muscles are not decided; a NotImplementedError of put_model on a "
         "lattice model is recorded, not alarmed.",
    ref="DESIGN.md section 4 C43")

TOL = 1e-9


def fr(x):
    return Fraction(int(x[0]), int(x[1]))


def num(x):
    return repr(float(fr(x)))


# ---------------------------------------------------------------------------------------------------------------
# model of one pack: one body per actuator preset, shared (h, g, integrator, flags)
# ---------------------------------------------------------------------------------------------------------------
def act_xml(i, a):
    """<general> element of preset record a on joint j<i>"""
    affg = a["g1"][0] != 0 or a["g2"][0] != 0
    affb = a["b0"][0] != 0 or a["b1"][0] != 0 or a["b2"][0] != 0
    s = '<general name="a%d" joint="j%d" group="1" gear="%s"' % (i, i, num(a["gear"]))
    s += ' gaintype="%s" gainprm="%s %s %s"' % ("affine" if affg else "fixed", num(a["g0"]), num(a["g1"]), num(a["g2"]))
    s += ' biastype="%s" biasprm="%s %s %s"' % ("affine" if affb else "none", num(a["b0"]), num(a["b1"]), num(a["b2"]))
    s += ' dyntype="%s" dynprm="%s"' % (a["dyn"], num(a["tau"]))
    s += ' ctrllimited="%s"' % ("true" if a["clim"] else "false")
    if a["clim"]:
        s += ' ctrlrange="%s %s"' % (num(a["clo"]), num(a["chi"]))
    s += ' forcelimited="%s"' % ("true" if a["flim"] else "false")
    if a["flim"]:
        s += ' forcerange="%s %s"' % (num(a["flo"]), num(a["fhi"]))
    s += ' actlimited="%s"' % ("true" if a["alim"] else "false")
    if a["alim"]:
        s += ' actrange="%s %s"' % (num(a["alo"]), num(a["ahi"]))
    if a["early"]:
        s += ' actearly="true"'
    return s + "/>"


FLAGXML = {"edamp": "eulerdamp", "damper": "damper", "spring": "spring", "actuation": "actuation", "clamp": "clampctrl"}


def pack_xml(h, g, integ, fl, presets, acts, mps):
    """presets: ordered names; acts[name]: preset record; mps[name]: (m, arm, k, b) as TLC pairs"""
    flags = "".join(' %s="disable"' % FLAGXML[k] for k in sorted(FLAGXML) if not fl[k])
    opt = '<option timestep="%s" gravity="0 0 %s" integrator="%s"%s><flag%s/></option>' % (
        num(h), num(g), integ, "" if fl["groupon"] else ' actuatorgroupdisable="1"', flags)
    bodies, actuators, sensors = [], [], []
    for i, nm in enumerate(presets):
        m_, arm, k, b = mps[nm]
        bodies.append('<body name="b%d" pos="%d 0 0"><joint name="j%d" type="slide" axis="0 0 1" stiffness="%s" '
                      'damping="%s" armature="%s"/><inertial pos="0 0 0" mass="%s" diaginertia="1 1 1"/></body>'
                      % (i, 2 * i, i, num(k), num(b), num(arm), num(m_)))
        sensors.append('<jointpos name="sp%d" joint="j%d"/><jointvel name="sv%d" joint="j%d"/>' % (i, i, i, i))
        if acts[nm]["dyn"] != "off":
            actuators.append(act_xml(i, acts[nm]))
            sensors.append('<actuatorfrc name="sa%d" actuator="a%d"/>' % (i, i))
        sensors.append('<jointactuatorfrc name="sj%d" joint="j%d"/>' % (i, i))
    return ("<mujoco>" + opt + "<worldbody>" + "".join(bodies) + "</worldbody><actuator>" + "".join(actuators)
            + "</actuator><sensor>" + "".join(sensors) + "</sensor></mujoco>")


def act_class(a):
    if a["dyn"] == "off":
        return "noactuator"
    f = [a["dyn"] if a["dyn"] != "none" else "stateless"]
    if a["early"]:
        f.append("actearly")
    if a["flim"]:
        f.append("forcelimited")
    if a["g2"][0] or a["b2"][0]:
        f.append("velocity-dependent")
    return "+".join(f)


class Case:
    __slots__ = ("ev", "p", "a", "key", "preset", "mp", "uid")


FIELDS_NEXT = ("qpos", "qvel", "act", "time")
FIELDS_FWD = ("act_dot", "actuator_force", "qfrc_actuator", "qfrc_passive", "qfrc_bias", "qacc", "actuator_length")
FIELDS_SENS = ("sensor.jointpos", "sensor.jointvel", "sensor.actuatorfrc", "sensor.jointactuatorfrc")


def expectation(c):
    """field -> Fraction expected after one step, from the specification's ev (never recomputed)"""
    ev = c.ev
    e = {"qpos": fr(ev["post"]["q"]), "qvel": fr(ev["post"]["v"]), "time": fr(ev["post"]["t"]),
         "qfrc_passive": fr(ev["fw"]["pas"]), "qfrc_bias": fr(ev["fw"]["bias"]), "qacc": fr(ev["fw"]["qacc"]),
         "qfrc_actuator": fr(ev["fw"]["qa"]),
         "sensor.jointpos": fr(ev["sens"]["jpos"]), "sensor.jointvel": fr(ev["sens"]["jvel"]),
         "sensor.jointactuatorfrc": fr(ev["sens"]["jafrc"])}
    if c.a["dyn"] != "off":
        e["actuator_force"] = fr(ev["fw"]["af"])
        e["actuator_length"] = fr(ev["fw"]["len"])
        e["sensor.actuatorfrc"] = fr(ev["sens"]["afrc"])
    if c.a["dyn"] in ("integrator", "filter"):
        e["act"] = fr(ev["post"]["w"])
        e["act_dot"] = fr(ev["fw"]["wdot"])
    return e


def near(x, want):
    w = float(want)
    return abs(x - w) <= TOL + TOL * max(abs(x), abs(w))


class Layout:
    """index maps of a compiled pack model"""

    def __init__(self, E, m, presets, acts):
        mj = E.mujoco
        self.act = {}
        self.actadr = {}
        self.sens = {}
        for i, nm in enumerate(presets):
            if acts[nm]["dyn"] != "off":
                aid = mj.mj_name2id(m, mj.mjtObj.mjOBJ_ACTUATOR, "a%d" % i)
                self.act[i] = aid
                if m.actuator_actadr[aid] >= 0:
                    self.actadr[i] = int(m.actuator_actadr[aid])
            for tag, pre in (("sensor.jointpos", "sp"), ("sensor.jointvel", "sv"), ("sensor.actuatorfrc", "sa"),
                             ("sensor.jointactuatorfrc", "sj")):
                sid = mj.mj_name2id(m, mj.mjtObj.mjOBJ_SENSOR, "%s%d" % (pre, i))
                if sid >= 0:
                    self.sens[(i, tag)] = int(m.sensor_adr[sid])

    def read(self, out, i):
        """out: dict of numpy arrays of one sample -> field dict of body i"""
        r = {"qpos": out["qpos"][i], "qvel": out["qvel"][i], "time": out["time"],
             "qfrc_passive": out["qfrc_passive"][i], "qfrc_bias": out["qfrc_bias"][i], "qacc": out["qacc"][i],
             "qfrc_actuator": out["qfrc_actuator"][i]}
        if i in self.act:
            r["actuator_force"] = out["actuator_force"][self.act[i]]
            r["actuator_length"] = out["actuator_length"][self.act[i]]
        if i in self.actadr:
            r["act"] = out["act"][self.actadr[i]]
            r["act_dot"] = out["act_dot"][self.actadr[i]]
        for (j, tag), adr in self.sens.items():
            if j == i:
                r[tag] = out["sensordata"][adr]
        return r


OUT = ("qpos", "qvel", "act", "time", "act_dot", "actuator_force", "qfrc_actuator", "qfrc_passive", "qfrc_bias", "qacc",
       "actuator_length", "sensordata")


def run_pack(E, stepfn, xml, presets, acts, batch):
    """batch: list (len B) of dicts body index -> Case (or missing).  Returns (status, layout, mjx outputs, C outputs)"""
    mujoco, mjx, np, jax, jp = E.mujoco, E.mjx, E.np, E.jax, E.jp
    m = mujoco.MjModel.from_xml_string(xml)
    lay = Layout(E, m, presets, acts)
    B = len(batch)
    qpos = np.zeros((B, m.nq))
    qvel = np.zeros((B, m.nv))
    act = np.zeros((B, m.na))
    ctrl = np.zeros((B, m.nu))
    frc = np.zeros((B, m.nv))
    tim = np.zeros(B)
    for b, row in enumerate(batch):
        for i, c in row.items():
            ev = c.ev
            qpos[b, i] = float(fr(ev["pre"]["q"]))
            qvel[b, i] = float(fr(ev["pre"]["v"]))
            frc[b, i] = float(fr(ev["f"]))
            if i in lay.act:
                ctrl[b, lay.act[i]] = float(fr(ev["u"]))
            if i in lay.actadr:
                act[b, lay.actadr[i]] = float(fr(ev["pre"]["w"]))
            tim[b] = float(fr(ev["pre"]["t"]))
    # ---- C engine ------------------------------------------------------------------------------------------------
    cout = []
    d = mujoco.MjData(m)
    for b in range(B):
        mujoco.mj_resetData(m, d)
        d.qpos[:] = qpos[b]
        d.qvel[:] = qvel[b]
        d.act[:] = act[b]
        d.ctrl[:] = ctrl[b]
        d.qfrc_applied[:] = frc[b]
        d.time = tim[b]
        mujoco.mj_step(m, d)
        o = {k: np.array(getattr(d, k), dtype=float) for k in OUT if k != "time"}
        o["time"] = float(d.time)
        cout.append(o)
    # ---- MJX -----------------------------------------------------------------------------------------------------
    try:
        mx = mjx.put_model(m)
    except NotImplementedError as e:
        return "notimplemented:" + str(e)[:120], lay, None, cout
    dx = mjx.make_data(m)
    dx = jax.tree_util.tree_map(lambda a: jp.broadcast_to(a, (B,) + a.shape), dx)
    dx = dx.replace(qpos=jp.array(qpos), qvel=jp.array(qvel), act=jp.array(act), ctrl=jp.array(ctrl),
                    qfrc_applied=jp.array(frc), time=jp.array(tim))
    r = stepfn(mx, dx)
    xo = {k: np.asarray(getattr(r, k)) for k in OUT}
    xout = [{k: (float(xo[k][b]) if k == "time" else xo[k][b]) for k in OUT} for b in range(B)]
    return "ok", lay, xout, cout


def parse_cases(states):
    """dumped states -> (step cases, reject cases, preset records)"""
    steps, rejects, acts = [], [], {}
    for st in states:
        ev = st["ev"]
        if ev["op"] == "step":
            c = Case()
            c.ev, c.p, c.a = ev, ev["p"], ev["act"]
            acts.setdefault(c.p["act"], c.a)
            c.preset = c.p["act"]
            c.key = (c.p["h"], c.p["g"], c.p["integ"], c.p["flags"])
            c.mp = (c.p["m"], c.p["arm"], c.p["k"], c.p["b"])
            c.uid = (c.key, c.preset, c.mp, ev["pre"]["q"], ev["pre"]["v"], ev["pre"]["w"], ev["pre"]["t"], ev["u"], ev["f"])
            steps.append(c)
        elif ev["op"] == "reject":
            rejects.append(ev)
            acts.setdefault(ev["p"]["act"], ev["act"])
    return steps, rejects, acts


def make_packs(cases, presets, B):
    """group the cases of one (h, g, integ, flags) key into (mps, batch) packs: pack i gives every preset body its
    i-th parameter record; batch row j holds every body's j-th case"""
    times = sorted({c.ev["pre"]["t"] for c in cases}, key=repr)
    if len(times) > 1:                       # time is one scalar per sample: all bodies of a batch row share it
        out = []
        for t in times:
            out += make_packs([c for c in cases if c.ev["pre"]["t"] == t], presets, B)
        return out
    by = {}
    for c in cases:
        by.setdefault(c.preset, {}).setdefault(c.mp, []).append(c)
    for pr in by:
        for mp in by[pr]:
            by[pr][mp].sort(key=lambda c: repr(c.uid))
    nmp = max(len(v) for v in by.values())
    default_mp = ((1, 1), (0, 1), (0, 1), (0, 1))
    packs = []
    for i in range(nmp):
        mps, lists = {}, {}
        for pr in presets:
            if pr in by:
                keys = sorted(by[pr], key=repr)
                mp = keys[i % len(keys)]
                mps[pr] = mp
                lists[pr] = by[pr][mp] if i < len(keys) else []          # a repeated record adds no new case
            else:
                mps[pr] = default_mp
                lists[pr] = []
        n = max(len(v) for v in lists.values())
        for off in range(0, n, B):
            batch = []
            for j in range(off, off + B):
                row = {}
                for bi, pr in enumerate(presets):
                    if j < len(lists[pr]):
                        row[bi] = lists[pr][j]
                batch.append(row)
            packs.append((mps, batch))
    return packs


GROUPS = ("forward", "next-state", "sensor-pos-vel", "sensor-acc")


def group_of(field):
    if field in FIELDS_NEXT:
        return "next-state"
    if field in ("sensor.jointpos", "sensor.jointvel"):
        return "sensor-pos-vel"
    if field.startswith("sensor."):
        return "sensor-acc"
    return "forward"


def features(c):
    """the features of the input a mismatch is attributed to (integrator, flag set, actuator structure)"""
    f = set()
    if c.p["integ"] != "Euler":
        f.add(c.p["integ"])
    if c.p["flags"] != "default":
        f.add(c.p["flags"])
    a = c.a
    if a["dyn"] != "off":
        f.add("actuator")
        if a["dyn"] != "none":
            f.add(a["dyn"] + "-dyn")
        if a["early"]:
            f.add("actearly")
        if a["flim"]:
            f.add("forcelimited")
        if a["clim"]:
            f.add("ctrllimited")
        if a["alim"]:
            f.add("actlimited")
        if a["g2"][0] or a["b2"][0]:
            f.add("velocity-gain")
        elif a["g1"][0] or a["b1"][0] or a["b0"][0]:
            f.add("affine")
        if a["gear"] != (1, 1):
            f.add("gear")
    return frozenset(f)


class Findings:
    """mismatches are attributed to the simplest input class showing them: a mismatch of field group G on a case with
    feature set F is reported only if no case with features F' <= F already shows a mismatch of G (stable signatures:
    one per independent cause, not one per lattice point)"""

    def __init__(self):
        self.items = []

    def add(self, feats, group, what, rp):
        self.items.append((len(feats), sorted(feats), group, what, rp))

    def emit(self, report):
        done = []
        self.items.sort(key=lambda t: (t[0], t[1], GROUPS.index(t[2]), t[3]))
        for (_n, feats, group, what, rp) in self.items:
            fs = frozenset(feats)
            if any(g == group and f <= fs for (f, g) in done):
                continue
            done.append((fs, group))
            report("step:%s:%s" % (group, "+".join(feats) or "plain"), what, rp)



# ---------------------------------------------------------------------------------------------------------------
# contact lattice (MjxContact.tla)
# ---------------------------------------------------------------------------------------------------------------
CK = ("plane-sphere", "sphere-sphere", "sphere-sphere-rev")
CSLOTS = 4            # slots per kind in one replay model (fixed structure: one XLA compilation)


def contact_xml(slots):
    """slots: list of (kind, g record or None); g values are TLC pairs"""
    dflt = {"z": (2, 1), "z0": (0, 1), "r1": (1, 2), "r2": (1, 4), "margin": (0, 1), "gap": (0, 1)}
    bodies, pairs = [], []
    for i, (kind, g) in enumerate(slots):
        g = g or dflt
        x = 10 * i
        lower = ('<geom name="lo%d" type="plane" size="1 1 .1" pos="%d 0 %s" contype="0" conaffinity="0"/>'
                 % (i, x, num(g["z0"]))) if kind == "plane-sphere" else (
            '<body name="bl%d" pos="%d 0 %s"><geom name="lo%d" type="sphere" size="%s" contype="0" '
            'conaffinity="0"/></body>' % (i, x, num(g["z0"]), i, num(g["r2"])))
        upper = ('<body name="bu%d" pos="%d 0 %s"><joint name="ju%d" type="slide" axis="0 0 1"/><geom name="up%d" '
                 'type="sphere" size="%s" mass="1" contype="0" conaffinity="0"/></body>' % (i, x, num(g["z"]), i, i, num(g["r1"])))
        # the engine orders a pair by geom id: in the "rev" kind the upper sphere is defined first and becomes geom1
        bodies += [upper, lower] if kind == "sphere-sphere-rev" else [lower, upper]
        a, b = ("up%d" % i, "lo%d" % i) if kind == "sphere-sphere-rev" else ("lo%d" % i, "up%d" % i)
        pairs.append('<pair name="pr%d" geom1="%s" geom2="%s" margin="%s" gap="%s" condim="1"/>'
                     % (i, a, b, num(g["margin"]), num(g["gap"])))
    return ('<mujoco><option gravity="0 0 -1"/><worldbody>' + "".join(bodies) + "</worldbody><contact>" + "".join(pairs)
            + "</contact></mujoco>")


def run_contacts(ctx, E, cases, report):
    """cases: list of ev records of MjxContact.tla (op = contact)"""
    mujoco, mjx, np, jax = E.mujoco, E.mjx, E.np, E.jax
    by = {k: [e for e in cases if e["g"]["kind"] == k] for k in CK}
    for k in CK:
        by[k].sort(key=lambda e: repr(sorted(e["g"].items())))
    npack = max((len(by[k]) + CSLOTS - 1) // CSLOTS for k in CK)
    fwd = jax.jit(mjx.fwd_position)
    notimpl = {}
    did_control = False
    for pi in range(npack):
        slots = []
        for k in CK:
            chunk = by[k][pi * CSLOTS:(pi + 1) * CSLOTS]
            slots += [(k, e) for e in chunk] + [(k, None)] * (CSLOTS - len(chunk))
        xml = contact_xml([(k, e["g"] if e else None) for (k, e) in slots])
        m = mujoco.MjModel.from_xml_string(xml)
        d = mujoco.MjData(m)
        mujoco.mj_forward(m, d)
        gid = lambda nm: mujoco.mj_name2id(m, mujoco.mjtObj.mjOBJ_GEOM, nm)
        ccon = {}
        for j in range(d.ncon):
            c = d.contact[j]
            ccon[frozenset((int(c.geom1), int(c.geom2)))] = (float(c.dist), np.array(c.pos), np.array(c.frame[:3]),
                                                             int(c.efc_address), (int(c.geom1), int(c.geom2)))
        try:
            mx = mjx.put_model(m)
        except NotImplementedError as e:
            notimpl[str(e)[:120]] = notimpl.get(str(e)[:120], 0) + 1
            continue
        dx = fwd(mx, mjx.make_data(m))
        xc = dx._impl.contact
        xgeom, xdist, xpos, xfr = np.asarray(xc.geom), np.asarray(xc.dist), np.asarray(xc.pos), np.asarray(xc.frame)
        xadr = np.asarray(xc.efc_address)
        xJ = np.asarray(dx._impl.efc_J)
        xcon = {frozenset((int(a), int(b))): j for j, (a, b) in enumerate(xgeom)}
        for i, (k, e) in enumerate(slots):
            if e is None:
                continue
            g = e["g"]
            pair = frozenset((gid("lo%d" % i), gid("up%d" % i)))
            want_dist, want_pz, want_nz = fr(e["dist"]), fr(e["pz"]), fr(e["nz"])
            incon, inefc = e["incon"], e["inefc"]
            key = {kk: list(v) if isinstance(v, tuple) else v for kk, v in g.items()}
            ctx.case({"contact": key}, sample={"op": "contact", "g": key})
            # ---- the C engine must agree with the specification (otherwise the oracle is not trusted) ---------
            cc = ccon.get(pair)
            cprob = None
            if (cc is not None) != incon:
                cprob = "contact %s in mj_forward, specification says detected=%s" % ("present" if cc else "absent", incon)
            elif cc is not None:
                if not near(cc[0], want_dist) or not near(cc[1][2], want_pz) or not near(cc[2][2], want_nz) \
                        or not near(cc[1][0], Fraction(10 * i)) or (cc[3] >= 0) != inefc:
                    cprob = "mj_forward gives dist %r pos %s normal %s efc_address %d, specification dist %s pz %s nz %s row=%s" % (
                        cc[0], cc[1], cc[2], cc[3], want_dist, want_pz, want_nz, inefc)
            if cprob:
                raise Machinery("the reference C engine disagrees with MjxContact.tla on %s: %s" % (key, cprob))
            # ---- MJX ---------------------------------------------------------------------------------------------
            feats = "%s:%s" % (k, "margin" if g["margin"][0] else "nomargin")
            rp = {"kind": "contact", "xml": xml, "slot": i}
            desc = "%s z=%s z0=%s r1=%s r2=%s margin=%s gap=%s" % (k, fr(g["z"]), fr(g["z0"]), fr(g["r1"]), fr(g["r2"]),
                                                                   fr(g["margin"]), fr(g["gap"]))
            j = xcon.get(pair)
            if j is None:
                report("contact:%s:no-slot" % k, "%s: MJX has no contact slot for the explicit pair" % desc, rp)
                continue
            if not did_control:
                ctx.control("perturbed expected contact distance is flagged", not near(float(xdist[j]), want_dist + Fraction(1, 512)))
                did_control = True
            ok = True
            if not near(float(xdist[j]), want_dist):
                ok = False
                report("contact:%s:dist" % feats, "%s: mjx contact.dist = %r, C engine/specification %s" % (
                    desc, float(xdist[j]), want_dist), rp)
            if incon:
                if not (near(float(xpos[j][2]), want_pz) and near(float(xpos[j][0]), Fraction(10 * i)) and near(float(xpos[j][1]), 0)):
                    ok = False
                    report("contact:%s:pos" % feats, "%s: mjx contact.pos = %s, specification z = %s (x = %d, y = 0)" % (
                        desc, xpos[j], want_pz, 10 * i), rp)
                # the normal is compared together with the order of the geoms it refers to
                flip = 1
                if cc is not None and tuple(int(v) for v in xgeom[j]) != cc[4]:
                    flip = -1
                if not (near(float(xfr[j][0][2]) * flip, want_nz) and near(float(xfr[j][0][0]), 0) and near(float(xfr[j][0][1]), 0)):
                    ok = False
                    report("contact:%s:normal" % feats, "%s: mjx contact normal = %s for geoms %s, C engine %s for geoms %s" % (
                        desc, xfr[j][0], tuple(xgeom[j]), cc[2] if cc else None, cc[4] if cc else None), rp)
            adr = int(xadr[j])
            active = adr >= 0 and bool(np.any(xJ[adr] != 0))
            if active != inefc:
                ok = False
                report("contact:%s:%s:row-%s" % (feats, "gap" if g["gap"][0] else "nogap", "missing" if inefc else "spurious"),
                       "%s: dist %s, margin = %s: the specification and the C engine %s a constraint row, MJX %s" % (
                           desc, want_dist, fr(e["includemargin"]), "have" if inefc else "have no",
                           "has one" if active else "has none"), rp)
            if ok:
                ctx.trace_ok()
    if notimpl:
        ctx.cov["put_model_notimplemented_contact"] = notimpl
    if not did_control:
        raise Machinery("no contact case was compared")


# ---------------------------------------------------------------------------------------------------------------
# constraint rows (MjxImpedance.tla): solref / solimp lattice for limits, contacts, equalities, friction loss
# ---------------------------------------------------------------------------------------------------------------
ISPEC = os.path.join(TLA, "MjxImpedance.tla")
ISLOTS = (("limit", 4), ("contact", 2), ("equality", 4), ("friction", 2))     # fixed structure of a replay model
IFIELDS = ("efc_J", "efc_pos", "efc_margin", "efc_D", "efc_aref", "efc_frictionloss")


def ibase(kind):
    return kind.split("-")[0]


def solimp_str(si):
    return "%s %s %s %s %d" % (num(si["dmin"]), num(si["dmax"]), num(si["width"]), num(si["mid"]), si["power"])


def solref_str(sr):
    if sr["form"] == "standard":
        return "%s %s" % (num(sr["a"]), num(sr["b"]))
    return "%s %s" % (repr(-float(fr(sr["a"]))), repr(-float(fr(sr["b"]))))


def imp_xml(h, slots):
    """slots: list of (base kind, parameter dict or None): si, sr, m, margin as TLC values"""
    dflt = {"si": {"dmin": (1, 2), "dmax": (7, 8), "width": (1, 2), "mid": (1, 2), "power": 2},
            "sr": {"form": "standard", "a": (1, 2), "b": (1, 1)}, "m": (2, 1), "margin": (1, 4)}
    bodies, pairs, eqs = [], [], []
    for i, (base, pr) in enumerate(slots):
        pr = pr or dflt
        si, sr, x = solimp_str(pr["si"]), solref_str(pr["sr"]), 3 * i
        inert = '<inertial pos="0 0 0" mass="%s" diaginertia="1 1 1"/>' % num(pr["m"])
        if base == "limit":
            bodies.append('<body name="b%d" pos="%d 0 0"><joint name="j%d" type="slide" axis="0 0 1" limited="true" range="-1 3" '
                          'margin="%s" solreflimit="%s" solimplimit="%s"/>%s</body>' % (i, x, i, num(pr["margin"]), sr, si, inert))
        elif base == "contact":
            bodies.append('<geom name="pl%d" type="plane" size="1 1 .1" pos="%d 0 0" contype="0" conaffinity="0"/>' % (i, x))
            bodies.append('<body name="b%d" pos="%d 0 0.5"><joint name="j%d" type="slide" axis="0 0 1"/><geom name="sp%d" '
                          'type="sphere" size="0.5" mass="%s" contype="0" conaffinity="0"/></body>' % (i, x, i, i, num(pr["m"])))
            pairs.append('<pair name="pr%d" geom1="pl%d" geom2="sp%d" condim="1" margin="%s" solref="%s" solimp="%s"/>'
                         % (i, i, i, num(pr["margin"]), sr, si))
        elif base == "equality":
            bodies.append('<body name="b%d" pos="%d 0 0"><joint name="j%d" type="slide" axis="0 0 1"/>%s</body>' % (i, x, i, inert))
            eqs.append('<joint name="eq%d" joint1="j%d" polycoef="0.5 0 0 0 0" solref="%s" solimp="%s"/>' % (i, i, sr, si))
        else:
            bodies.append('<body name="b%d" pos="%d 0 0"><joint name="j%d" type="slide" axis="0 0 1" frictionloss="0.5" '
                          'solreffriction="%s" solimpfriction="%s"/>%s</body>' % (i, x, i, sr, si, inert))
    return ('<mujoco><option timestep="%s" gravity="0 0 0"/><worldbody>' % num(h) + "".join(bodies) + "</worldbody><contact>"
            + "".join(pairs) + "</contact><equality>" + "".join(eqs) + "</equality></mujoco>")


def run_impedance(ctx, E, cases, report, B):
    """cases: ev records (op = row) of MjxImpedance.tla"""
    mujoco, mjx, np, jax, jp = E.mujoco, E.mjx, E.np, E.jax, E.jp
    layout = [b for (b, n) in ISLOTS for _ in range(n)]
    fwd = jax.jit(jax.vmap(mjx.fwd_position, in_axes=(None, 0)))
    # vacuity: every region of the sigmoid with a skewed midpoint and a power other than 2
    need = {"start", "lower", "upper", "sat"}
    hit = {e["branch"] for e in cases if e["g"]["si"]["mid"] != (1, 2) and e["g"]["si"]["power"] != 2
           and e["g"]["si"]["dmin"] != e["g"]["si"]["dmax"]}
    if not need <= hit:
        raise Machinery("vacuity: sigmoid regions %s never reached with midpoint != 1/2 and power != 2" % sorted(need - hit))
    if not {"standard", "direct"} <= {e["g"]["sr"]["form"] for e in cases}:
        raise Machinery("vacuity: both solref forms are required")
    groups = {}
    for e in cases:
        g = e["g"]
        pk = (repr(sorted(g["si"].items())), repr(sorted(g["sr"].items())), g["m"], g["margin"])
        groups.setdefault(g["h"], {}).setdefault(ibase(g["kind"]), {}).setdefault(pk, []).append(e)
    notimpl = {}
    did_control = False
    ncmp = 0
    for h in sorted(groups, key=repr):
        per = {b: [sorted(v, key=lambda e: repr((e["g"]["kind"], e["g"]["x"], e["g"]["v"])))
                   for _k, v in sorted(groups[h].get(b, {}).items())] for (b, _n) in ISLOTS}
        npack = max((len(per[b]) + n - 1) // n for (b, n) in ISLOTS)
        for pi in range(npack):
            slots = []
            for (b, n) in ISLOTS:
                chunk = per[b][pi * n:(pi + 1) * n]
                slots += [(b, c) for c in chunk] + [(b, None)] * (n - len(chunk))
            def prm(c):
                g = c[0]["g"]
                return {"si": g["si"], "sr": g["sr"], "m": g["m"], "margin": g["margin"]}
            xml = imp_xml(h, [(b, prm(c) if c else None) for (b, c) in slots])
            m = mujoco.MjModel.from_xml_string(xml)
            try:
                mx = mjx.put_model(m)
            except NotImplementedError as ex_:
                notimpl[str(ex_)[:120]] = notimpl.get(str(ex_)[:120], 0) + 1
                continue
            nmax = max(len(c) for (_b, c) in slots if c)
            # row addresses in MJX's static layout: equalities, friction dofs, limited joints, contacts
            eq_slots = [i for i, b in enumerate(layout) if b == "equality"]
            fr_slots = [i for i, b in enumerate(layout) if b == "friction"]
            li_slots = [i for i, b in enumerate(layout) if b == "limit"]
            xrow = {}
            for k, i in enumerate(eq_slots):
                xrow[i] = k
            for k, i in enumerate(fr_slots):
                xrow[i] = len(eq_slots) + k
            for k, i in enumerate(li_slots):
                xrow[i] = len(eq_slots) + len(fr_slots) + k
            dx0 = mjx.make_data(m)
            gid = lambda nm: mujoco.mj_name2id(m, mujoco.mjtObj.mjOBJ_GEOM, nm)
            cadr = np.asarray(dx0._impl.contact.efc_address)
            if list(np.asarray(dx0._impl.efc_type)[:len(eq_slots) + len(fr_slots) + len(li_slots)]) != \
                    [0] * len(eq_slots) + [1] * len(fr_slots) + [3] * len(li_slots):
                raise Machinery("unexpected static efc_type layout %s" % list(np.asarray(dx0._impl.efc_type)))
            for off in range(0, nmax, B):
                qpos = np.zeros((B, m.nq))
                qvel = np.zeros((B, m.nv))
                rows = []
                for bi in range(B):
                    rw = {}
                    for i, (_b, c) in enumerate(slots):
                        if c and off + bi < len(c):
                            e = c[off + bi]
                            rw[i] = e
                            qpos[bi, i] = float(fr(e["q"]))
                            qvel[bi, i] = float(fr(e["g"]["v"]))
                        else:
                            qpos[bi, i] = 1.0            # no violation anywhere (equality rows exist but are not compared)
                    rows.append(rw)
                dxb = jax.tree_util.tree_map(lambda a: jp.broadcast_to(a, (B,) + a.shape), dx0)
                dxb = fwd(mx, dxb.replace(qpos=jp.array(qpos), qvel=jp.array(qvel)))
                X = {f: np.asarray(getattr(dxb._impl, f)) for f in IFIELDS}
                cgeom = np.asarray(dxb._impl.contact.geom)[0]           # geom ids of the contact slots (filled by collision)
                for i, b in enumerate(layout):
                    if b == "contact":
                        js = [j for j, gg in enumerate(cgeom) if set(int(v) for v in gg) == {gid("pl%d" % i), gid("sp%d" % i)}]
                        if len(js) != 1:
                            raise Machinery("contact slot of body %d not found in mjx.Data" % i)
                        xrow[i] = int(cadr[js[0]])
                d = mujoco.MjData(m)
                for bi, rw in enumerate(rows):
                    if not rw:
                        continue
                    mujoco.mj_resetData(m, d)
                    d.qpos[:] = qpos[bi]
                    d.qvel[:] = qvel[bi]
                    mujoco.mj_forward(m, d)
                    ctype, cid = np.array(d.efc_type), np.array(d.efc_id)
                    cJ = np.array(d.efc_J).reshape(d.nefc, m.nv)
                    kbip = np.array(d.efc_KBIP).reshape(d.nefc, 4)
                    for i, e in rw.items():
                        base = layout[i]
                        g = e["g"]
                        # ---- the row of this body in the C engine -------------------------------------------------
                        if base == "equality":
                            sel = [r for r in range(d.nefc) if ctype[r] == 0 and cid[r] == mujoco.mj_name2id(m, mujoco.mjtObj.mjOBJ_EQUALITY, "eq%d" % i)]
                        elif base == "friction":
                            sel = [r for r in range(d.nefc) if ctype[r] == 1 and cid[r] == i]
                        elif base == "limit":
                            sel = [r for r in range(d.nefc) if ctype[r] == 3 and cid[r] == i]
                        else:
                            sel = [r for r in range(d.nefc) if ctype[r] in (4, 5, 6, 7) and cJ[r, i] != 0]
                        want = {"efc_J": fr(e["J"]), "efc_pos": fr(e["pos"]), "efc_margin": fr(e["margin"]), "efc_D": fr(e["D"]),
                                "efc_aref": fr(e["aref"]), "efc_frictionloss": fr(e["floss"])}
                        key = [g["kind"], solimp_str(g["si"]), solref_str(g["sr"]), num(g["m"]), num(g["margin"]), num(g["x"]), num(g["v"])]
                        ctx.case({"row": key}, sample={"op": "constraint-row", "kind": g["kind"], "solimp": solimp_str(g["si"]),
                                                       "solref": solref_str(g["sr"]), "x": num(g["x"])})
                        ncmp += 1
                        desc = "%s solimp=(%s) solref=(%s) m=%s margin=%s h=%s depth=%s*width v=%s [%s branch]" % (
                            g["kind"], solimp_str(g["si"]), solref_str(g["sr"]), fr(g["m"]), fr(g["margin"]), fr(h), fr(g["x"]),
                            fr(g["v"]), e["branch"])
                        if len(sel) != 1:
                            raise Machinery("the reference C engine has %d rows for %s, the specification 1" % (len(sel), desc))
                        r = sel[0]
                        cgot = {"efc_J": cJ[r, i], "efc_pos": d.efc_pos[r], "efc_margin": d.efc_margin[r], "efc_D": d.efc_D[r],
                                "efc_aref": d.efc_aref[r], "efc_frictionloss": d.efc_frictionloss[r]}
                        for f in IFIELDS:
                            if not near(float(cgot[f]), want[f]):
                                raise Machinery("the reference C engine disagrees with MjxImpedance.tla on %s: %s = %r, specification %s "
                                                "(K B I of the engine %s, specification %s %s %s)" % (
                                                    desc, f, float(cgot[f]), want[f], kbip[r][:3], fr(e["k"]), fr(e["b"]), fr(e["imp"])))
                        if not (near(float(kbip[r][0]), fr(e["k"])) and near(float(kbip[r][1]), fr(e["b"])) and near(float(kbip[r][2]), fr(e["imp"]))):
                            raise Machinery("the reference C engine's efc_KBIP %s differs from the specification k=%s b=%s imp=%s on %s"
                                            % (kbip[r][:3], fr(e["k"]), fr(e["b"]), fr(e["imp"]), desc))
                        # ---- MJX ---------------------------------------------------------------------------------------
                        xr = xrow[i]
                        xgot = {f: (X[f][bi, xr, i] if f == "efc_J" else X[f][bi, xr]) for f in IFIELDS}
                        if not did_control:
                            ctx.control("perturbed expected efc_D is flagged", not near(float(xgot["efc_D"]), want["efc_D"] * Fraction(1001, 1000)))
                            did_control = True
                        bad = [f for f in IFIELDS if not near(float(xgot[f]), want[f])]
                        if not bad:
                            ctx.trace_ok()
                        for f in bad:
                            report("constraint:%s:%s:%s" % (base, e["branch"], f),
                                   "%s: mjx %s = %r, C engine %r, specification %s" % (desc, f, float(xgot[f]), float(cgot[f]), want[f]),
                                   {"kind": "row", "xml": xml, "body": i, "row": xr, "field": f, "qpos": [float(v) for v in qpos[bi]],
                                    "qvel": [float(v) for v in qvel[bi]], "want": [want[f].numerator, want[f].denominator]})
    if notimpl:
        ctx.cov["put_model_notimplemented_rows"] = notimpl
    if not did_control:
        raise Machinery("no constraint row was compared")
    return ncmp


def run(ctx):
    t0 = time.time()
    quick = ctx.quick
    ex = cf.ThreadPoolExecutor(max_workers=4)
    sel = lambda blk: ("ev",) if ('op |-> "step"' in blk or 'op |-> "reject"' in blk) else None
    jobs = {}
    jobs["lat"] = ex.submit(tladump.run_dump, SPEC, os.path.join(TLA, "MjxLattice_MC.cfg" if quick else "MjxLattice_Deep.cfg"),
                            timeout=2400, workers=4 if quick else 8, coverage=False, select=sel)
    jobs["neg"] = ex.submit(lambda: {k: tlc.run(SPEC, os.path.join(TLA, "MjxLattice_%s.cfg" % k), workers=1, timeout=900)
                                     for k in ("Neg1", "Neg2")})
    if not quick:
        # multi-step behaviours over the larger lattice: every completed step is one more case
        jobs["sim"] = ex.submit(tladump.simulate, SPEC, os.path.join(TLA, "MjxLattice_Sim.cfg"), 600, 30, ctx.seed + 5, 1500,
                                lambda act, blk: ("ev",) if ('op |-> "step"' in blk or 'op |-> "reject"' in blk) else None)
    csel = lambda blk: ("ev",) if 'op |-> "contact"' in blk else None
    jobs["con"] = ex.submit(tladump.run_dump, CSPEC, os.path.join(TLA, "MjxContact_MC.cfg" if quick else "MjxContact_Deep.cfg"),
                            timeout=900, workers=2, coverage=False, select=csel)
    jobs["conneg"] = ex.submit(tlc.run, CSPEC, os.path.join(TLA, "MjxContact_Neg.cfg"), workers=2, timeout=600)
    isel = lambda blk: ("ev",) if 'op |-> "row"' in blk else None
    jobs["imp"] = ex.submit(tladump.run_dump, ISPEC, os.path.join(TLA, "MjxImpedance_MC.cfg" if quick else "MjxImpedance_Deep.cfg"),
                            timeout=900, workers=2, coverage=False, select=isel)
    jobs["impneg"] = ex.submit(tlc.run, ISPEC, os.path.join(TLA, "MjxImpedance_Neg.cfg"), workers=1, timeout=600)
    E = _mjx.env()
    mujoco, mjx, np, jax = E.mujoco, E.mjx, E.np, E.jax
    tladump.timing("import jax+mjx", t0)
    ctx.assume("MjModel and the reference C engine are the wheel's (mujoco %s); MJX is imported from %s; float64"
               % (mujoco.__version__, build.REPO),
               "lattice: 1-dof slide systems (mass, armature, spring, damper, gravity, applied force, one actuator preset) x "
               "(integrator, disable-flag set) pairs; bilinear actuator dynamics and the finer timestep are kept out of RK4 "
               "(32-bit rationals)",
               "comparison at 1e-9 (absolute + relative) against the rational expectation; the C engine must agree with the "
               "specification too, otherwise the run is a machinery failure",
               "a NotImplementedError of put_model on a lattice model is recorded as an accepted outcome")
    res, states, cleanup = jobs["lat"].result()
    try:
        ctx.tlc_ok(res, "MjxLattice")
        steps, rejects, acts = parse_cases(states())
    finally:
        cleanup()
    for k, prop in (("Neg1", "SemiImplicit"), ("Neg2", "RK4Taylor")):
        r = jobs["neg"].result()[k]
        ctx.tlc_ok(r, "MjxLattice_" + k, allow_violation=True)
        ctx.control("TLC rejects the wrong scheme %s (%s)" % (k, prop), bool(r.violation) and prop in r.violation)
    if not steps or not rejects:
        raise Machinery("the lattice produced %d steps and %d rejects" % (len(steps), len(rejects)))
    # vacuity: every supported integrator and every actuator preset must have produced steps
    got_int = {c.p["integ"] for c in steps}
    if not {"Euler", "RK4", "implicitfast"} <= got_int or len({c.preset for c in steps}) < 10:
        raise Machinery("vacuity: the lattice covers integrators %s and %d presets only" % (sorted(got_int),
                                                                                          len({c.preset for c in steps})))
    nsimsteps = 0
    if "sim" in jobs:
        rs, behs = jobs["sim"].result()
        ctx.tlc_ok(rs, "MjxLattice_Sim")
        have = {c.uid for c in steps}
        s2, r2, a2 = parse_cases(st for beh in behs for (_a, st) in beh)
        for c in s2:
            if c.uid not in have:
                have.add(c.uid)
                steps.append(c)
                nsimsteps += 1
        for k, v in a2.items():
            acts.setdefault(k, v)
        if not nsimsteps:
            raise Machinery("the simulated behaviours added no step")
        ctx.cov["simulated_steps"] = nsimsteps
    tladump.timing("TLC lattice (%d steps)" % len(steps), t0)
    presets = sorted(acts)
    viol = set()

    def report(sig, what, rp):
        if sig not in viol:
            viol.add(sig)
            ctx.violation(sig, what, rp)

    # ---- 1. the feature gate ---------------------------------------------------------------------------------------
    seen = set()
    for ev in rejects:
        p = ev["p"]
        key = (p["integ"], p["act"])
        if key in seen:
            continue
        seen.add(key)
        fl = {"edamp": True, "damper": True, "spring": True, "actuation": True, "clamp": True, "groupon": True}
        xml = pack_xml(p["h"], p["g"], p["integ"], fl, [p["act"]], {p["act"]: ev["act"]},
                       {p["act"]: (p["m"], p["arm"], p["k"], p["b"])})
        m = mujoco.MjModel.from_xml_string(xml)
        ctx.case({"gate": list(key)}, sample={"op": "put_model", "integrator": p["integ"], "act": p["act"]})
        try:
            mjx.put_model(m)
        except NotImplementedError:
            ctx.trace_ok()
        else:
            report("gate:%s:accepted" % p["integ"],
                   "put_model accepts integrator %s although the step functions do not implement it" % p["integ"],
                   {"kind": "gate", "xml": xml})
    # ---- 2. the steps ------------------------------------------------------------------------------------------------
    B = 8 if quick else 16
    stepfn = jax.jit(jax.vmap(mjx.step, in_axes=(None, 0)))
    groups = {}
    for c in steps:
        groups.setdefault(c.key, []).append(c)
    order = sorted(groups, key=lambda k: (k[2], k[3], repr(k)))
    notimpl = {}
    did_control = False
    find = Findings()
    ncase = 0
    for key in order:
        h, g, integ, flags = key
        fl = groups[key][0].ev["fl"]
        tk = time.time()
        for (mps, batch) in make_packs(groups[key], presets, B):
            xml = pack_xml(h, g, integ, fl, presets, acts, mps)
            status, lay, xout, cout = run_pack(E, stepfn, xml, presets, acts, batch)
            if status != "ok":
                # accepted outcome: recorded; the pack is retried without the bodies whose actuator uses actearly
                notimpl[status] = notimpl.get(status, 0) + 1
                keep = [pr for pr in presets if not acts[pr]["early"]]
                if len(keep) == len(presets):
                    continue
                remap = {presets.index(pr): j for j, pr in enumerate(keep)}
                batch = [{remap[i]: c for i, c in row.items() if i in remap} for row in batch]
                xml = pack_xml(h, g, integ, fl, keep, acts, mps)
                status, lay, xout, cout = run_pack(E, stepfn, xml, keep, acts, batch)
                if status != "ok":
                    notimpl[status] = notimpl.get(status, 0) + 1
                    continue
            for b, row in enumerate(batch):
                for i, c in row.items():
                    want = expectation(c)
                    gc = lay.read(cout[b], i)
                    gx = lay.read(xout[b], i)
                    ncase += 1
                    ctx.case(list(map(str, c.uid)), sample={"integ": integ, "flags": flags, "act": c.preset,
                                                            "pre": tladump_py(c.ev["pre"]), "u": list(c.ev["u"])})
                    for fld in FIELDS_NEXT + FIELDS_FWD + FIELDS_SENS:
                        if fld in want and not near(float(gc[fld]), want[fld]):
                            raise Machinery("the reference C engine disagrees with the specification: %s of preset %s, "
                                            "%s/%s: C %r, specification %s (pre %s u %s f %s mp %s)" % (
                                                fld, c.preset, integ, flags, float(gc[fld]), want[fld], c.ev["pre"],
                                                c.ev["u"], c.ev["f"], c.mp))
                    bad = [fld for fld in FIELDS_NEXT + FIELDS_FWD + FIELDS_SENS
                           if fld in want and not near(float(gx[fld]), want[fld])]
                    if not did_control:
                        # negative control: a perturbed expectation must be flagged by the comparer
                        ctx.control("perturbed expected qvel is flagged",
                                    not near(float(gx["qvel"]), want["qvel"] + Fraction(1, 1000)))
                        did_control = True
                    if not bad:
                        ctx.trace_ok()
                        continue
                    groups_bad = {}
                    for fld in bad:
                        groups_bad.setdefault(group_of(fld), fld)
                    if "forward" in groups_bad:
                        groups_bad.pop("next-state", None)            # a consequence of the wrong forward quantities
                    for grp, fld in groups_bad.items():
                        find.add(features(c), grp,
                                 "%s/%s, actuator preset %s (%s), m=%s arm=%s k=%s b=%s h=%s g=%s, state q=%s v=%s act=%s "
                                 "t=%s, ctrl=%s, qfrc_applied=%s: after mjx.step %s = %r, C engine %r, specification %s" % (
                                     integ, flags, c.preset, act_class(c.a), fr(c.mp[0]), fr(c.mp[1]), fr(c.mp[2]),
                                     fr(c.mp[3]), fr(h), fr(g), fr(c.ev["pre"]["q"]), fr(c.ev["pre"]["v"]),
                                     fr(c.ev["pre"]["w"]), fr(c.ev["pre"]["t"]), fr(c.ev["u"]), fr(c.ev["f"]), fld,
                                     float(gx[fld]), float(gc[fld]), want[fld]),
                                 {"kind": "step", "xml": xml, "body": i, "field": fld,
                                  "want": [want[fld].numerator, want[fld].denominator],
                                  "qpos": [float(fr(r.ev["pre"]["q"])) if r else 0.0 for r in [row.get(j) for j in range(xml.count("<body "))]],
                                  "qvel": [float(fr(r.ev["pre"]["v"])) if r else 0.0 for r in [row.get(j) for j in range(xml.count("<body "))]],
                                  "act": {str(j): float(fr(r.ev["pre"]["w"])) for j, r in row.items()},
                                  "ctrl": {str(j): float(fr(r.ev["u"])) for j, r in row.items()},
                                  "frc": [float(fr(r.ev["f"])) if r else 0.0 for r in [row.get(j) for j in range(xml.count("<body "))]],
                                  "time": float(fr(c.ev["pre"]["t"]))})
        tladump.timing("  %s/%s" % (integ, flags), tk)
    if not did_control:
        raise Machinery("no lattice model was accepted by put_model: nothing was compared")
    find.emit(report)
    if notimpl:
        ctx.cov["put_model_notimplemented"] = notimpl
    tladump.timing("steps (%d cases)" % ncase, t0)
    # ---- 3. contacts ---------------------------------------------------------------------------------------------------
    resc, cstates, ccleanup = jobs["con"].result()
    try:
        ctx.tlc_ok(resc, "MjxContact")
        ccases = [st["ev"] for st in cstates()]
    finally:
        ccleanup()
    r = jobs["conneg"].result()
    ctx.tlc_ok(r, "MjxContact_Neg", allow_violation=True)
    ctx.control("TLC rejects the wrong contact position (Midway)", bool(r.violation) and "Midway" in r.violation)
    if not ccases:
        raise Machinery("the contact lattice is empty")
    run_contacts(ctx, E, ccases, report)
    tladump.timing("contacts (%d cases)" % len(ccases), t0)
    # ---- 4. constraint rows: solref / solimp ------------------------------------------------------------------------------
    resi, istates, icleanup = jobs["imp"].result()
    try:
        ctx.tlc_ok(resi, "MjxImpedance")
        icases = [st["ev"] for st in istates()]
    finally:
        icleanup()
    r = jobs["impneg"].result()
    ctx.tlc_ok(r, "MjxImpedance_Neg", allow_violation=True)
    ctx.control("TLC rejects the sigmoid with a shared scale factor (BranchesMeet)", bool(r.violation) and "BranchesMeet" in r.violation)
    ex.shutdown(wait=False)
    if not icases:
        raise Machinery("the constraint-row lattice is empty")
    nrows = run_impedance(ctx, E, icases, report, 20 if quick else 60)
    tladump.timing("constraint rows (%d cases)" % nrows, t0)
    ctx.cov["exhaustive"] = bool(res.finished)
    ctx.cov["rule"] = ("every completed step of the exhaustive lattice run (%d steps over %d (timestep, gravity, integrator, "
                       "flag set) groups, %d actuator presets) replayed through jit(vmap(mjx.step)) and mj_step on packed "
                       "models (one body per preset); compared: qpos qvel act time, act_dot actuator_force qfrc_actuator "
                       "qfrc_passive qfrc_bias qacc actuator_length, four sensors; %d feature-gate cases; non-trivial = every "
                       "case; distinct = distinct (group, preset, parameters, state, inputs); %d contact cases (plane-sphere, "
                       "sphere-sphere in both geom orders x heights x radii x margin x gap) through jit(mjx.fwd_position) and "
                       "mj_forward: dist, pos, normal, constraint-row presence; %d constraint rows (limit both sides, contact, joint "
                       "equality both signs, friction loss x solimp x solref standard/direct x depth in every region of the "
                       "impedance sigmoid x velocity) through jit(vmap(mjx.fwd_position)) and mj_forward: efc_J, efc_pos, "
                       "efc_margin, efc_D, efc_aref, efc_frictionloss (the C engine's efc_KBIP against k, b, imp of the spec)"
                       % (len(steps), len(groups), len(presets), len(seen), len(ccases), nrows))


def tladump_py(rec):
    return {k: list(v) for k, v in rec.items()}


def replay(ctx, rp):
    E = _mjx.env()
    mujoco, mjx, np, jax, jp = E.mujoco, E.mjx, E.np, E.jax, E.jp
    r = rp["replay"]
    m = mujoco.MjModel.from_xml_string(r["xml"])
    if r["kind"] == "gate":
        try:
            mjx.put_model(m)
        except NotImplementedError as e:
            print("put_model raises NotImplementedError: %s" % e)
        else:
            print("put_model accepts the model")
            ctx.violation(rp["signature"], rp["what"], r)
        ctx.case({"replay": rp["signature"]})
        ctx.case({"replay": rp["signature"], "x": 1})
        return
    try:
        mjx.put_model(m)
    except NotImplementedError as e:
        print("put_model refuses the model now (accepted outcome): %s" % e)
        ctx.case({"replay": rp["signature"]})
        ctx.case({"replay": rp["signature"], "x": 1})
        return
    if r["kind"] == "row":
        mx = mjx.put_model(m)
        dx = jax.jit(mjx.fwd_position)(mx, mjx.make_data(m).replace(qpos=jp.array(r["qpos"]), qvel=jp.array(r["qvel"])))
        f = r["field"]
        a = np.asarray(getattr(dx._impl, f))
        got = float(a[r["row"], r["body"]] if f == "efc_J" else a[r["row"]])
        want = Fraction(r["want"][0], r["want"][1])
        print("%s of row %d: mjx %r, specification %s" % (f, r["row"], got, want))
        if not near(got, want):
            ctx.violation(rp["signature"], rp["what"], r)
        ctx.case({"replay": rp["signature"]})
        ctx.case({"replay": rp["signature"], "x": 1})
        return
    if r["kind"] == "contact":
        mx = mjx.put_model(m)
        dx = jax.jit(mjx.fwd_position)(mx, mjx.make_data(m))
        d = mujoco.MjData(m)
        mujoco.mj_forward(m, d)
        i = r["slot"]
        pair = {mujoco.mj_name2id(m, mujoco.mjtObj.mjOBJ_GEOM, "lo%d" % i), mujoco.mj_name2id(m, mujoco.mjtObj.mjOBJ_GEOM, "up%d" % i)}
        xc = dx._impl.contact
        differs = False
        for j, gg in enumerate(np.asarray(xc.geom)):
            if set(int(v) for v in gg) == pair:
                adr = int(np.asarray(xc.efc_address)[j])
                act_ = adr >= 0 and bool(np.any(np.asarray(dx._impl.efc_J)[adr] != 0))
                print("mjx: dist %r pos %s normal %s row %s" % (float(xc.dist[j]), np.asarray(xc.pos[j]), np.asarray(xc.frame[j][0]), act_))
                cs = [d.contact[k] for k in range(d.ncon) if {int(d.contact[k].geom1), int(d.contact[k].geom2)} == pair]
                if cs:
                    print("C  : dist %r pos %s normal %s row %s" % (cs[0].dist, cs[0].pos, cs[0].frame[:3], cs[0].efc_address >= 0))
                    differs = (not near(float(xc.dist[j]), Fraction(cs[0].dist)) or (cs[0].efc_address >= 0) != act_
                               or not near(float(xc.pos[j][2]), Fraction(float(cs[0].pos[2]))))
                else:
                    print("C  : no contact")
                    differs = act_
        if differs:
            ctx.violation(rp["signature"], rp["what"], r)
        ctx.case({"replay": rp["signature"]})
        ctx.case({"replay": rp["signature"], "x": 1})
        return
    mx = mjx.put_model(m)
    dx = mjx.make_data(m)
    act = np.zeros(m.na)
    ctrl = np.zeros(m.nu)
    for j, v in r["act"].items():
        aid = mujoco.mj_name2id(m, mujoco.mjtObj.mjOBJ_ACTUATOR, "a%s" % j)
        if aid >= 0 and m.actuator_actadr[aid] >= 0:
            act[m.actuator_actadr[aid]] = v
    for j, v in r["ctrl"].items():
        aid = mujoco.mj_name2id(m, mujoco.mjtObj.mjOBJ_ACTUATOR, "a%s" % j)
        if aid >= 0:
            ctrl[aid] = v
    dx = dx.replace(qpos=jp.array(r["qpos"]), qvel=jp.array(r["qvel"]), act=jp.array(act), ctrl=jp.array(ctrl),
                    qfrc_applied=jp.array(r["frc"]), time=jp.array(r["time"]))
    out = jax.jit(mjx.step)(mx, dx)
    d = mujoco.MjData(m)
    d.qpos[:] = r["qpos"]
    d.qvel[:] = r["qvel"]
    d.act[:] = act
    d.ctrl[:] = ctrl
    d.qfrc_applied[:] = r["frc"]
    d.time = r["time"]
    mujoco.mj_step(m, d)
    i, fld = r["body"], r["field"]
    want = Fraction(r["want"][0], r["want"][1])

    def pick(o, get):
        if fld == "time":
            return float(get(o, "time"))
        if fld in ("qpos", "qvel", "qfrc_passive", "qfrc_bias", "qacc", "qfrc_actuator"):
            return float(np.asarray(get(o, fld))[i])
        aid = mujoco.mj_name2id(m, mujoco.mjtObj.mjOBJ_ACTUATOR, "a%d" % i)
        if fld in ("actuator_force", "actuator_length"):
            return float(np.asarray(get(o, fld))[aid])
        if fld in ("act", "act_dot"):
            return float(np.asarray(get(o, fld))[m.actuator_actadr[aid]])
        pre = {"sensor.jointpos": "sp", "sensor.jointvel": "sv", "sensor.actuatorfrc": "sa", "sensor.jointactuatorfrc": "sj"}[fld]
        sid = mujoco.mj_name2id(m, mujoco.mjtObj.mjOBJ_SENSOR, "%s%d" % (pre, i))
        return float(np.asarray(get(o, "sensordata"))[m.sensor_adr[sid]])
    gx, gc = pick(out, getattr), pick(d, getattr)
    print("%s of body %d: mjx %r, C engine %r, specification %s" % (fld, i, gx, gc, want))
    if not near(gx, want):
        ctx.violation(rp["signature"], rp["what"], r)
    ctx.case({"replay": rp["signature"]})
    ctx.case({"replay": rp["signature"], "x": 1})
