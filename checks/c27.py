"""C27 - actuation laws: Actuation.tla decided by TLC over exact rationals, every evaluated case replayed through the
real mj_step (mj_fwdActuation + the activation update of mj_advance)."""
import concurrent.futures as cf

from checks import _lawlib as L
from vlib.check import Machinery

META = dict(
    engine="tlc-replay",
    technique="TLA+ spec Actuation.tla (stages ClampCtrl / ActDot / Force / ClampForce / Transmit / GravComp / ClampJoint / Advance over "
              "exact rationals, models of 1-2 slide joints and 1-3 actuators built by setup actions) model-checked by TLC: "
              "range, disabled-group, power-balance (qfrc = moment' force), actrange and muscle-envelope invariants; every "
              "completed evaluation (exhaustive single-actuator lattice, exhaustive pairs in thorough, simulated "
              "multi-actuator layouts) is replayed through mj_step on a model generated from the case and "
              "actuator_force, qfrc_actuator, qfrc_gravcomp, qfrc_passive, act_dot and the next act are compared with the specification's values "
              "(exactly; 1e-10 relative when a muscle is involved).",
    text="For joint-transmission actuators on slide joints with fixed/affine/muscle gain, none/affine/muscle bias, "
         "none/integrator/filter/muscle dynamics, ctrlrange (and the clampctrl flag), forcerange, actrange, actearly, "
         "gear, groups disabled through disableactuator, the actuation flag, joint actuatorfrcrange and body gravcomp "
         "(passive or routed through qfrc_actuator by actuatorgravcomp, then inside the joint range), mj_step produces "
         "exactly the actuator_force, qfrc_actuator, qfrc_gravcomp, qfrc_passive, act_dot and act of Actuation.tla on "
         "every lattice point.",
    note="Trusted: TLC, harness law_drv.cc, the model description generated from each case, the reading of the actuator "
         "documentation in Actuation.tla (muscle curves from doc/_static/FLV.m as implemented piecewise-rationally). "
         "Tendon / site / slider-crank / body transmissions, tendon actuator force limits, filterexact, dcmotor, pid and "
         "so3 actuator families and delays are not covered; gravity compensation only for unit-mass bodies on slide joints with "
         "gravity along the joint axis.",
    ref="DESIGN.md section 4 C27")

DYN = {"none": 0, "integrator": 1, "filter": 2, "muscle": 4}
GT = {"fixed": 0, "affine": 1, "muscle": 2}
BT = {"none": 0, "affine": 1, "muscle": 2}
OBS = "actuator_force,qfrc_actuator,act_dot,act,qfrc_gravcomp,qfrc_passive"


def _lim(flag, lo, hi, name):
    s = " %slimited=%d" % (name, 1 if flag else 0)
    if flag:
        s += " %srange=%s,%s" % (name, L.num(lo), L.num(hi))
    return s


def model_lines(ev):
    cfg, acts, jl = ev["cfg"], ev["acts"], ev["jl"]
    ls = ["option timestep=%s gravity=0,0,0" % L.num(cfg["h"])]
    for j in range(cfg["nj"]):
        ls.append("body name=b%d mass=1 inertia=1,1,1 explicitinertial=1 pos=0,%d,0 gravcomp=%s" % (j + 1, j, L.num(jl[j]["gc"])))
        ls.append("joint body=b%d name=j%d type=2 axis=1,0,0 actgravcomp=%d%s" % (
            j + 1, j + 1, 1 if jl[j]["agc"] else 0, _lim(jl[j]["lim"], jl[j]["lo"], jl[j]["hi"], "actfrc")))
    for i, a in enumerate(acts):
        s = "actuator name=a%d trntype=0 target=j%d group=%d gear=%s" % (i + 1, cfg["acts"][i]["jnt"], a["group"],
                                                                       L.num(a["gear"]))
        mus = ",".join(L.num(a[k]) for k in ("mr0", "mr1", "mF")) + ",200," + \
            ",".join(L.num(a[k]) for k in ("mlmin", "mlmax", "mvmax", "mfpmax", "mfvmax"))
        s += " gaintype=%d gainprm=%s" % (GT[a["gt"]], mus if a["gt"] == "muscle" else
                                          ",".join(L.num(a[k]) for k in ("g0", "g1", "g2")))
        s += " biastype=%d biasprm=%s" % (BT[a["bt"]], mus if a["bt"] == "muscle" else
                                          ",".join(L.num(a[k]) for k in ("b0", "b1", "b2")))
        s += " dyntype=%d dynprm=%s" % (DYN[a["dyn"]], (L.num(a["mta"]) + "," + L.num(a["mtd"]) + ",0")
                                        if a["dyn"] == "muscle" else L.num(a["tau"]))
        if a["gt"] == "muscle" or a["bt"] == "muscle":
            s += " lengthrange=%s,%s" % (L.num(a["lr0"]), L.num(a["lr1"]))
        s += _lim(a["clim"], a["clo"], a["chi"], "ctrl") + _lim(a["flim"], a["flo"], a["fhi"], "force") + \
            _lim(a["alim"], a["alo"], a["ahi"], "act")
        s += " actearly=%d" % (1 if a["early"] else 0)
        ls.append(s)
    return ls


def options(cfg):
    dis = 0
    for g in cfg["dis"]:
        dis |= 1 << g
    return [("timestep", L.num(cfg["h"])), ("integrator", "0"), ("gravity", L.num(cfg["grav"]) + ",0,0"),
            ("disableflags", str((0 if cfg["clamp"] else 256) | (0 if cfg["actuation"] else 2048))),
            ("disableactuator", str(dis))]


def expectations(ev):
    """[(field, index in the mjData array, expected Fraction, actuator index or None, joint index or None)]"""
    acts = ev["acts"]
    ex = []
    for i in range(len(acts)):
        ex.append(("actuator_force", i, L.fr(ev["frc"][i]), i, None))
    for j in range(ev["cfg"]["nj"]):
        ex.append(("qfrc_actuator", j, L.fr(ev["qf"][j]), None, j))
    for j in range(ev["cfg"]["nj"]):
        ex.append(("qfrc_gravcomp", j, L.fr(ev["qgc"][j]), None, j))
        ex.append(("qfrc_passive", j, L.fr(ev["qpas"][j]), None, j))
    k = 0
    for i, a in enumerate(acts):
        if a["dyn"] != "none":
            ex.append(("act_dot", k, L.fr(ev["wdot"][i]), i, None))
            ex.append(("act", k, L.fr(ev["w2"][i]), i, None))
            k += 1
    return ex


def is_exact(ev):
    return all(a["gt"] != "muscle" and a["bt"] != "muscle" and a["dyn"] != "muscle" for a in ev["acts"])


def first_mismatch(ev, obs, perturb=None):
    exact = is_exact(ev)
    for f, idx, want, ai, ji in expectations(ev):
        if perturb and perturb[0] == f:
            want = want + perturb[1]
        got = obs.get(f)
        if got is None or idx >= len(got) or not L.close(got[idx], want, exact):
            return f, idx, want, (got[idx] if got and idx < len(got) else None), ai, ji
    return None


def act_feature(ev, i):
    a, cfg = ev["acts"][i], ev["cfg"]
    f = ["dyn=" + a["dyn"], "gain=" + a["gt"], "bias=" + a["bt"]]
    u = L.fr(ev["st"]["u"][i])
    if a["clim"] and not (L.fr(a["clo"]) <= u <= L.fr(a["chi"])):
        f.append("ctrl-outside-ctrlrange" + ("" if cfg["clamp"] else "-noclamp"))
    if a["flim"]:
        f.append("forcelimited" + ("" if L.fr(a["flo"]) <= 0 <= L.fr(a["fhi"]) else "-excluding-0"))
    if a["alim"]:
        f.append("actlimited")
    if a["early"]:
        f.append("actearly")
    if a["gear"][0] < 0:
        f.append("neggear")
    if a["group"] in set(cfg["dis"]):
        f.append("group-disabled")
    if not cfg["actuation"]:
        f.append("actuation-off")
    return ":".join(f)


def jnt_feature(ev, j):
    cfg = ev["cfg"]
    n = sum(1 for x in cfg["acts"] if x["jnt"] == j + 1)
    f = ["actuators=%d" % n, "actfrclimited" if ev["jl"][j]["lim"] else "unlimited"]
    if ev["jl"][j]["gc"][0] and cfg["grav"][0]:
        f.append("actuatorgravcomp" if ev["jl"][j]["agc"] else "passive-gravcomp")
    if any(ev["acts"][i]["group"] in set(cfg["dis"]) for i, x in enumerate(cfg["acts"]) if x["jnt"] == j + 1):
        f.append("group-disabled")
    if not cfg["actuation"]:
        f.append("actuation-off")
    return ":".join(f)


def case_script(ev, slot=0):
    cfg = ev["cfg"]
    stl = "st %d qpos=%s qvel=%s" % (slot, ",".join(L.num(z) for z in ev["st"]["q"]), ",".join(L.num(z) for z in ev["st"]["v"]))
    stl += " ctrl=" + ",".join(L.num(z) for z in ev["st"]["u"])
    ws = [L.num(ev["st"]["w"][i]) for i, a in enumerate(ev["acts"]) if a["dyn"] != "none"]
    if ws:
        stl += " act=" + ",".join(ws)
    return ["optset %d %s %s" % (slot, k, v) for k, v in options(cfg)], [stl, "sobs %d 1 %s" % (slot, OBS)]


def run(ctx):
    exe = L.harness()
    ctx.assume("joint transmissions on slide joints only; parameters, states and controls on the dyadic lattices of the "
               "Actuation_*.cfg files; Euler integrator, no gravity, no constraints",
               "the model of a case is generated from the case (mkmodel description); flags and disabled groups are "
               "written into mjModel.opt",
               "comparison is exact (all intermediates short dyadics) except for models with a muscle (1e-10 relative)")
    q = ctx.quick
    to = 240 if q else 1500
    jobs = {"mc": ("dump", "Actuation_MC" if q else "Actuation_Deep"),
            "pair": ("dump", None if q else "Actuation_PairDeep"),
            "sim": ("sim", "Actuation_Sim", 120 if q else 1500, 30),
            "neg1": ("neg", "Actuation_Neg1"), "neg2": ("neg", None if q else "Actuation_Neg2"),
            "neg3": ("neg", "Actuation_Neg3")}

    def go(n):
        j = jobs[n]
        if j[0] == "neg":
            return L.negative_run("Actuation", j[1])
        if j[0] == "dump":
            return L.dump_evs("Actuation", j[1], want=("step",), timeout=to)
        return L.simulate_evs("Actuation", j[1], num=j[2], depth=j[3], seed=ctx.seed + 27, want=("step",), timeout=to)

    with cf.ThreadPoolExecutor(6) as ex:
        futs = {n: ex.submit(go, n) for n in jobs if jobs[n][1]}
        out = {n: (futs[n].result() if n in futs else None) for n in jobs}
    for n in ("mc", "pair", "sim"):
        if out[n]:
            ctx.tlc_ok(out[n][0], jobs[n][1])
    L.negative_record(ctx, out["neg1"], "spec variant 'no forcerange clamp' violates ForceInRange")
    L.negative_record(ctx, out["neg3"], "spec variant 'joint clamp before actuator-routed gravity compensation' violates the "
                                        "joint-range invariants (JointClampMinimal / JointInRange)")
    if out["neg2"] is not None:
        L.negative_record(ctx, out["neg2"], "spec variant 'moment = gear squared' violates PowerBalance")
    evs = [e for n in ("mc", "pair") if out[n] for e in out[n][1]]
    sims = [e for b in out["sim"][1] for e in b]
    if not evs or not sims:
        raise Machinery("nothing to replay (exhaustive %d, simulated %d)" % (len(evs), len(sims)))
    # vacuity: every stage ran on every preset of the exhaustive configuration (a 'step' event exists only after all
    # seven stages), clamps and disabled groups were actually exercised
    seen = {a_["pre"] for e in evs for a_ in e["cfg"]["acts"]}
    clamped = sum(1 for e in evs for i, a in enumerate(e["acts"])
                  if a["clim"] and e["cfg"]["clamp"] and not (L.fr(a["clo"]) <= L.fr(e["st"]["u"][i]) <= L.fr(a["chi"])))
    disabled = sum(1 for e in evs for a in e["acts"] if a["group"] in set(e["cfg"]["dis"]))
    routed = sum(1 for e in evs for j in range(e["cfg"]["nj"]) if e["jl"][j]["agc"] and e["jl"][j]["lim"] and e["qgc"][j][0]
                 and L.fr(e["qf"][j]) in (L.fr(e["jl"][j]["lo"]), L.fr(e["jl"][j]["hi"])))
    if len(seen) < 4 or not clamped or not disabled or not routed:
        raise Machinery("vacuity: presets %s, clamped controls %d, disabled actuators %d, joint clamps acting on a total that "
                        "includes gravity compensation %d" % (sorted(seen), clamped, disabled, routed))
    # one harness run: models are compiled once per distinct (actuators, joints) layout
    sc = L.Script()
    slots, lastopt, cases = {}, {}, []
    allev = evs + sims
    # smallest layouts first: the first violation reported for a signature is then the simplest repro
    order = sorted(range(len(allev)), key=lambda i: (allev[i]["cfg"]["na"], allev[i]["cfg"]["nj"],
                                                     repr(allev[i]["cfg"]["acts"]), repr(allev[i]["cfg"]["jl"])))
    nslot = 0
    for idx in order:
        ev = allev[idx]
        key = (repr(ev["cfg"]["acts"]), repr(ev["cfg"]["jl"]))
        if key not in slots:
            # bounded pool of slots: a new layout replaces the model in slot (n mod 64)
            slot = nslot % 64
            nslot += 1
            for k2 in [k2 for k2, v in slots.items() if v == slot]:
                del slots[k2]
            slots[key] = slot
            lastopt.pop(slot, None)
            i = sc.block("lmodel %d" % slot, model_lines(ev))
            j = sc.op("ldata %d %d" % (slot, slot))
            cases.append(("setup", i, j, ev))
        slot = slots[key]
        opts, body = case_script(ev, slot)
        if lastopt.get(slot) != opts:
            for ln in opts:
                sc.op(ln)
            lastopt[slot] = opts
        sc.op(body[0])
        o = sc.op(body[1])
        cases.append(("case", o, idx, ev))
    r = L.run_lines(exe, sc.lines)
    if len(r.lines) < sc.nout and not r.crashed:
        raise Machinery("harness produced %d of %d lines" % (len(r.lines), sc.nout))
    # negative control on the comparer
    probe = next(c for c in cases if c[0] == "case" and is_exact(c[3]))
    obs = L.parse_obs(r.lines[probe[1]]) if probe[1] < len(r.lines) else None
    mmp = first_mismatch(probe[3], obs, perturb=("actuator_force", L.Fraction(1, 2 ** 40))) if obs else None
    ctx.control("expected actuator_force perturbed by 2^-40 is flagged", mmp is not None and mmp[0] == "actuator_force")
    nbad = 0
    for c in cases:
        if c[0] == "setup":
            _, i, j, ev = c
            for k2 in (i, j):
                if k2 >= len(r.lines) or not r.lines[k2].startswith("ok"):
                    raise Machinery("model setup failed: %s\n%s" % (r.lines[k2] if k2 < len(r.lines) else r.crash_text(),
                                                                    "\n".join(model_lines(ev))))
            continue
        _, o, idx, ev = c
        line = r.lines[o] if o < len(r.lines) else None
        obs = L.parse_obs(line)
        key = {"cfg": ev["cfg"], "st": ev["st"]}
        nontrivial = any(z[0] for z in ev["frc"]) or any(z[0] for z in ev["wdot"])
        ctx.case(key, nontrivial=nontrivial,
                 sample={"actuators": [x["pre"] for x in ev["cfg"]["acts"]], "ctrl": [list(z) for z in ev["st"]["u"]],
                         "actuator_force": [list(z) for z in ev["frc"]], "qfrc_actuator": [list(z) for z in ev["qf"]]})
        if obs is None:
            mm = ("harness", 0, None, line if line is not None else r.crash_text(), None, None)
        else:
            mm = first_mismatch(ev, obs)
        if mm is None:
            ctx.trace_ok()
            continue
        nbad += 1
        f, k2, want, got, ai, ji = mm
        feat = act_feature(ev, ai) if ai is not None else (jnt_feature(ev, ji) if ji is not None else "harness")
        opts, body = case_script(ev, 0)
        ctx.violation("%s:%s" % (f, feat),
                      "actuators %s on joints %s (joint presets %s, gravity %s), clampctrl=%s actuation=%s disabled groups %s, ctrl=%s act=%s "
                      "qpos=%s qvel=%s: %s[%d] = %r, Actuation.tla says %s" % (
                          [x["pre"] for x in ev["cfg"]["acts"]], [x["jnt"] for x in ev["cfg"]["acts"]], list(ev["cfg"]["jl"]),
                          L.fr(ev["cfg"]["grav"]),
                          ev["cfg"]["clamp"], ev["cfg"]["actuation"], sorted(ev["cfg"]["dis"]),
                          [str(L.fr(z)) for z in ev["st"]["u"]], [str(L.fr(z)) for z in ev["st"]["w"]],
                          [str(L.fr(z)) for z in ev["st"]["q"]], [str(L.fr(z)) for z in ev["st"]["v"]], f, k2, got, want),
                      {"script": ["lmodel 0"] + model_lines(ev) + ["end", "ldata 0 0"] + opts + body, "field": f, "index": k2,
                       "want": [want.numerator, want.denominator] if want is not None else None, "exact": is_exact(ev)})
    ctx.cov["exhaustive"] = all(out[n][0].finished for n in ("mc", "pair") if out[n])
    ctx.cov["rule"] = ("every completed evaluation of the exhaustive run(s) %s%s (%d cases) + %d simulated layouts with 2-3 "
                       "actuators on 1-2 joints, each replayed through mj_step from its state; compared: actuator_force, "
                       "qfrc_actuator, act_dot, act; non-trivial = some force or act_dot is non-zero; distinct = distinct "
                       "(model, options, state, controls)" % (jobs["mc"][1], (" / " + jobs["pair"][1]) if jobs["pair"][1] else "",
                                                               len(evs), len(sims)))


def replay(ctx, rp):
    exe = L.harness()
    d = rp["replay"]
    r = L.run_lines(exe, d["script"], timeout=120)
    obs = L.parse_obs(r.lines[-1]) if r.lines else None
    print("last output:", (r.lines[-1] if r.lines else r.crash_text())[:300])
    ctx.case({"replay": rp["signature"]})
    ctx.case({"replay": rp["signature"], "x": 1})
    if d.get("want") is None:
        if obs is None:
            ctx.violation(rp["signature"], rp["what"], d)
        return
    want = L.Fraction(d["want"][0], d["want"][1])
    got = obs.get(d["field"]) if obs else None
    print("field %s[%d]: want %s got %r" % (d["field"], d["index"], want, got))
    if not got or d["index"] >= len(got) or not L.close(got[d["index"]], want, d["exact"]):
        ctx.violation(rp["signature"], rp["what"], d)
