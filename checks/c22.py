"""C22 - sorting and selection utilities: Sort.tla decided by TLC, its returned calls replayed into the macros of
engine_sort.h (instantiated from the unmodified header) and mju_insertionSort(Int); recorded results of the
implementation validated against the definitions by SortTrace.tla."""
import os
import random
import re
import shutil

from vlib import build, tlc, drv
from vlib.check import Machinery, VERIF

TLA = os.path.join(VERIF, "tla")
SPEC = os.path.join(TLA, "Sort.tla")
JOPTS = ["-Xss512m"]          # the coded loops are recursive operators: depth = array length

META = dict(
    engine="tlc-replay",
    technique="TLA+ spec Sort.tla (coded run/merge, heap selection and insertion loops, one action per phase, with "
              "their loop invariants, checked by TLC against the definitions StableSorted / PartialSorted / "
              "SortedKeys); every call returned in TLC's exhaustive and simulated state spaces is replayed into "
              "mjSORT / mjPARTIAL_SORT instantiated from the unmodified header with _mjRUNSIZE 2, 3, 4 and 32 and "
              "into mju_insertionSort(Int); recorded results on random arrays are validated by SortTrace.tla",
    text="TLC proves on Sort.tla that the tiled merge sort is a stable sort, the heap selection returns the k smallest "
         "elements in order and the insertion sort sorts, for all arrays up to length 6..8 over 3 keys and every k, "
         "and on generated arrays up to length 200 with the header's run size; the real macros and functions are run "
         "on the same inputs and must return what the specification returned (tags, hence stability, included); "
         "results of the implementation on random arrays of length 0..200 are accepted by TLC only if they satisfy "
         "the definitions.",
    note="Trusted: TLC, harness sort_drv.cc (guard cells, element integrity), the comparator (keys only). The "
         "partial sort is compared on keys (ties may be resolved differently) and, through SortTrace.tla, on being "
         "k distinct input elements; k <= 0 and k > n are only run for memory safety. NaN keys are outside the "
         "input space of mju_insertionSort.",
    ref="DESIGN.md section 4 C22")


# ---------------------------------------------------------------------------------------------
# TLC output -> returned calls
# ---------------------------------------------------------------------------------------------
def parse_emitted(out, tag="EV"):
    """values printed by `PrintT(<<"EV", ev>>)` (pretty-printed over several lines)"""
    vals = []
    lines = out.split("\n")
    i = 0
    start = re.compile(r'^<<\s*"%s",' % tag)
    while i < len(lines):
        if not start.match(lines[i]):
            i += 1
            continue
        depth = 0
        buf = []
        while i < len(lines):
            ln = lines[i]
            buf.append(ln)
            depth += ln.count("<<") + ln.count("[") + ln.count("(") + ln.count("{")
            depth -= ln.count(">>") + ln.count("]") + ln.count(")") + ln.count("}")
            i += 1
            if depth <= 0:
                break
        v = tlc.parse_value(" ".join(buf))
        vals.append(v[1])
    # TLC's workers print in any order: fix the order (and drop repeats) so that every run is identical
    uniq = {}
    for v in vals:
        uniq[(v["op"], v["run"], v["k"], tuple(v["in"]))] = v
    return [uniq[k] for k in sorted(uniq)]


def csv(xs):
    return ",".join(str(x) for x in xs) if len(xs) else "-"


def cases_for(ev):
    """harness commands for one returned call of the specification: (command, expected line or key part, mode)"""
    keys = csv(ev["in"])
    n = len(ev["in"])
    if ev["op"] == "sort":
        want = "ok %s %s" % (csv(ev["out"]), csv(ev["outkeys"]))
        return [("sort %d %s" % (ev["run"], keys), want, "full"), ("sorti %d %s" % (ev["run"], keys), want, "full")]
    if ev["op"] == "psort":
        if 1 <= ev["k"] <= n:
            return [("psort %d %s" % (ev["k"], keys), csv(ev["outkeys"]), "keys")]
        return [("psort %d %s" % (ev["k"], keys), "ok - -", "full")]
    if ev["op"] == "isort":
        want = "ok - %s" % csv(ev["outkeys"])
        return [("isortd %s" % keys, want, "full"), ("isorti %s" % keys, want, "full")]
    raise Machinery("unknown op in ev: %r" % (ev,))


def verdict(cmd, want, mode, got):
    """None if the implementation's answer is the specification's; otherwise (class, text)"""
    if got is None:
        return "crash", "no answer (harness died)"
    if got.startswith("bad "):
        return got[4:].strip(), "harness integrity check failed: " + got
    if not got.startswith("ok "):
        return "protocol", "unexpected answer %r" % got
    if mode == "full":
        if got == want:
            return None
        gt, gk = got.split()[1:3]
        wt, wk = want.split()[1:3]
        if gk != wk:
            if sorted(gk.split(",")) != sorted(wk.split(",")):
                return "not-a-permutation", "keys %s, specification %s" % (gk, wk)
            return "not-sorted", "keys %s, specification %s" % (gk, wk)
        return "not-stable", "tags %s, specification %s" % (gt, wt)
    gk = got.split()[2]
    if gk == want:
        return None
    return "wrong-selection", "selected keys %s, specification %s" % (gk, want)


def runclass(cmd):
    t = cmd.split()
    if t[0] in ("sort", "sorti"):
        return "%s:run=%s" % (t[0], t[1])
    if t[0] == "psort":
        return "psort"
    return t[0]


def emit_run(ctx, name, cfg, need, **kw):
    res = tlc.run(SPEC, cfg, java_opts=JOPTS, **kw)
    ctx.tlc_ok(res, name, need_actions=need)
    evs = parse_emitted(res.out)
    if not evs:
        raise Machinery("TLC run %s emitted no returned call" % name)
    return res, evs


def seed_cfg(ctx, seeds, lens):
    """Sort_Seed.cfg with the seed / length family of this run (module constants cannot be set from a cfg, so the
    family is selected through a generated model module extending Sort)"""
    d = os.path.join(VERIF, ".cache", "c22-%d" % os.getpid())
    os.makedirs(d, exist_ok=True)
    mod = "SortSeedRun"
    with open(os.path.join(d, "Sort.tla"), "w") as f:
        f.write(open(SPEC).read())
    with open(os.path.join(d, mod + ".tla"), "w") as f:
        f.write("---- MODULE %s ----\nEXTENDS Sort\nRunSeeds == {%s}\nRunLens == {%s}\n====\n" % (
            mod, ", ".join(str(s) for s in seeds), ", ".join(str(x) for x in lens)))
    cfg = open(os.path.join(TLA, "Sort_Seed.cfg")).read().replace("MC_Seeds", "RunSeeds").replace("MC_SeedLens", "RunLens")
    with open(os.path.join(d, mod + ".cfg"), "w") as f:
        f.write(cfg)
    return os.path.join(d, mod + ".tla"), os.path.join(d, mod + ".cfg")


def run(ctx):
    exe = build.build_harness("sort_drv", [os.path.join(VERIF, "harness", "sort_drv.cc")])
    ctx.assume("keys are small integers (no NaN); the comparator is a total preorder on keys",
               "mjSORT is instantiated from the unmodified header with _mjRUNSIZE 2, 3, 4 and 32, element types "
               "int and a 24-byte struct",
               "partial sort: only arr[0..k) is claimed; k <= 0 and k > n are run for memory safety only")
    rng = random.Random(ctx.seed * 7919 + 22)
    evs = []
    # 1. exhaustive: all arrays up to MaxLen over 3 keys, every op, every k, RUN 2/3/4 (design check + oracle)
    res_mc, e = emit_run(ctx, "Sort_MC", os.path.join(TLA, "Sort_MC.cfg" if ctx.quick else "Sort_MC7.cfg"),
                         ["RunSort", "MergeStep", "PassDone", "SortReturn", "PartialNoop", "PartialFill",
                          "PartialScan", "PartialReturn", "InsertionCall"], coverage=True, timeout=900)
    evs += e
    n_mc = len(e)
    if not ctx.quick:
        # all arrays up to 8 over 3 keys, RUN = 2 (three merge passes, all tail shapes)
        res, e = emit_run(ctx, "Sort_Deep", os.path.join(TLA, "Sort_Deep.cfg"), [], timeout=1800)
        evs += e
    # 2. generated arrays of length 30..200 with the header's run size (exhaustive over the family)
    seeds = [ctx.seed * 50 + i for i in range(1, (3 if ctx.quick else 13))]
    lens = [30, 32, 33, 64, 65, 100, 129, 200] if ctx.quick else [30, 31, 32, 33, 63, 64, 65, 96, 100, 128, 129, 150, 200]
    sspec, scfg = seed_cfg(ctx, seeds, lens)
    try:
        res = tlc.run(sspec, scfg, java_opts=JOPTS, timeout=1800)
    finally:
        shutil.rmtree(os.path.dirname(sspec), ignore_errors=True)
    ctx.tlc_ok(res, "Sort_Seed")
    e = parse_emitted(res.out)
    if len(e) < len(seeds) * len(lens):
        raise Machinery("Sort_Seed emitted too few returned calls")
    evs += e
    # 3. simulation: arrays of length 9..24 built key by key, RUN 2/3/4
    nsim = 300 if ctx.quick else 4000
    res = tlc.run(SPEC, os.path.join(TLA, "Sort_Sim.cfg"), simulate="num=%d" % nsim, depth=100, seed=ctx.seed + 1,
                  workers=1, java_opts=JOPTS, timeout=1800)
    ctx.tlc_ok(res, "Sort_Sim")
    e = parse_emitted(res.out)
    if len(e) < nsim // 2:
        raise Machinery("Sort_Sim emitted too few returned calls (%d)" % len(e))
    evs += e

    # ---- replay (spec -> code)
    cmds, exps = [], []
    for ev in evs:
        for c in cases_for(ev):
            cmds.append(c[0])
            exps.append(c)
    r = drv.run_script(exe, cmds, timeout=900)
    got = r.lines + [None] * (len(cmds) - len(r.lines))
    # negative controls: a perturbed expectation (two tied elements swapped; one key changed) must be flagged
    ctl_tie = ctl_key = False
    for (cmd, want, mode), g in zip(exps, got):
        if mode == "full" and cmd.startswith("sort ") and g == want and not ctl_tie:
            tags = want.split()[1].split(",")
            ks = want.split()[2].split(",")
            for i in range(len(ks) - 1):
                if ks[i] == ks[i + 1]:
                    t2 = list(tags)
                    t2[i], t2[i + 1] = t2[i + 1], t2[i]
                    v = verdict(cmd, "ok %s %s" % (",".join(t2), ",".join(ks)), mode, g)
                    ctl_tie = v is not None and v[0] == "not-stable"
                    break
        if mode == "keys" and g is not None and not ctl_key and want != "-":
            ks = want.split(",")
            ks[-1] = str(int(ks[-1]) + 1)
            ctl_key = verdict(cmd, ",".join(ks), mode, g) is not None
        if ctl_tie and ctl_key:
            break
    ctx.control("swapping two tied elements in the expected output is flagged as not-stable", ctl_tie)
    ctx.control("a changed key in the expected selection is flagged", ctl_key)
    nbad = 0
    for (cmd, want, mode), g in zip(exps, got):
        t = cmd.split()
        keys = t[-1]
        n = 0 if keys == "-" else keys.count(",") + 1
        ctx.case(cmd, nontrivial=n >= 2, sample={"cmd": cmd[:80], "spec": want[:80]})
        v = verdict(cmd, want, mode, g)
        if v is None:
            ctx.trace_ok()
            continue
        nbad += 1
        if r.crashed and g is None:
            v = ("crash", "harness died: " + r.crash_text())
        ctx.violation("%s:%s" % (runclass(cmd), v[0]),
                      "%s on n=%d: %s" % (cmd[:200], n, v[1][:300]),
                      {"cmd": cmd, "want": want, "mode": mode})
    # ---- trace validation (code -> spec): random arrays, results recorded from the implementation
    ntr = 300 if ctx.quick else 2500
    tcmds, recs = [], []
    for i in range(ntr):
        n = rng.choice([0, 1, 2, 3, 5, 8, 13, 31, 32, 33, 47, 64, 65, 90]) if i % 4 else rng.randint(0, 130)
        nk = rng.choice([1, 2, 3, 7])
        keys = [rng.randrange(nk) for _ in range(n)]
        op = rng.choice(["sort", "sort", "psort", "psort", "isort"])
        if op == "sort":
            run_ = rng.choice([2, 3, 4, 32, 32, 32])
            tcmds.append("sort %d %s" % (run_, csv(keys)))
            recs.append({"op": "sort", "run": run_, "k": 0, "in": keys})
        elif op == "psort":
            k = rng.choice([1, n, max(1, n // 2), rng.randint(1, max(1, n))]) if n else 0
            k = min(k, 40)
            tcmds.append("psort %d %s" % (k, csv(keys)))
            recs.append({"op": "psort", "run": 2, "k": k, "in": keys})
        else:
            tcmds.append("%s %s" % (rng.choice(["isortd", "isorti"]), csv(keys)))
            recs.append({"op": "isort", "run": 2, "k": 0, "in": keys})
    r2 = drv.run_script(exe, tcmds, timeout=600)
    traces, tix = [], []
    for i, rec in enumerate(recs):
        g = r2.lines[i] if i < len(r2.lines) else None
        if g is None or not g.startswith("ok "):
            ctx.case(tcmds[i])
            ctx.violation("%s:%s" % (runclass(tcmds[i]), "crash" if g is None else g[4:].strip()),
                          "%s: %s" % (tcmds[i][:200], g), {"cmd": tcmds[i], "want": "", "mode": "trace"})
            continue
        tg, kg = g.split()[1:3]
        rec = dict(rec, out=[] if tg == "-" else [int(x) for x in tg.split(",")],
                   outkeys=[] if kg == "-" else [int(x) for x in kg.split(",")])
        traces.append([rec])
        tix.append(i)
    # negative controls inside the same batch: an unstable result, and a selection that misses a smaller element
    ctl = []
    for tr in traces:
        rec = tr[0]
        if rec["op"] == "sort" and len(ctl) == 0:
            ks = rec["outkeys"]
            for j in range(len(ks) - 1):
                if ks[j] == ks[j + 1]:
                    o = list(rec["out"])
                    o[j], o[j + 1] = o[j + 1], o[j]
                    ctl.append([dict(rec, out=o)])
                    break
        if rec["op"] == "psort" and len(ctl) == 1 and 1 <= rec["k"] < len(rec["in"]):
            mx = max(range(len(rec["in"])), key=lambda t: rec["in"][t])
            if rec["in"][mx] > rec["outkeys"][-1] and mx not in rec["out"]:
                o = list(rec["out"])
                ok = list(rec["outkeys"])
                o[-1], ok[-1] = mx, rec["in"][mx]
                ctl.append([dict(rec, out=o, outkeys=ok)])
        if len(ctl) == 2:
            break
    res, verd = tlc.validate_traces(os.path.join(TLA, "SortTrace.tla"), os.path.join(TLA, "SortTrace.cfg"),
                                    traces + ctl, timeout=1800, env={"JAVA_TOOL_OPTIONS": "-Xss512m"})
    if res.error and "Postcondition Report" in res.error and len(verd) == len(traces) + len(ctl):
        res.error = None            # rejected traces make the post-condition false: the verdicts are the result
        res.finished = True
    ctx.tlc_ok(res, "SortTrace")
    if len(verd) != len(traces) + len(ctl):
        raise Machinery("SortTrace returned %d verdicts for %d traces" % (len(verd), len(traces) + len(ctl)))
    ctx.control("SortTrace rejects a recorded result with two tied elements swapped / a selection missing a smaller "
                "element", len(ctl) == 2 and all(verd[len(traces) + j + 1][0] == 0 for j in range(len(ctl))))
    for j, i in enumerate(tix):
        reached, ln = verd[j + 1]
        rec = traces[j][0]
        ctx.case("trace " + tcmds[i], nontrivial=len(rec["in"]) >= 2)
        if reached == ln:
            ctx.trace_ok()
        else:
            ctx.violation("%s:rejected-by-definition" % runclass(tcmds[i]),
                          "%s returned tags %s keys %s: not accepted by SortTrace.tla (%s)" % (
                              tcmds[i][:200], rec["out"][:40], rec["outkeys"][:40],
                              {"sort": "StableSorted", "psort": "PartialSorted", "isort": "SortedKeys"}[rec["op"]]),
                          {"cmd": tcmds[i], "want": "", "mode": "trace"})
    ctx.cov["exhaustive"] = bool(res_mc.finished)
    ctx.cov["rule"] = ("cases = every call returned in TLC's state spaces (exhaustive: all arrays of length <= %d over 3 keys "
                       "x {sort RUN 2,3,4; partial sort every k in 0..n+1; insertion sort} = %d calls%s; generated arrays of "
                       "length 30..200 with RUN 32; %d simulated calls on lengths 9..24), each run on both element types / "
                       "both insertion sorts, plus %d recorded calls on random arrays validated by SortTrace.tla; "
                       "non-trivial = length >= 2; distinct = distinct harness commands" % (
                           6 if ctx.quick else 7, n_mc, "" if ctx.quick else "; all arrays <= 8 with RUN 2", nsim, len(traces)))


def replay(ctx, rp):
    exe = build.build_harness("sort_drv", [os.path.join(VERIF, "harness", "sort_drv.cc")])
    q = rp["replay"]
    r = drv.run_script(exe, [q["cmd"]])
    g = r.lines[0] if r.lines else None
    print("%s -> %s (specification: %s)" % (q["cmd"][:200], g, q["want"][:200]))
    ctx.case({"replay": q["cmd"]})
    ctx.case({"replay": q["cmd"], "x": 1})
    if q["mode"] == "trace":
        if g is None or not g.startswith("ok "):
            ctx.violation(rp["signature"], rp["what"], q)
            return
        t = q["cmd"].split()
        tg, kg = g.split()[1:3]
        keys = [] if t[-1] == "-" else [int(x) for x in t[-1].split(",")]
        op = {"sort": "sort", "sorti": "sort", "psort": "psort", "isortd": "isort", "isorti": "isort"}[t[0]]
        rec = {"op": op, "run": int(t[1]) if op == "sort" else 2, "k": int(t[1]) if op == "psort" else 0, "in": keys,
               "out": [] if tg == "-" else [int(x) for x in tg.split(",")],
               "outkeys": [] if kg == "-" else [int(x) for x in kg.split(",")]}
        res, verd = tlc.validate_traces(os.path.join(TLA, "SortTrace.tla"), os.path.join(TLA, "SortTrace.cfg"),
                                        [[rec]], timeout=600, env={"JAVA_TOOL_OPTIONS": "-Xss512m"})
        if verd.get(1, (0, 1))[0] != 1:
            ctx.violation(rp["signature"], rp["what"], q)
        return
    if verdict(q["cmd"], q["want"], q["mode"], g) is not None:
        ctx.violation(rp["signature"], rp["what"], q)
