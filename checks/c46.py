"""C46 - bounded least squares: recorded solves of python/mujoco/minimize.py validated against LeastSquares.tla
(trace validation, order keys for doubles) on TLC-chosen rational problems (LsqLattice.tla) whose exact
bounded optimum comes from the specification."""
import importlib.util
import io
import os
import re
from fractions import Fraction

import numpy as np

from vlib import build, tlc
from vlib.check import Machinery, VERIF
from checks import simparse

TLA = os.path.join(VERIF, "tla")

META = dict(
    engine="tlc-trace",
    technique="code->spec trace validation: every residual call, IterLog and the returned point of least_squares are "
              "recorded (doubles as order-preserving rank keys) and validated by TLC against LeastSquares.tla "
              "(LeastSquaresTrace.tla, one JVM per batch); problems (bounds, start, x_scale, residual family, "
              "jacobian mode) are enumerated / simulated by TLC from LsqLattice.tla, which also supplies the exact "
              "rational bounded optimum of the linear families",
    text="TLC model-checks the solver protocol LeastSquares.tla (evaluations inside the box, non-increasing trace, "
         "returned point inside and no worse than the clipped start) and the problem lattice LsqLattice.tla "
         "(optimum feasible and minimal over the lattice); each recorded solve of minimize.least_squares on the "
         "working tree must be a behaviour of LeastSquares.tla and, for linear residuals, return ev.opt to 1e-6.",
    note="Trusted: TLC, the rank encoding of doubles (monotone), the rendering of rational problems to float64, the "
         "wheel's mju_boxQP used by minimize.py. Residual families: separable linear, sheared linear (n=2), "
         "quadratic, Rosenbrock-like; n <= 3; box widths >= 1/8 (far above the finite-difference step).",
    ref="DESIGN.md section 4 C46")

_mz = None


def load_minimize():
    global _mz
    if _mz is None:
        p = os.path.join(build.REPO, "python", "mujoco", "minimize.py")
        if not os.path.exists(p):
            raise Machinery("missing " + p)
        spec = importlib.util.spec_from_file_location("verif_repo_minimize", p)
        _mz = importlib.util.module_from_spec(spec)
        spec.loader.exec_module(_mz)
    return _mz


# ---- rendering a specification problem ----------------------------------------------------------------------
def fr(r):
    return Fraction(int(r[0]), int(r[1]))


EPS = np.float64(np.finfo(np.float64).eps ** 0.5)       # least_squares' default finite-difference step (2^-26)


def fd_step(x):
    """the relative step jacobian_fd takes at x (the symbolic unit h(x) of LsqLattice.tla)"""
    return float(EPS * max(1.0, abs(x)))


class Problem:
    def __init__(self, ev):
        h = ev["head"]
        cs = ev["coords"]
        self.ev = ev
        self.api = h["api"]
        self.fam, self.n, self.mode, self.jacmode, self.maxit = h["fam"], h["n"], h["mode"], h["jac"], h["maxit"]
        self.t = float(fr(h["t"]))
        f = lambda k: np.array([float(fr(c[k])) for c in cs], dtype=np.float64)   # noqa: E731
        self.lo, self.c, self.a, self.s = f("lo"), f("c"), f("a"), f("s")
        hi, x0, self.cls = [], [], []
        for i, c in enumerate(cs):
            lo = float(self.lo[i])
            w = fr(c["w"])
            up = float(fr(c["hi"])) if w == 0 else lo + float(w) * fd_step(lo)
            at, k = c["x0"][0], fr(c["x0"][1])
            if at == "abs":
                x = float(k)
            elif at == "lo":
                x = lo + float(k) * fd_step(lo)
            elif at == "hi":
                x = up - float(k) * fd_step(up)
            else:
                mid = 0.5 * lo + 0.5 * up
                x = mid + float(k) * fd_step(mid)
            hi.append(up)
            x0.append(x)
            # class of this coordinate for the vacuity guards: side, distance in steps, magnitude, narrow box
            self.cls.append((at, float(k), abs(x) > 1.0, w != 0))
        self.hi, self.x0 = np.array(hi, dtype=np.float64), np.array(x0, dtype=np.float64)
        self.opt = [fr(o) for o in ev["opt"]] if ev["hasopt"] else None
        if self.mode == "none":
            self.x_scale = None
        elif self.mode == "scalar":
            self.x_scale = float(self.s[0])
        elif self.mode == "vector":
            self.x_scale = self.s.copy()
        else:
            self.x_scale = "jac"

    def key(self):
        return tlc.to_py({"head": self.ev["head"], "coords": self.ev["coords"]})

    def residual(self, x):
        """vectorised: x is (n, k)"""
        a, c = self.a[:, None], self.c[:, None]
        if self.fam == "lin":
            return a * (x - c)
        if self.fam == "shear":
            d = x - c
            return np.vstack([a[0] * (d[0] + self.t * d[1]), a[1] * d[1]])
        if self.fam == "quad":
            return a * (x * x - c)
        rows = [c[0] - x[0]]
        for i in range(1, self.n):
            rows.append(10.0 * a[i] * (x[i] - x[i - 1] * x[i - 1]))
        return np.vstack(rows)

    def jacobian(self, x, r):
        x = x.reshape(-1)
        n = self.n
        J = np.zeros((n, n))
        if self.fam == "lin":
            J[np.arange(n), np.arange(n)] = self.a
        elif self.fam == "shear":
            J[0, 0], J[0, 1], J[1, 1] = self.a[0], self.a[0] * self.t, self.a[1]
        elif self.fam == "quad":
            J[np.arange(n), np.arange(n)] = 2.0 * self.a * x
        else:
            J[0, 0] = -1.0
            for i in range(1, n):
                J[i, i] = 10.0 * self.a[i]
                J[i, i - 1] = -20.0 * self.a[i] * x[i - 1]
        return J


def solve(prob, sabotage=None):
    """run least_squares (or one direct jacobian_fd call), return (raw event list with doubles, returned x)"""
    mz = load_minimize()
    quad = mz.Quadratic()
    raw = []
    xs = np.clip(prob.x0, prob.lo, prob.hi)
    y0 = quad.value(prob.residual(xs.reshape(-1, 1)))
    raw.append(("start", prob.lo.copy(), prob.hi.copy(), float(y0)))

    def res(x):
        raw.append(("eval", np.array(x, dtype=np.float64, copy=True)))
        return prob.residual(x)

    if prob.api == "jacobian_fd":
        x = prob.x0.reshape(-1, 1).copy()
        if np.any(x < prob.lo.reshape(-1, 1)) or np.any(x > prob.hi.reshape(-1, 1)):
            raise Machinery("jacobian_fd problem with an infeasible point (rendering): %r" % (prob.key(),))
        r = prob.residual(x)
        mz.jacobian_fd(res, x, r, EPS, 0, [prob.lo.reshape(-1, 1).copy(), prob.hi.reshape(-1, 1).copy()])
        return raw, prob.x0.copy()

    def cb(trace):
        raw.append(("iterc", np.array(trace[-1].candidate, dtype=np.float64).reshape(-1).copy()))
        raw.append(("itery", float(trace[-1].objective)))

    kw = {}
    if prob.jacmode == "user":
        kw["jacobian"] = prob.jacobian
    x, _trace = mz.least_squares(prob.x0.copy(), res, [prob.lo.copy(), prob.hi.copy()], x_scale=prob.x_scale,
                                 max_iter=prob.maxit, verbose=0, output=io.StringIO(), iter_callback=cb, **kw)
    x = np.asarray(x, dtype=np.float64).reshape(-1)
    raw.append(("retx", x.copy()))
    raw.append(("rety", float(quad.value(prob.residual(x.reshape(-1, 1))))))
    return raw, x


def encode(raw):
    """doubles -> dense ranks (order keys); coordinates/bounds and objectives have separate key spaces"""
    cv, ov = {-np.inf, np.inf}, set()
    for e in raw:
        if e[0] == "start":
            cv.update(e[1].tolist())
            cv.update(e[2].tolist())
            ov.add(e[3])
        elif e[0] in ("eval", "iterc", "retx"):
            cv.update(np.asarray(e[1]).reshape(-1).tolist())
        else:
            ov.add(e[1])
    if any(v != v for v in cv) or any(v != v for v in ov):
        raise Machinery("NaN in a recorded solve")
    ck = {v: i for i, v in enumerate(sorted(cv))}
    ok = {v: i for i, v in enumerate(sorted(ov))}
    out = []
    for e in raw:
        if e[0] == "start":
            out.append({"op": "start", "lo": [ck[v] for v in e[1].tolist()], "hi": [ck[v] for v in e[2].tolist()],
                        "y0": ok[e[3]]})
        elif e[0] == "eval":
            out.append({"op": "eval", "pts": [[ck[v] for v in col] for col in e[1].T.tolist()]})
        elif e[0] == "iterc":
            out.append({"op": "iterc", "c": [ck[v] for v in e[1].tolist()]})
        elif e[0] == "retx":
            out.append({"op": "retx", "x": [ck[v] for v in e[1].tolist()]})
        else:
            out.append({"op": e[0], "y": ok[e[1]]})
    return out


CODE = {1: "eval", 2: "iterc", 3: "itery", 4: "retx", 5: "rety"}
CLAUSE = {"eval": "eval-outside-bounds", "iterc": "trace-candidate-outside-bounds",
          "itery": "trace-objective-increased", "retx": "returned-point-outside-bounds",
          "rety": "returned-objective-worse-than-clipped-start"}


def excursion_class(prob, raw, pos):
    """names the input class only (the verdict is TLC's): a rounding-size or a finite-difference-step-size excursion"""
    e = raw[pos]
    if e[0] not in ("eval", "iterc", "retx"):
        return ""
    pts = np.asarray(e[1]).reshape(prob.n, -1)
    worst, wi = 0.0, 0
    for i in range(prob.n):
        for v in pts[i]:
            ex = 0.0
            if v < prob.lo[i]:
                ex = (prob.lo[i] - v) / np.spacing(abs(prob.lo[i]))
            elif v > prob.hi[i]:
                ex = (v - prob.hi[i]) / np.spacing(abs(prob.hi[i]))
            if ex > worst:
                worst, wi = ex, i
    return (":fd-step" if worst > 16 else "") + (":narrow-box" if prob.cls[wi][3] else "")


def describe(prob, raw, pos):
    e = raw[pos]
    head = "%s %s n=%d x_scale=%r jac=%s max_iter=%d lo=%r hi=%r x0=%r c=%s a=%s" % (
        prob.api, prob.fam, prob.n, prob.x_scale if prob.mode != "vector" else prob.x_scale.tolist(), prob.jacmode, prob.maxit,
        prob.lo.tolist(), prob.hi.tolist(), prob.x0.tolist(), prob.c.tolist(), prob.a.tolist())
    if e[0] in ("eval", "iterc", "retx"):
        pts = np.asarray(e[1]).reshape(prob.n, -1)
        bad = []
        for k in range(pts.shape[1]):
            for i in range(prob.n):
                v = pts[i, k]
                if v < prob.lo[i] or v > prob.hi[i]:
                    b = prob.lo[i] if v < prob.lo[i] else prob.hi[i]
                    bad.append("x[%d]=%r %s bound %r (%.3g ulp)" % (i, float(v), "<" if v < b else ">", float(b),
                                                                   abs(v - b) / np.spacing(abs(b))))
        return "%s event #%d: %s; problem %s" % (e[0], pos, "; ".join(bad[:3]), head)
    if e[0] == "itery":
        prev = [x[1] for x in raw[:pos] if x[0] == "itery"]
        return "trace objective rose from %r to %r; problem %s" % (prev[-1] if prev else None, e[1], head)
    if e[0] == "rety":
        return "objective at the returned point %r > objective at the clipped start %r; problem %s" % (e[1], raw[0][3], head)
    return "event %r; problem %s" % (e[0], head)


def validate(ctx, batch, name):
    """batch = list of encoded traces; returns {index: [positions of events whose clause failed]}; an event that
    no action (lawful or twin) can consume is a malformed trace = machinery failure"""
    res, verdicts = tlc.validate_traces(os.path.join(TLA, "LeastSquaresTrace.tla"),
                                        os.path.join(TLA, "LeastSquaresTrace.cfg"), batch, timeout=3000)
    # the post-condition fails when some trace is rejected: that is a verdict, not a spec error
    if res.error and "ostcondition" in res.error:
        res.error = None
        res.finished = True
    if res.violation and "ostcondition" in res.violation:
        res.violation = None
    ctx.tlc_ok(res, name)
    if len(verdicts) != len(batch):
        raise Machinery("trace validation returned %d verdicts for %d traces\n%s" % (len(verdicts), len(batch),
                                                                                  res.out[-2000:]))
    bad = {}
    for m in re.finditer(r'<<"BAD", (\d+), (\d+), (\d+)>>', res.out):
        bad.setdefault(int(m.group(1)) - 1, []).append((int(m.group(2)) - 1, int(m.group(3))))
    out = {}
    for t, (reached, ln) in verdicts.items():
        if ln != len(batch[t - 1]):
            raise Machinery("verdict length mismatch")
        b = sorted(bad.get(t - 1, []))
        if reached != ln and (not b or b[0][0] != reached):
            raise Machinery("trace %d: event %d (%r) matches no action of LeastSquaresTrace" % (
                t, reached, batch[t - 1][reached]["op"]))
        for pos, code in b:
            if CODE[code] != batch[t - 1][pos]["op"]:
                raise Machinery("clause code mismatch")
        out[t - 1] = [pos for pos, _c in b]
    return out


TOL = Fraction(1, 10 ** 6)


def opt_err(x, opt):
    return max(abs(Fraction(float(x[i])) - opt[i]) for i in range(len(opt)))


CLEAN = [{"op": "start", "lo": [1, 0], "hi": [3, 2], "y0": 2}, {"op": "eval", "pts": [[2, 1]]},
         {"op": "eval", "pts": [[3, 1], [2, 2]]}, {"op": "eval", "pts": [[1, 1]]}, {"op": "iterc", "c": [2, 1]},
         {"op": "itery", "y": 2}, {"op": "eval", "pts": [[1, 0], [1, 2]]}, {"op": "iterc", "c": [1, 1]},
         {"op": "itery", "y": 1}, {"op": "retx", "x": [1, 1]}, {"op": "rety", "y": 1}]


def control_traces():
    """synthetic solves (independent of the implementation): a lawful one and single-field corruptions of it"""
    def mut(k, e):
        t = [dict(x) for x in CLEAN]
        t[k] = e
        return t
    return [("a lawful synthetic solve is accepted", CLEAN, []),
            ("evaluation above the upper bound is rejected", mut(2, {"op": "eval", "pts": [[3, 1], [2, 3]]}), [2]),
            ("evaluation below the lower bound is rejected", mut(3, {"op": "eval", "pts": [[0, 1]]}), [3]),
            ("trace candidate outside the box is rejected", mut(7, {"op": "iterc", "c": [4, 1]}), [7]),
            ("increasing trace objective is rejected", mut(8, {"op": "itery", "y": 3}), [8]),
            ("returned point outside the box is rejected", mut(9, {"op": "retx", "x": [1, 3]}), [9]),
            ("returned objective above the clipped start's is rejected", mut(10, {"op": "rety", "y": 3}), [10])]


def check_problems(ctx, probs, label, controls=False):
    raws, encs = [], []
    for p in probs:
        try:
            raw, x = solve(p)
        except Machinery:
            raise
        except Exception as e:       # a valid problem must be solved, not raise
            ctx.case(p.key(), nontrivial=True)
            ctx.violation("raised:%s" % type(e).__name__, "least_squares raised %r; problem %s" % (e, p.key()),
                          {"problem": tlc.to_py(p.ev), "event": -2})
            raw, x = [("start", p.lo.copy(), p.hi.copy(), 0.0)], None
        raws.append((raw, x))
        encs.append(encode(raw))
    batch = list(encs)
    ctl = control_traces() if controls else []
    batch += [t for (_n, t, _w) in ctl]
    verd = validate(ctx, batch, "LeastSquaresTrace(%s)" % label)
    for j, (nm, _t, want) in enumerate(ctl):
        ctx.control("trace spec: " + nm, verd[len(probs) + j] == want)
    rejected = {pi: verd[pi] for pi in range(len(probs)) if verd[pi]}
    for pi, p in enumerate(probs):
        raw, x = raws[pi]
        if x is None:
            continue
        nontriv = sum(1 for e in raw if e[0] == "eval") >= 2
        ctx.case(p.key(), nontrivial=nontriv,
                 sample={"fam": p.fam, "n": p.n, "x_scale": p.mode, "jac": p.jacmode, "events": len(raw)})
        bad = False
        for pos in rejected.get(pi, []):
            kind = raw[pos][0]
            if kind == "start":
                raise Machinery("start event rejected: " + describe(p, raw, pos))
            bad = True
            ctx.violation("%s:%s%s" % (CLAUSE[kind], "jacobian_fd" if p.api == "jacobian_fd" else
                                       ("unscaled" if p.mode == "none" else "x_scale"), excursion_class(p, raw, pos)),
                          describe(p, raw, pos), {"problem": tlc.to_py(p.ev), "event": pos})
        if p.opt is not None and p.maxit >= 40:
            if opt_err(x, p.opt) > TOL:
                bad = True
                ctx.violation("linear-optimum-missed:%s:%s" % (p.fam, "unscaled" if p.mode == "none" else "x_scale"),
                              "returned %s, bounded optimum (LsqLattice.tla) %s; %s" % (
                                  x.tolist(), [str(o) for o in p.opt], describe(p, raw, 0)),
                              {"problem": tlc.to_py(p.ev), "event": -1})
        if not bad:
            ctx.trace_ok()
    return raws


def problems_of(states):
    out = []
    for st in states:
        if st.get("stage") == "done" and st["ev"]["op"] == "problem":
            out.append(Problem(st["ev"]))
    return out


def run(ctx):
    load_minimize()
    ctx.assume("doubles enter the specification as dense rank keys (order and equality preserved)",
               "rational problem data are rendered to the nearest float64; the optimum is compared to 1e-6 absolute",
               "boxes are at least 1/8 wide (the property requires them wider than the finite-difference step)",
               "the objective at the clipped start and at the returned point are evaluated by the harness with the "
               "module's own Quadratic norm")
    # 1. the protocol and the problem lattice, model-checked
    res = tlc.run(os.path.join(TLA, "LeastSquares.tla"),
                  os.path.join(TLA, "LeastSquares_MC.cfg" if ctx.quick else "LeastSquares_Deep.cfg"),
                  coverage=ctx.quick, timeout=1500)
    ctx.tlc_ok(res, "LeastSquares", need_actions=["NStart", "NEval1", "NEval2", "NIterC", "NIterY", "NRetX", "NRetY"])
    lat = os.path.join(TLA, "LsqLattice.tla")
    res, states = tlc.dump_states(lat, os.path.join(TLA, "LsqLattice_MC.cfg" if ctx.quick else "LsqLattice_Deep.cfg"),
                                  timeout=1500)
    ctx.tlc_ok(res, "LsqLattice(exhaustive n=1)")
    exhaustive = res.finished
    probs = problems_of(states)
    # the finite-difference dimension: start points 0, 1/2, 1, 2 relative steps from either bound, |x| <1, 1, >1, large,
    # boxes 1.5 - 3 steps wide; least_squares and direct jacobian_fd calls
    res, states = tlc.dump_states(lat, os.path.join(TLA, "LsqLattice_Near.cfg" if ctx.quick else "LsqLattice_NearDeep.cfg"),
                                  timeout=1500)
    ctx.tlc_ok(res, "LsqLattice(finite-difference dimension, n=1)")
    exhaustive = exhaustive and res.finished
    near = problems_of(states)
    probs += near
    nex = len(probs)
    res, sims = simparse.simulate(lat, os.path.join(TLA, "LsqLattice_Sim.cfg"), num=400 if ctx.quick else 8000,
                                  depth=16, seed=ctx.seed + 1, timeout=1500)
    ctx.tlc_ok(res, "LsqLattice_Sim")
    seen = set()
    for b in sims:
        for p in problems_of([b[-1][1]]):
            k = repr(p.key())
            if k not in seen:
                seen.add(k)
                probs.append(p)
    if nex < 1000 or len(probs) - nex < 100:
        raise Machinery("too few problems: %d exhaustive, %d simulated" % (nex, len(probs) - nex))
    probs.sort(key=lambda p: repr(p.key()))
    # vacuity: the near-bound classes with |x| > 1 were exercised through both entry points
    guard = {}
    for p in probs:
        if p.jacmode != "fd":
            continue
        for (at, k, big, narrow) in p.cls:
            if at in ("lo", "hi") and big and not narrow and 0 < k < 1:
                guard[(p.api, at, "<1 step")] = guard.get((p.api, at, "<1 step"), 0) + 1
            if at in ("lo", "hi") and big and not narrow and k == 1:
                guard[(p.api, at, "1 step")] = guard.get((p.api, at, "1 step"), 0) + 1
            if narrow:
                guard[(p.api, "narrow-box", "")] = guard.get((p.api, "narrow-box", ""), 0) + 1
    for api in ("least_squares", "jacobian_fd"):
        for cls in (("lo", "<1 step"), ("hi", "<1 step"), ("lo", "1 step"), ("hi", "1 step"), ("narrow-box", "")):
            if guard.get((api,) + cls, 0) < 4:
                raise Machinery("vacuity: class %s %s with |x| > 1 exercised only %d times for %s" % (
                    cls[0], cls[1], guard.get((api,) + cls, 0), api))
    ctx.cov["fd_step_classes"] = {"%s %s %s" % k: v for k, v in sorted(guard.items())}
    # 2. negative control on the optimum comparison (synthetic: independent of the implementation)
    lin = next(p for p in probs if p.fam == "lin" and p.maxit >= 40 and p.opt is not None)
    exact = np.array([float(o) for o in lin.opt])
    ctx.control("a returned point 2e-6 away from the specification's optimum is flagged",
                opt_err(exact + 2e-6, lin.opt) > TOL and opt_err(exact, lin.opt) <= TOL)
    # 3. record and validate
    chunk = 6000
    for off in range(0, len(probs), chunk):
        check_problems(ctx, probs[off:off + chunk], "batch %d" % (off // chunk), controls=(off == 0))
    ctx.cov["exhaustive"] = bool(exhaustive)
    ctx.cov["problems"] = {"exhaustive_n1": nex, "of_which_fd_dimension": len(near), "simulated_n=2..3": len(probs) - nex}
    ctx.cov["rule"] = ("problems = every n=1 problem of the LsqLattice configuration (%d) + %d distinct simulated problems "
                       "with n = 2..3 over the full rational sets; each solve is recorded (residual calls, IterLogs, "
                       "returned point) and validated by TLC against LeastSquares.tla; an event whose clause fails is consumed by the "
                       "twin V-step so later clauses are still examined; non-trivial = at least two "
                       "residual calls; distinct = distinct problems" % (nex, len(probs) - nex))


def replay(ctx, rp):
    load_minimize()
    p = Problem(rp["replay"]["problem"])
    ctx.case({"replay": rp["signature"]}, sample={"problem": rp["replay"]["problem"]["head"]})
    ctx.case({"replay": rp["signature"], "x": 1})
    n0 = len(ctx.violations)
    check_problems(ctx, [p], "replay")
    got = [v for v in ctx.violations[n0:]]
    ctx.violations[n0:] = [v for v in got if v["signature"] == rp["signature"]][:1]
    for v in got:
        print(v["signature"], "-", v["what"][:300])
    if not ctx.violations[n0:]:
        print("not reproduced")
