"""C50 - visualization scene construction: Scene.tla decided by TLC, every returned mjv_updateScene / mjv_addGeoms call
of the exhaustive runs and simulated call sequences replayed into the real visualizer on models built from the
specification's own model tables."""
import concurrent.futures as cf
import os

from vlib import build, tlc, drv
from vlib.check import Machinery, VERIF
from checks import tladump

TLA = os.path.join(VERIF, "tla")
SPEC = os.path.join(TLA, "Scene.tla")

META = dict(
    engine="tlc-replay",
    technique="TLA+ spec Scene.tla (scene buffer with capacity, fill level and sticky status; mjv_addGeoms as an "
              "element-by-element walk over the ordered geom sources with acquire / skip / overflow / release actions; "
              "models given as tables in the module with integer world poses computed by the specification) "
              "model-checked by TLC; every call returned in the exhaustive runs (every capacity 0..n+2 x every group "
              "mask x site masks x static flag x category masks) and in simulated sequences of makeScene / option "
              "change / move / update / addGeoms is replayed into mjv_updateScene / mjv_addGeoms on the compiled models",
    text="TLC decides on Scene.tla that the fill level never exceeds the capacity in any intermediate state of a call, "
         "that the status flag is set exactly if an acquisition has failed since the scene was made, that a finished "
         "call leaves the declaratively defined content (visible elements in model order cut at the capacity; "
         "ngeom = min(visible, capacity)), that with only geom groups enabled the scene holds exactly the geoms of "
         "enabled groups, and that the walk has no choice (deterministic). The real visualizer is run for every such "
         "call: ngeom, status, the overflow warning, object type/id/category/segid of every scene geom, its type, "
         "world position, orientation and size (from the specification's integer kinematics) must agree; a guard "
         "region behind the geom buffer must stay untouched and a second scene must come out bytewise identical.",
    note="Trusted: TLC, harness scene_drv.cc (guard region, field projection), the rendering of the model tables as "
         "mkmodel lines. All visualization flags except STATIC are off (decor sources, contacts, tendons, flexes, "
         "skins, labels, frames, perturbations are not modelled); infinite planes (re-centred on the camera) are "
         "outside the models. Named deviation AlphaSkip: an alpha-0 element takes part in the capacity test but "
         "is not kept (follows the code; the property text does not mention transparency).",
    ref="DESIGN.md section 4 C50")

GEOMTYPE = {"plane": 0, "sphere": 2, "capsule": 3, "ellipsoid": 4, "cylinder": 5, "box": 6}
TOLF = 2e-6          # scene geoms are float32


def q4(x):
    """quarter units of the specification -> model units"""
    return repr(x / 4.0)


def rot_kv(r):
    """orientation [axis, quarter turns] as an euler triple in degrees (one axis only, so the sequence is irrelevant)"""
    if r["k"] == 0:
        return ""
    return " alt_type=4 euler=%s" % ",".join(str(a * r["k"] * 90) for a in r["ax"])


def model_text(d):
    """mkmodel.h description of one model table of the specification"""
    L = ["option timestep=0.25 gravity=0,0,0", "compiler degree=1"]
    joints = []
    for name in d["order"]:
        b = d["bodies"][name]
        # explicit inertia: geoms whose group is outside 0..5 do not contribute to the inferred body mass
        L.append("body name=%s parent=%s pos=%s%s mocap=%d%s" % (
            name, b["parent"], ",".join(q4(x) for x in b["pos"]), rot_kv(b["rot"]), 1 if b["mocap"] else 0,
            " explicitinertial=1 mass=1 inertia=1,1,1" if b["joint"] == "slide" else ""))
        if b["joint"] == "slide":
            L.append("joint body=%s name=j_%s type=2 axis=0,0,1 group=%d" % (name, name, d["jgroups"][len(joints)]))
            joints.append("j_" + name)
    for kind in ("geom", "site"):
        for i, e in enumerate(d[kind + "s"]):
            size = list(e["size"]) + [0] * (3 - len(e["size"]))
            ln = "%s body=%s name=%s%d type=%d size=%s pos=%s%s group=%d rgba=0.5,0.5,0.5,%d" % (
                kind, e["body"], kind[0], i, GEOMTYPE[e["type"]], ",".join(q4(x) for x in size),
                ",".join(q4(x) for x in e["pos"]), rot_kv(e["rot"]), e["group"], e["alpha"])
            if kind == "geom":
                ln += " contype=0 conaffinity=0"
            L.append(ln)
    for i, t in enumerate(d["tendons"]):
        L.append("tendon name=t%d group=%d" % (i, t["group"]))
        L.append("wrapsite tendon=t%d site=s%d" % (i, t["s1"]))
        L.append("wrapsite tendon=t%d site=s%d" % (i, t["s2"]))
    for i, a in enumerate(d["acts"]):
        L.append("actuator name=a%d trntype=0 target=%s group=%d" % (i, joints[a["joint"]], a["group"]))
    return L


def bits(s):
    return sum(1 << int(g) for g in s)


SOURCEBIT = {"joint": 1, "tendon": 2, "actuator": 4}


def vopt_cmd(o):
    return "vopt %d %d %d %d %d %d %d" % (bits(o["gmask"]), bits(o["smask"]), 1 if o["static"] else 0, bits(o["jmask"]),
                                        bits(o["tmask"]), bits(o["amask"]), sum(SOURCEBIT[f] for f in o["flags"]))


def call_cmd(ev, slot):
    return "%s %d %d" % ("update" if ev["op"] == "update" else "addgeoms", slot, sum(ev["in"]["opt"]["cat"]))


def verdict(ev, got, defs):
    """compare the implementation's answer with the specification's ret; None or (class, text)"""
    if got is None:
        return "crash", "no answer (harness died)"
    if got.startswith("error") or "|" not in got:
        return "error", got[:160]
    head, _, tail = got.partition("|")
    h = head.split()
    ret = ev["ret"]
    inn = ev["in"]
    if h[3] != "1":
        return "guard", "geom buffer overrun: the guard region behind %d slots was written" % inn["cap"]
    if int(h[0]) != ret["ngeom"]:
        return "ngeom", "ngeom = %s, specification %d (capacity %d)" % (h[0], ret["ngeom"], inn["cap"])
    if int(h[1]) != ret["status"]:
        return "status", "status = %s, specification %d (capacity %d, ngeom %d)" % (h[1], ret["status"], inn["cap"], ret["ngeom"])
    if int(h[2]) != (1 if ret["warned"] else 0):
        return "warning", "%s warnings raised, specification %d" % (h[2], 1 if ret["warned"] else 0)
    if h[4] == "0":
        return "nondeterministic", "a second scene updated with the same model, data and options differs"
    items = [x for x in tail.strip().split(";") if x]
    if len(items) != len(ret["items"]):
        return "items", "%d geoms listed, specification %d" % (len(items), len(ret["items"]))
    key = (inn["model"], inn["qp"])
    if key not in defs["poses"]:
        raise Machinery("no pose table for %r" % (key,))
    poses = defs["poses"][key]
    n0 = len(inn["scene"]) if ev["op"] == "add" else 0
    for k, (it, want) in enumerate(zip(items, ret["items"])):
        f = it.split(",")
        kind, oid, cat = want
        if f[0] != kind or int(f[1]) != oid:
            return "content", "slot %d holds %s %s, specification %s %d" % (k, f[0], f[1], kind, oid)
        if int(f[2]) != cat:
            return "category", "slot %d (%s %d) has category %s, specification %d" % (k, kind, oid, f[2], cat)
        if int(f[3]) != k:
            return "segid", "slot %d has segid %s" % (k, f[3])
        if k < n0 or kind not in ("geom", "site"):
            continue                       # kept from before the call, or a connector whose shape is not modelled
        p = poses[kind][oid]
        if int(f[4]) != GEOMTYPE[p["type"]]:
            return "type", "slot %d (%s %d) has type %s, specification %s" % (k, kind, oid, f[4], p["type"])
        x = [float(v) for v in f[5:20]]
        wpos = [v / 4.0 for v in p["pos"]]
        wsize = [v / 4.0 for v in p["size"]]
        if max(abs(a - b) for a, b in zip(x[0:3], wpos)) > TOLF:
            return "pos", "%s %d at %s, specification %s (slide at %d)" % (kind, oid, x[0:3], wpos, inn["qp"])
        if max(abs(a - b) for a, b in zip(x[3:12], p["mat"])) > TOLF:
            return "mat", "%s %d orientation %s, specification %s" % (kind, oid, [round(v, 5) for v in x[3:12]], list(p["mat"]))
        if max(abs(a - b) for a, b in zip(x[12:15], wsize)) > TOLF:
            return "size", "%s %d (%s) size %s, specification %s" % (kind, oid, p["type"], x[12:15], wsize)
    return None


def feature(ev):
    inn, ret = ev["in"], ev["ret"]
    n = ret["ngeom"]
    return "%s:%s:%s" % (ev["op"], "cap0" if inn["cap"] == 0 else ("full" if n >= inn["cap"] else "room"),
                         "sticky" if inn["status"] else "fresh")


def run(ctx):
    exe = build.build_harness("scene_drv", [os.path.join(VERIF, "harness", "scene_drv.cc")],
                              extra=tladump.harness_digest_flag())
    ctx.assume("all visualization flags except STATIC (and JOINT / TENDON / ACTUATOR on the model with out-of-range groups) are "
               "off, label and frame modes are none, no perturbation: the geom sources are the model's geoms and sites, "
               "and on that model its spatial tendons, joints and actuators (identity and order only, not their shapes)",
               "models are the tables of Scene.tla (bodies with slide joint / welded / static / mocap; plane, box, "
               "sphere, capsule, cylinder, ellipsoid geoms; groups 0..5; alpha 0 or 1), positions in quarter units",
               "scene geoms are float32: positions, orientations and sizes are compared to 2e-6")
    nsim = 25 if ctx.quick else 600
    sel_vars = ("ev",)

    def sel(blk):
        return sel_vars if ('op |-> "update"' in blk or 'op |-> "add"' in blk) and 'pc = "idle"' in blk else None

    def simsel(act, blk):
        return sel_vars if act in ("Initial", "Init", "MakeScene", "DoMakeScene", "SetOpt", "DoSetOpt", "Move", "DoMove",
                                   "EndCall") else None
    jobs = {
        "Def": lambda: tlc.dump_states(SPEC, os.path.join(TLA, "Scene_Def.cfg"), workers=2, timeout=900),
        "MC": lambda: tladump.run_dump(SPEC, os.path.join(TLA, "Scene_MCQ.cfg" if ctx.quick else "Scene_MC.cfg"),
                                       timeout=2400, coverage=False, workers=6, select=sel),
        "MCB": lambda: tladump.run_dump(SPEC, os.path.join(TLA, "Scene_MCB.cfg"), timeout=2400, coverage=False,
                                        workers=4, select=sel),
        "MCD": lambda: tladump.run_dump(SPEC, os.path.join(TLA, "Scene_MCD.cfg" if ctx.quick else "Scene_MCDT.cfg"),
                                        timeout=2400, coverage=False, workers=4, select=sel),
        "Neg": lambda: tlc.run(SPEC, os.path.join(TLA, "Scene_Neg.cfg"), timeout=900, workers=2),
        "Sim": lambda: tladump.simulate(SPEC, os.path.join(TLA, "Scene_Sim.cfg"), num=nsim, depth=400,
                                        seed=ctx.seed + 1, timeout=2400, select=simsel),
    }
    with cf.ThreadPoolExecutor(len(jobs)) as ex:
        futs = {k: ex.submit(f) for k, f in jobs.items()}
        out = {k: f.result() for k, f in futs.items()}
    # ---- model tables and pose tables from the specification
    res, dstates = out["Def"]
    ctx.tlc_ok(res, "Scene_Def")
    defs = {"text": {}, "poses": {}, "n": {}}
    for st in dstates:
        ev = st["ev"]
        if ev["op"] != "def":
            continue
        defs["text"][ev["model"]] = model_text(ev["def"])
        defs["n"][ev["model"]] = (ev["ng"], ev["ns"])
        defs["poses"][(ev["model"], ev["qp"])] = {"geom": ev["poses"]["geom"], "site": ev["poses"]["site"]}
    if not defs["text"]:
        raise Machinery("no model definition emitted")
    slots = {m: i for i, m in enumerate(sorted(defs["text"]))}
    cases = []
    try:
        # TLC's per-action coverage statistics are not collected (on this specification they multiply the cost of a run by
        # three to six); that every walk action is taken is established on the returned calls below: a kept element needs
        # Acquire, an absent one with status 0 needs Skip, a status flip needs Overflow, any returned call needs
        # BeginUpdate / BeginAdd, SourceDone and EndCall
        for k, need in (("MC", []), ("MCB", []), ("MCD", [])):
            res, states, cleanup = out[k]
            ctx.tlc_ok(res, "Scene_" + k, need_actions=need)
            for st in states():
                cases.append(st["ev"])
    finally:
        out["MC"][2]()
        out["MCB"][2]()
        out["MCD"][2]()
    kinds_of_case = {"add": any(ev["op"] == "add" for ev in cases),
                     "overflow": any(ev["ret"]["status"] == 1 and ev["in"]["status"] == 0 for ev in cases),
                     "kept": any(len(ev["ret"]["items"]) > 0 for ev in cases),
                     "empty": any(len(ev["ret"]["items"]) == 0 for ev in cases),
                     "sticky": any(ev["in"]["status"] == 1 for ev in cases),
                     "skipped": any(ev["ret"]["status"] == 0 and ev["op"] == "update" and
                                    len(ev["ret"]["items"]) < sum(defs["n"][ev["in"]["model"]]) for ev in cases)}
    if not all(kinds_of_case.values()):
        raise Machinery("vacuity: returned calls lack %s" % [k for k, v in kinds_of_case.items() if not v])
    # vacuity guard of the group law: for every kind of element the explored options must contain one where an element
    # with a group above 5 (below 0) is walked while the flag it must follow differs from the flag stored next to it
    seen_wit = set()
    for ev in cases:
        for w in ev.get("wit", ()):
            seen_wit.add(tuple(w))
    missing = [(k, side) for k in ("geom", "site", "tendon", "joint", "actuator") for side in ("hi", "lo")
               if (k, side) not in seen_wit]
    if missing:
        raise Machinery("vacuity: no explored option separates an out-of-range group from the neighbouring group vector "
                        "for %s" % missing)
    r = out["Neg"]
    ctx.cov["tlc_runs"].append({"name": "Scene_Neg", "generated": r.generated, "distinct": r.distinct,
                                "depth": r.depth, "wall_s": round(r.wall, 2), "violation": r.violation})
    if r.error:
        raise Machinery("TLC negative-control run failed: %s" % r.error)
    ctx.control("TLC rejects a capacity test with > instead of >= (Bounded)", bool(r.violation) and "Bounded" in r.violation)
    res, behs = out["Sim"]
    ctx.tlc_ok(res, "Scene_Sim")
    if len(behs) < nsim // 2:
        raise Machinery("too few simulated behaviours (%d)" % len(behs))
    if not cases:
        raise Machinery("no returned calls in the dumped states")
    cases.sort(key=lambda ev: (ev["in"]["model"], ev["in"]["qp"], ev["in"]["cap"], ev["in"]["status"], ev["op"],
                               vopt_cmd(ev["in"]["opt"]), sum(ev["in"]["opt"]["cat"])))

    # ---- script (a model block "model .. end" produces ONE answer line; every other command one each)
    lines, nout = [], [0]

    def add(cmd):
        """append one command; returns the index of its answer line"""
        lines.append(cmd)
        nout[0] += 1
        return nout[0] - 1
    for m, s in sorted(slots.items(), key=lambda kv: kv[1]):
        add("model %d" % s)
        lines.extend(defs["text"][m] + ["end"])
        add("data %d %d" % (s, s))
        add("forward %d" % s)
    nhead, nhead_out = len(lines), nout[0]
    where = []

    def move(slot, qp):
        return ["set %d qpos 0 %d" % (slot, qp), "forward %d" % slot]
    cur = {}
    for ev in cases:
        inn = ev["in"]
        s = slots[inn["model"]]
        if cur.get(s) != inn["qp"]:
            for c in move(s, inn["qp"]):
                add(c)
            cur[s] = inn["qp"]
        add("mkscene %d %d %d" % (s, inn["cap"], inn["status"]))
        add(vopt_cmd(inn["opt"]))
        where.append((add(call_cmd(ev, s)), len(lines) - 1))
    chains = []
    for beh in behs:
        sts = [st["ev"] for (_a, st) in beh]
        if not sts or sts[0]["op"] != "init":
            raise Machinery("simulated behaviour does not start with the initial state")
        inn = sts[0]["in"]
        s = slots[inn["model"]]
        start = len(lines)
        for c in move(s, inn["qp"]) + ["mkscene %d %d %d" % (s, inn["cap"], inn["status"]), vopt_cmd(inn["opt"])]:
            add(c)
        cur[s] = None
        calls = []
        for ev in sts[1:]:
            if ev["op"] == "makescene":
                add("mkscene %d %d 0" % (s, ev["cap"]))
            elif ev["op"] == "setopt":
                add(vopt_cmd(ev["opt"]))
            elif ev["op"] == "move":
                for c in move(s, ev["qp"]):
                    add(c)
            elif ev["op"] in ("update", "add"):
                calls.append((ev, (add(call_cmd(ev, s)), len(lines) - 1)))
            else:
                raise Machinery("unknown op in simulated behaviour: %r" % ev["op"])
        chains.append((start, calls))
    r = drv.run_script(exe, lines, timeout=1800)
    got = r.lines + [None] * (nout[0] - len(r.lines))
    for i in range(nhead_out):
        if got[i] is None or got[i].startswith(("error", "MKMODEL", "?")):
            raise Machinery("model set-up failed (answer %d): %r" % (i, got[i]))

    # ---- negative controls on the comparer
    ctl = {"ngeom": False, "status": False, "content": False, "pos": False}
    for ev, (w, _l) in zip(cases, where):
        if all(ctl.values()):
            break
        if verdict(ev, got[w], defs) is not None or not ev["ret"]["items"]:
            continue
        ret = ev["ret"]
        bad = dict(ev, ret=dict(ret, ngeom=ret["ngeom"] + 1))
        ctl["ngeom"] = (verdict(bad, got[w], defs) or ("",))[0] == "ngeom"
        bad = dict(ev, ret=dict(ret, status=1 - ret["status"]))
        ctl["status"] = (verdict(bad, got[w], defs) or ("",))[0] == "status"
        it = list(ret["items"])
        it[0] = (it[0][0], it[0][1] + 1, it[0][2])
        ctl["content"] = (verdict(dict(ev, ret=dict(ret, items=tuple(it))), got[w], defs) or ("",))[0] == "content"
        key = (ev["in"]["model"], ev["in"]["qp"])
        kind, oid, _c = ret["items"][-1]
        saved = defs["poses"][key][kind]
        p = dict(saved[oid], pos=(saved[oid]["pos"][0] + 4, saved[oid]["pos"][1], saved[oid]["pos"][2]))
        defs["poses"][key][kind] = tuple(p if j == oid else x for j, x in enumerate(saved))
        ctl["pos"] = (verdict(ev, got[w], defs) or ("",))[0] == "pos"
        defs["poses"][key][kind] = saved
    for k in ("ngeom", "status", "content", "pos"):
        if ctl[k] or not r.crashed:      # after a harness crash a control may have found no answered case to perturb
            ctx.control("perturbed expected %s is flagged" % k, ctl[k])

    def report(ev, wl, script):
        w = wl[0]
        v = verdict(ev, got[w], defs)
        inn = ev["in"]
        key = {"m": inn["model"], "cap": inn["cap"], "st": inn["status"], "opt": vopt_cmd(inn["opt"]),
               "cat": sum(inn["opt"]["cat"]), "op": ev["op"], "qp": inn["qp"], "n0": len(inn["scene"])}
        ctx.case(key, nontrivial=True, sample=key)
        if v is None:
            return True
        sig = "%s:%s" % (feature(ev), v[0])
        if r.crashed and got[w] is None:
            sig = "crash"
        ctx.violation(sig, "model %s, capacity %d, %s, catmask %d, status before %d: %s" % (
            inn["model"], inn["cap"], vopt_cmd(inn["opt"]), sum(inn["opt"]["cat"]), inn["status"], v[1]),
            {"script": lines[:nhead] + script, "answer_line": nhead_out + len(script) - 1, "ev": tlc.to_py(ev),
             "poses": tlc.to_py(defs["poses"][(inn["model"], inn["qp"])])})
        return False

    for ev, wl in zip(cases, where):
        s = slots[ev["in"]["model"]]
        if report(ev, wl, move(s, ev["in"]["qp"]) + lines[wl[1] - 2:wl[1] + 1]):
            ctx.trace_ok()
    for start, calls in chains:
        ok = True
        for ev, wl in calls:
            if not report(ev, wl, lines[start:wl[1] + 1]):
                ok = False
                break
        if ok:
            ctx.trace_ok()
    ctx.cov["exhaustive"] = True
    ctx.cov["rule"] = ("cases = every update / addGeoms call returned in the exhaustive one-call runs (model A: every "
                       "capacity 0..13 x every subset of the geom groups in use x site masks%s; models B, C: capacities "
                       "x masks x both initial status values) = %d calls, plus every call of %d simulated sequences of "
                       "makeScene / setOption / move / update / addGeoms (scene state carried by the implementation); "
                       "distinct = distinct (model, capacity, status, options, joint position, call) tuples"
                       % ("" if ctx.quick else " x static flag x category masks", len(cases), len(behs)))


def replay(ctx, rp):
    exe = build.build_harness("scene_drv", [os.path.join(VERIF, "harness", "scene_drv.cc")],
                              extra=tladump.harness_digest_flag())
    rr = rp["replay"]
    r = drv.run_script(exe, rr["script"])
    g = r.lines[rr["answer_line"]] if len(r.lines) > rr["answer_line"] else None
    ev = rr["ev"]
    ev["ret"]["items"] = [tuple(x) for x in ev["ret"]["items"]]
    defs = {"poses": {(ev["in"]["model"], ev["in"]["qp"]): rr["poses"]}}
    v = verdict(ev, g, defs)
    print("answer: %s -> %s" % ((g or "")[:200], v))
    ctx.case({"replay": rp["signature"]})
    ctx.case({"replay": rp["signature"], "x": 1})
    if v is not None:
        ctx.violation(rp["signature"], rp["what"], rp["replay"])
