"""C04 - staged and split pipeline calls equal the monolithic call: Pipeline.tla decided by TLC; its behaviours
replayed on one staged mjData instance against monolithic reference instances (spec -> code): freshness claims
compared bytewise, lazy-evaluation flags and the observable stage sequence of every public call compared."""
import concurrent.futures as cf
import os

from vlib import tlc, drv
from vlib.check import Machinery, VERIF
from checks import tladump
from checks import _pipemodels as P
from checks.c01 import run_chunk, prelude_outputs, diagnose, _Shortest, reproduces

TLA = os.path.join(VERIF, "tla")
SPEC = os.path.join(TLA, "Pipeline.tla")

META = dict(
    engine="tlc-replay",
    technique="TLA+ spec Pipeline.tla (version counters on the user-settable inputs, provenance sets on every derived "
              "quantity, the four lazy-evaluation flags, one action per stage function with its read/write sets, the "
              "public calls as the stage sequences of engine_forward.c / engine_inverse.c, an event log of what an "
              "observer sees) model-checked by TLC; every transition of the exhaustive two-operation graph and "
              "simulated 10-operation behaviours are replayed on a staged instance: every quantity the specification "
              "declares fresh is compared bytewise with a reference instance that gets the integration state by "
              "mj_copyState and runs the monolithic mj_forward (mj_copyData + mj_inverse for inverse dynamics), "
              "mj_step1;mj_step2 is compared with mj_step, the state is compared before/after read-only calls, "
              "mjData.flg_* with the specification's flags, and the recorded stage/callback sequence of each call with "
              "ev.events",
    text="TLC decides on Pipeline.tla: after mj_forward every output is fresh; after mj_forwardSkip / mj_inverseSkip whose "
         "skipped stages were fresh the outputs equal those of the full call; mj_step1; (ctrl/applied forces change); "
         "mj_step2 produces the step of mj_step for Euler and implicit integrators; forward / inverse / step1 / single "
         "stages leave the state alone; a set lazy flag never hides a stale value from a full call. The same operation "
         "sequences run on the real library and every freshness claim is compared bytewise against the monolithic call.",
    note="Trusted: TLC, harness pipe_drv.cc, the quantity -> mjData field map below, the feature vectors of the model "
         "pool. Sleeping is disabled (the documentation excludes the stage split under sleeping); no callbacks in "
         "the default replay; the event replay installs observer callbacks that only log. The control-callback gating "
         "difference between mj_step1 and mj_forwardSkip (DESIGN section 7 item 14) is modelled (CbGate) and reported "
         "as a gray case in the evidence, not as a violation.",
    ref="DESIGN.md section 4 C04")

# quantity of the specification -> mjData fields ("sensN" / "energyN" are pseudo fields of pipe_drv.cc)
QFIELDS = {
    "pos": ("xpos,xquat,xmat,xipos,ximat,xanchor,xaxis,geom_xpos,geom_xmat,site_xpos,site_xmat,subtree_com,cdof,cinert,"
            "ten_J,ten_length,ten_wrapadr,ten_wrapnum,wrap_obj,wrap_xpos,actuator_length,actuator_moment,crb,M,qLD,"
            "qLDiagInv,ncon,contact,ne,nf,nl,nefc,efc_type,efc_id,efc_pos,efc_margin,efc_frictionloss,efc_D,efc_R,efc_KBIP,"
            "efc_J"),
    "vel": "efc_vel,efc_aref,ten_velocity,actuator_velocity,cvel,cdof_dot,qfrc_bias,qfrc_spring,qfrc_damper,"
           "qfrc_gravcomp,qfrc_fluid,qfrc_passive",
    "spos": "sens1", "svel": "sens2", "sacc": "sens3", "epos": "energy0", "evel": "energy1",
    "stv": "subtree_linvel,subtree_angmom",
    "act": "actuator_force,act_dot,qfrc_actuator",
    "smooth": "qacc_smooth,qfrc_smooth",
    "qacc": "qacc",
    "cfrc": "qfrc_constraint,efc_force,efc_state",
    "inv": "qfrc_inverse",
    "ist": P.ALL_IST,
    "next": P.ALL_IST + ",qacc,qacc_smooth,qfrc_smooth,qfrc_actuator,actuator_force,act_dot,qfrc_constraint,efc_force,"
                        "sensordata",
}
ATOMIC = {"setpos": "qpos", "setvel": "qvel", "setctrl": "ctrl", "setapp": "app", "setqacc": "qaccin"}
STAGE_OP = {"fwdpos": "fwdPosition", "fwdvel": "fwdVelocity", "fwdact": "fwdActuation", "fwdacc": "fwdAcceleration",
            "fwdcon": "fwdConstraint", "senspos": "sensorPos", "sensvel": "sensorVel", "sensacc": "sensorAcc",
            "energyPos": "energyPos", "energyVel": "energyVel"}
ENDS = ("Done", "SetPos", "SetVel", "SetCtrl", "SetApp", "SetQacc", "Reset")
NEED = ["Stage", "Done", "SetPos", "SetVel", "SetCtrl", "SetApp", "SetQacc", "Reset", "Forward", "FwdSkip", "Inverse",
        "InvSkip", "Step", "Step1", "Step2", "StageCall"]
A, BF, BI, SNAP = 1, 2, 3, 4
INT = P.sig_int("INTEGRATION")


def defclass_lines():
    return ["defclass %s %s" % (c, QFIELDS[c]) for c in sorted(QFIELDS)]


def call_line(ev, trace):
    op = ev["op"]
    if op in ("forward", "inverse", "step", "step1", "step2"):
        c = op
    elif op == "fwdskip":
        c = "fwdskip"
    elif op == "invskip":
        c = "invskip"
    elif op == "stage":
        c = STAGE_OP[ev["st"]]
    else:
        raise Machinery("unknown call %r" % (ev,))
    args = " %d %d" % (ev["s"], ev["ss"]) if op in ("fwdskip", "invskip") else ""
    if trace:
        return "tr %s %d%s" % (c, A, args)
    return "%s %d%s" % (c, A, args)


def beh_script(beh, slot, check_flags, trace):
    """script of one behaviour (list of op-completed states); meta[i] = ("op"|"claim"|"flags"|"events", step, info)"""
    lines, meta = ["nwarn"], [("warn0", -1, None)]
    for d in (A, BF, BI, SNAP):
        lines.append("data %d %d" % (d, slot))
        meta.append(("op", -1, None))
    k = 0
    for si, st in enumerate(beh):
        ev, obs = st["ev"], st["obs"]
        op = ev["op"]
        if op == "init":
            continue
        k += 1
        if op in ATOMIC:
            lines.append("pat %d %s %d" % (A, ATOMIC[op], 1 + k % 3))
            meta.append(("op", si, None))
        elif op == "reset":
            lines.append("reset %d" % A)
            meta.append(("op", si, None))
        else:
            lines.append("copystate %d %d %d" % (SNAP, A, INT))
            meta.append(("op", si, None))
            if op == "step2":
                lines.append("copystate %d %d %d" % (BF, A, INT))
                meta.append(("op", si, None))
            lines.append(call_line(ev, trace))
            meta.append(("events" if trace else "op", si, "ev " + " ".join(ev["events"]) if ev["events"] else "ev "))
            if obs["same"]:
                lines.append("cc %d %d ist" % (A, SNAP))
                meta.append(("claim", si, ("same", ("ist",))))
            if op == "step2" and obs["stepeq"]:
                lines.append("step %d" % BF)
                meta.append(("op", si, None))
                lines.append("cc %d %d next" % (A, BF))
                meta.append(("claim", si, ("stepeq", ("next",))))
        if check_flags:
            lines.append("flags %d" % A)
            meta.append(("flags", si, " ".join("1" if x else "0" for x in obs["flags"])))
        fq = sorted(q for q in obs["F"] if q in QFIELDS)
        if fq:
            lines += ["copystate %d %d %d" % (BF, A, INT), "forward %d" % BF, "cc %d %d %s" % (A, BF, ",".join(fq))]
            meta += [("op", si, None), ("op", si, None), ("claim", si, ("fresh-forward", tuple(fq)))]
        iq = sorted(q for q in obs["I"] if q in QFIELDS)
        if iq:
            lines += ["copydata %d %d" % (BI, A), "inverse %d" % BI, "cc %d %d %s" % (A, BI, ",".join(iq))]
            meta += [("op", si, None), ("op", si, None), ("claim", si, ("fresh-inverse", tuple(iq)))]
    lines.append("nwarn")
    meta.append(("warn1", -1, None))
    return lines, meta


def ops_of(beh):
    out = []
    for s in beh:
        e = s["ev"]
        if e["op"] == "init":
            continue
        out.append((e["op"], e["s"], e["ss"], e["st"]) if e["op"] in ("fwdskip", "invskip", "stage") else (e["op"],))
    return out


def feat_key(f):
    return (bool(f["energy"]), bool(f["esens"]), bool(f["stv"]), bool(f["rne"]), bool(f["usens"]))


def replay_behaviours(ctx, exe, behs, per_beh_models, label, trace=False, record=None):
    """run every behaviour on models of the pool whose feature vector is the behaviour's"""
    if not behs:
        raise Machinery("no behaviours to replay (%s)" % label)
    models = P.MODELS
    pre = []
    for mi, m in enumerate(models):
        pre += P.model_lines(exe, mi + 1, m, usersensors=trace)
    pre += defclass_lines()
    pre.append("cb %d" % (1 if trace else 0))
    byfeat = {}
    for mi, m in enumerate(models):
        byfeat.setdefault(feat_key(P.feat_of(m, usersensors=trace)), []).append(mi)
    groups = {}
    skipped = 0
    for bi, beh in enumerate(behs):
        e0 = beh[0]["ev"]
        cands = byfeat.get(feat_key(e0["feat"]), [])
        if not cands:
            skipped += 1
            continue
        for j in range(min(per_beh_models, len(cands))):
            mi = cands[(bi + j) % len(cands)]
            groups.setdefault((P.opt_key(e0["opt"]) + "a%d" % int(e0["actdis"]), mi), []).append(bi)
    if skipped == len(behs):
        raise Machinery("no model of the pool has the feature vectors of the behaviours (%s)" % label)
    items, metas = [], {}
    for (ok, mi), bis in sorted(groups.items()):
        e0 = behs[bis[0]][0]["ev"]
        dis = P.DSBL_ACTUATION if e0["actdis"] else 0
        ol = P.opt_lines(mi + 1, models[mi], e0["opt"], extra_disable=dis)
        items.append((("opt", ok, mi), ol))
        for bi in bis:
            ls, meta = beh_script(behs[bi], mi + 1, models[mi].get("flags", True), trace)
            items.append((("beh", bi, mi), ls))
            metas[(bi, mi)] = (ls, meta, ol, ok)
    nproc = 4
    chunks = [[] for _ in range(nproc)]
    k = -1
    for it in items:
        if it[0][0] == "opt":
            k = (k + 1) % nproc
        chunks[k].append(it)
    results, crashes = {}, []
    with cf.ThreadPoolExecutor(nproc) as ex:
        for out, r in ex.map(lambda ch: run_chunk(exe, pre, ch), [c for c in chunks if c]):
            results.update(out)
            if r.crashed:
                crashes.append(r)
    discarded = nclaims = nfresh = 0
    for (bi, mi), (ls, meta, ol, ok) in sorted(metas.items()):
        got = results.get(("beh", bi, mi))
        beh = behs[bi]
        ops = ops_of(beh)
        key = {"model": models[mi]["name"], "opt": ok, "ops": ops, "trace": trace}
        script = pre + ol + ls
        if got is None:
            r = crashes[0] if crashes else None
            ctx.violation("crash:%s" % label, "harness died while replaying a behaviour on model %s: %s"
                          % (models[mi]["name"], r.crash_text() if r else "no output"),
                          {"script": script, "line": -1, "want": "eq"})
            continue
        if got[0] != got[-1]:
            discarded += 1
            continue
        bad = None
        ncl = 0
        if record is not None:
            rec = {}
            for mt, g in zip(meta, got):
                if mt[0] == "events":
                    rec.setdefault(mt[1], {})["events"] = g.split()[1:]
                elif mt[0] == "flags":
                    rec.setdefault(mt[1], {})["flags"] = [x == "1" for x in g.split()]
            tops = []
            for si, st in enumerate(beh):
                e = st["ev"]
                if e["op"] == "init":
                    continue
                r_ = rec.get(si, {})
                atomic = e["op"] in ATOMIC or e["op"] == "reset"
                tops.append({"op": e["op"], "s": e["s"], "ss": e["ss"], "st": e["st"],
                             "events": [] if atomic else r_.get("events", []),
                             "flags": [] if atomic else r_.get("flags", [])})
            e0 = beh[0]["ev"]
            record.append((bi, mi, {"feat": {k: bool(v) for k, v in e0["feat"].items()}, "integ": e0["opt"]["integ"],
                                    "actdis": bool(e0["actdis"]), "ops": tops}))
        for i, (mt, g) in enumerate(zip(meta, got)):
            kind = mt[0]
            if kind == "op":
                if g.startswith("error") or g.startswith("?") or g.startswith("MKMODEL") or g.startswith("FATAL"):
                    raise Machinery("operation %r failed on model %s: %s" % (ls[i], models[mi]["name"], g))
            elif kind == "claim":
                ncl += 1
                nfresh += len(mt[2][1])
                if g != "eq" and bad is None:
                    bad = (i, mt, g)
            elif kind in ("flags", "events"):
                ncl += 1
                if g.strip() != mt[2].strip() and bad is None:
                    bad = (i, mt, g)
        nclaims += ncl
        ctx.case(key, nontrivial=ncl > 0 and any(o[0] not in ATOMIC and o[0] != "reset" for o in ops),
                 sample={"model": key["model"], "opt": ok, "ops": ops[:5]})
        if bad is None:
            ctx.trace_ok()
            continue
        i, mt, g = bad
        si = mt[1]
        ev = beh[si]["ev"]
        line = len(pre) + len(ol) + i
        if mt[0] == "claim":
            what_kind, classes = mt[2]
            fld = g[3:] if g.startswith("ne ") else g
            detail = ""
            if "/sens" in fld:
                ref = BF if what_kind != "fresh-inverse" else BI
                stage = int(fld[-1]) if fld[-1] in "123" and "/sens" in fld and not fld.endswith("sensordata") else 0
                detail = diagnose(exe, script, line, A, SNAP if what_kind == "same" else ref, stage)
            sig = "%s:%s%s" % (what_kind, fld, (":" + detail) if detail else "")
            what = ("after %s the specification declares %s (quantities %s) equal to the monolithic reference, the "
                    "library differs in %s %s; model %s, options %s, operations %s"
                    % (ops[len([s for s in beh[:si + 1] if s["ev"]["op"] != "init"]) - 1], what_kind, list(classes), fld,
                       detail, models[mi]["name"], ok, ops[:si]))
            ctx.violation(sig, what, {"script": script, "line": line, "want": "eq"})
        elif mt[0] == "flags":
            sig = "flags:%s:want=%s:got=%s" % (ev["op"] + (":" + ev["st"] if ev["st"] else ""), mt[2].replace(" ", ""),
                                               g.replace(" ", ""))
            ctx.violation(sig, "lazy-evaluation flags (energypos energyvel subtreevel rnepost) after %s are %s, the "
                               "specification says %s; model %s, operations %s"
                          % (ev["op"], g, mt[2], models[mi]["name"], ops[:si + 1]),
                          {"script": script, "line": line, "want": mt[2]})
        else:
            sig = "events:%s:want=%s:got=%s" % (ev["op"] + (":" + ev["st"] if ev["st"] else ""),
                                                mt[2][3:].replace(" ", "-"), g[3:].replace(" ", "-"))
            ctx.violation(sig, "observable stage/callback sequence of %s is [%s], the specification's expansion is [%s]; "
                               "model %s, options %s" % (ev["op"], g[3:], mt[2][3:], models[mi]["name"], ok),
                          {"script": script, "line": line, "want": mt[2]})
    if discarded * 20 > max(1, len(metas)):
        raise Machinery("%d of %d behaviours raised engine warnings: patterns are not tame" % (discarded, len(metas)))
    return dict(behaviours=len(behs), runs=len(metas), discarded=discarded, claims=nclaims, fresh=nfresh, skipped=skipped)


def validate_recorded(ctx, recorded):
    """code -> spec: the recorded event sequences and flags of the observer runs, judged by PipelineTrace.tla"""
    import copy
    if not recorded:
        raise Machinery("no recorded observer runs")
    traces = [t for (_b, _m, t) in recorded]
    ctl = None
    for t in traces:
        for k, o in enumerate(t["ops"]):
            if len(o["events"]) >= 4:
                ctl = copy.deepcopy(t)
                ctl["ops"] = ctl["ops"][:k + 1]
                ev = ctl["ops"][k]["events"]
                ev[1], ev[2] = ev[2], ev[1]
                if ev[1] == ev[2]:
                    ctl = None
                    continue
                break
        if ctl:
            break
    if ctl is None:
        raise Machinery("no recorded call with four events for the negative control of the trace validation")
    batch = traces + [ctl]
    res, verdicts = tlc.validate_traces(os.path.join(TLA, "PipelineTrace.tla"), os.path.join(TLA, "PipelineTrace.cfg"),
                                        batch, timeout=1500)
    ctx.cov["tlc_runs"].append({"name": "PipelineTrace", "generated": res.generated, "distinct": res.distinct,
                                "depth": res.depth, "wall_s": round(res.wall, 2), "queue_left": res.queue,
                                "violation": res.violation})
    ctx.cov["states"] += res.distinct
    ctx.cov["transitions"] += res.generated
    if res.violation and "Invariant" in res.violation:
        raise Machinery("a recorded run drives Pipeline.tla into a state violating %s\n%s" % (res.violation, res.out[-1500:]))
    if len(verdicts) != len(batch):
        raise Machinery("trace validation produced %d verdicts for %d traces: %s"
                        % (len(verdicts), len(batch), res.error or res.out[-800:]))
    v = verdicts.get(len(batch))
    ctx.control("a recorded call with two swapped events is rejected by PipelineTrace", v is not None and v[0] < v[1])
    for ti, (bi, mi, t) in enumerate(recorded, start=1):
        v = verdicts.get(ti)
        if v is None:
            raise Machinery("no verdict for trace %d\n%s" % (ti, res.out[-1500:]))
        if v[0] == v[1]:
            ctx.trace_ok()
            continue
        o = t["ops"][v[0]]
        ctx.violation("trace:%s:got=%s:flags=%s" % (o["op"] + (":" + o["st"] if o["st"] else ""), "-".join(o["events"]),
                                                   "".join("1" if x else "0" for x in o["flags"])),
                      "PipelineTrace does not accept the recorded %s call (events %s, flags %s) after %s; model %s"
                      % (o["op"], o["events"], o["flags"], [x["op"] for x in t["ops"][:v[0]]], P.MODELS[mi]["name"]),
                      {"script": [], "line": -1, "want": "trace", "trace": t})
    return len(recorded)


def gray_case(ctx, exe):
    """DESIGN section 7 item 14 on the real code: with actuation disabled and a control callback that writes
    qfrc_applied, mj_step and mj_step1;mj_step2 differ.  Reported in the evidence, never as a violation."""
    m = P.MODELS[-1]
    pre = P.model_lines(exe, 1, m) + defclass_lines()
    opt = {"integ": 0, "solver": 2, "cone": 0, "jac": 2, "island": 1}
    sc = pre + P.opt_lines(1, m, opt, extra_disable=P.DSBL_ACTUATION) + [
        "cb 2", "data 1 1", "data 2 1", "step 1", "step1 2", "step2 2", "cc 1 2 ist", "cb 0"]
    r = drv.run_script(exe, sc, timeout=300)
    if r.crashed or len(r.lines) < 2:
        raise Machinery("gray-case script failed: " + r.crash_text())
    return r.lines[-2]


def graph_behaviours():
    """behaviours of the exhaustive two-operation configuration: every dumped state carries its history"""
    res, states, cleanup = tladump.run_dump(SPEC, os.path.join(TLA, "Pipeline_Graph.cfg"), timeout=900, workers=2,
                                            coverage=False, only=("pc", "call", "nops", "hist"))
    behs = []
    try:
        for st in states():
            if st["pc"] == () and st["call"]["op"] == "" and st["nops"] > 0 and st["hist"]:
                behs.append(list(st["hist"]))
    finally:
        cleanup()
    return res, behs


def run(real_ctx):
    ctx = _Shortest(real_ctx, P.harness, reproduces)
    try:
        _run(ctx)
    finally:
        ctx.flush()


def _run(ctx):
    exe = P.harness()
    quick = ctx.quick
    ctx.assume("one staged instance; references are other instances of the same model that get the integration state by "
               "mj_copyState (forward pipeline) or the whole mjData by mj_copyData (inverse pipeline: its sensors read "
               "stored actuator forces) and run the monolithic call",
               "sleeping disabled; no callbacks except in the event replay (observers that only log)",
               "mj_forwardSkip with skipped stages requires that a forward position stage ran before (island data); "
               "single acceleration-stage functions require position and velocity stages to have run",
               "the model pool of C01 with its feature vectors (energy flag, energy sensors, subtree-velocity sensors, "
               "rnePostConstraint sensors, user sensors); model 'history' (delayed sensors) is not used for flags")
    nsim = 100 if quick else 2500
    nev = 60 if quick else 1000
    ends = lambda act, blk: ("ev", "obs") if act in ENDS else None       # noqa: E731
    jobs = {
        "mc": lambda: tlc.run(SPEC, os.path.join(TLA, "Pipeline_MC.cfg" if quick else "Pipeline_Deep.cfg"),
                              coverage=quick, timeout=1500, workers=4),
        "graph": lambda: graph_behaviours(),
        "negekin": lambda: tlc.run(SPEC, os.path.join(TLA, "Pipeline_NegEKin.cfg"), timeout=900, workers=2),
        "cbasis": lambda: tlc.run(SPEC, os.path.join(TLA, "Pipeline_CbAsIs.cfg"), timeout=900, workers=2),
        "cbuni": lambda: tlc.run(SPEC, os.path.join(TLA, "Pipeline_CbUniform.cfg"), timeout=900, workers=2),
        "sim": lambda: tladump.simulate(SPEC, os.path.join(TLA, "Pipeline_Sim.cfg"), num=nsim, depth=500,
                                        seed=ctx.seed + 1, timeout=1500, select=ends),
        "evsim": lambda: tladump.simulate(SPEC, os.path.join(TLA, "Pipeline_EvSim.cfg"), num=nev, depth=400,
                                          seed=ctx.seed + 2, timeout=1500, select=ends),
    }
    if not quick:
        jobs["mcq"] = lambda: tlc.run(SPEC, os.path.join(TLA, "Pipeline_MC.cfg"), coverage=True, timeout=1500, workers=2)
    with cf.ThreadPoolExecutor(len(jobs)) as ex:
        futs = {k: ex.submit(f) for k, f in jobs.items()}
        out = {k: f.result() for k, f in futs.items()}
    if quick:
        ctx.tlc_ok(out["mc"], "Pipeline_MC", need_actions=NEED)
    else:
        ctx.tlc_ok(out["mc"], "Pipeline_Deep")
        ctx.tlc_ok(out["mcq"], "Pipeline_MC", need_actions=NEED)
    r = out["negekin"]
    ctx.tlc_ok(r, "Pipeline_NegEKin", allow_violation=True)
    ctx.control("TLC refutes FreshAfterForward / LazySound when the kinetic-energy sensor trusts flg_energyvel in the "
                "position stage (EKin = asis)", bool(r.violation) and ("FreshAfterForward" in r.violation or
                                                                       "LazySound" in r.violation))
    r = out["cbasis"]
    ctx.tlc_ok(r, "Pipeline_CbAsIs", allow_violation=True)
    gray_spec = bool(r.violation) and "CtlSame" in r.violation
    ctx.control("TLC refutes CtlSame for the as-is callback gating (gray case) while the other properties hold", gray_spec)
    ctx.tlc_ok(out["cbuni"], "Pipeline_CbUniform")
    # behaviours of the exhaustive two-operation configuration: every state carries its history
    res, gbehs = out["graph"]
    ctx.tlc_ok(res, "Pipeline_Graph")
    res, sims = out["sim"]
    ctx.tlc_ok(res, "Pipeline_Sim")
    sbehs = [[s for (_a, s) in b] for b in sims]
    sbehs = [b for b in sbehs if b]
    res, evs = out["evsim"]
    ctx.tlc_ok(res, "Pipeline_EvSim")
    ebehs = [[s for (_a, s) in b] for b in evs]
    ebehs = [b for b in ebehs if b]
    st1 = replay_behaviours(ctx, exe, gbehs, 1 if quick else 3, "graph")
    st2 = replay_behaviours(ctx, exe, sbehs, 1 if quick else 3, "sim")
    recorded = []
    st3 = replay_behaviours(ctx, exe, ebehs, 1 if quick else 3, "events", trace=True, record=recorded)
    ntr = validate_recorded(ctx, recorded)
    # negative control on the comparer: a perturbed output must be reported different from the reference
    m = P.MODELS[1]
    neg = P.model_lines(exe, 1, m) + defclass_lines() + [
        "data 1 1", "data 2 1", "forward 1", "forward 2", "cc 1 2 vel,qacc,sacc", "set 1 qacc 0 1.2345", "cc 1 2 vel,qacc,sacc"]
    r = drv.run_script(exe, neg, timeout=300)
    ctx.control("a perturbed qacc entry is reported by the bytewise comparer (and only then)",
                (not r.crashed) and len(r.lines) > 2 and r.lines[-3] == "eq" and r.lines[-1] == "ne qacc/qacc")
    g = gray_case(ctx, exe)
    ctx.cov["gray_case"] = {"what": "control callback gating: mj_step1 unconditional, mj_forwardSkip only if actuation enabled",
                            "tlc_refutes_CtlSame_asis": gray_spec,
                            "real_code_step_vs_step1_step2_with_writing_callback_and_actuation_disabled": g}
    ctx.cov["exhaustive"] = False
    ctx.cov["rule"] = ("spec->code: all %d two-operation behaviours of the exhaustive configuration, %d simulated "
                       "10-operation behaviours and %d simulated behaviours with observer callbacks (whose recorded events and "
                       "flags are also validated code->spec by PipelineTrace.tla), run on the models of "
                       "the pool whose feature vector is the behaviour's with its option combination (%d runs; %d "
                       "comparisons/flag/event checks covering %d fresh-quantity claims; %d runs discarded for engine "
                       "warnings); non-trivial = at least one pipeline call and one check; distinct = distinct (model, "
                       "options, operation sequence)"
                       % (len(gbehs), len(sbehs), len(ebehs), st1["runs"] + st2["runs"] + st3["runs"],
                          st1["claims"] + st2["claims"] + st3["claims"], st1["fresh"] + st2["fresh"] + st3["fresh"],
                          st1["discarded"] + st2["discarded"] + st3["discarded"]))


def replay(ctx, rp):
    exe = P.harness()
    sc = rp["replay"]["script"]
    line = rp["replay"]["line"]
    want = rp["replay"].get("want", "eq")
    r = drv.run_script(exe, sc, timeout=600) if sc else None
    shift = prelude_outputs(sc) - len(sc)
    if want == "trace":
        res, verdicts = tlc.validate_traces(os.path.join(TLA, "PipelineTrace.tla"), os.path.join(TLA, "PipelineTrace.cfg"),
                                            [rp["replay"]["trace"]], timeout=600)
        v = verdicts.get(1)
        print("trace verdict", v)
        if v is None or v[0] != v[1]:
            ctx.violation(rp["signature"], rp["what"], rp["replay"])
    elif line < 0:
        print("crash replay: rc=%s" % r.rc)
        if r.crashed:
            ctx.violation(rp["signature"], rp["what"], rp["replay"])
    else:
        got = r.lines[line + shift] if 0 <= line + shift < len(r.lines) else "<none>"
        print("line %d (%s): want %r got %r" % (line, sc[line], want, got))
        if got.strip() != want.strip():
            ctx.violation(rp["signature"], rp["what"], rp["replay"])
    ctx.case({"replay": rp["signature"]})
    ctx.case({"replay": rp["signature"], "x": 1})
