"""Shared by C41/C42: abstract schema of tla/SchemaLang.tla (as parsed from TLC output) -> schema text, the
projection of a parsed mjcf_schema.Schema onto the observation Obs() of the specification, and the loader that
imports doc/generate/*.py from the repository working tree (never from an installed package)."""
import importlib.util
import os
import random
import sys

from vlib import build

GEN_DIR = os.path.join(build.REPO, "doc", "generate")
REAL_SCHEMA = os.path.join(build.REPO, "src", "xml", "mjcf.schema")

_mods = {}


def load(name):
    """import doc/generate/<name>.py from the working tree under a private module name"""
    if name in _mods:
        return _mods[name]
    path = os.path.join(GEN_DIR, name + ".py")
    if GEN_DIR not in sys.path:
        sys.path.insert(0, GEN_DIR)              # the generators do `import mjcf_schema`
    if name == "mjcf_schema":
        # make sure `import mjcf_schema` inside the generators resolves to the same working-tree file
        spec = importlib.util.spec_from_file_location("mjcf_schema", path)
        mod = importlib.util.module_from_spec(spec)
        sys.modules["mjcf_schema"] = mod
        spec.loader.exec_module(mod)
    else:
        load("mjcf_schema")
        spec = importlib.util.spec_from_file_location(name, path)
        mod = importlib.util.module_from_spec(spec)
        sys.modules[name] = mod
        spec.loader.exec_module(mod)
    if os.path.realpath(mod.__file__) != os.path.realpath(path):
        raise RuntimeError("wrong module imported for " + name)
    _mods[name] = mod
    return mod


# ----------------------------------------------------------------------------------------------
# rendering: every declaration / member is one line = list of tokens
# ----------------------------------------------------------------------------------------------
_NUMFMT = {1: "1", 2: "2.0", 3: "3e0", 4: "4.", 5: ".5e1", 6: "6", 7: "7.00", 8: "0.8e1"}


def _q(s):
    return '"%s"' % s


def _facets(fs):
    if not fs:
        return []
    out = ["("]
    for n, f in enumerate(fs):
        if n:
            out.append(",")
        out.append(f["f"])
        if f["k"] == "id":
            out += ["=", f["s"]]
        elif f["k"] == "str":
            out += ["=", _q(f["s"])]
        elif f["k"] == "num":
            out += ["=", str(f["v"])]
        elif f["k"] == "bad":
            out += ["=", "{"]
    out.append(")")
    return out


def _arity(ar):
    f = ar["f"]
    if f == "none":
        return []
    if f == "unb":
        return ["[", "]"]
    if f == "exact":
        return ["[", str(ar["lo"]), "]"]
    if f == "range":
        return ["[", str(ar["lo"]), "..", str(ar["hi"]), "]"]
    if f == "sym":
        return ["[", str(ar["lo"]), "..", "mjNREF", "]"]
    if f == "frac":
        return ["[", "1.5", "]"]
    if f == "strhi":
        return ["[", "1", "..", _q("x"), "]"]
    raise ValueError("arity form " + f)


def _default(d, fancy):
    k = d["k"]
    if k == "none":
        return []
    if k == "num":
        return ["=", str(d["v"])]
    if k == "id":
        return ["=", d["s"]]
    if k == "str":
        return ["=", _q(d["s"])]
    if k == "vec":
        out = ["=", "{"]
        for i in range(1, d["v"] + 1):
            if i > 1:
                out.append(",")
            out.append(_NUMFMT.get(i, str(i)) if fancy else str(i))
        return out + ["}"]
    if k == "bad":
        return {"paren": ["=", "("], "brack": ["=", "["], "emptyvec": ["=", "{", "}"],
                "vecstr": ["=", "{", "1", ",", _q("a"), "}"]}[d["s"]]
    raise ValueError("default kind " + k)


TARGET_TYPES = ("enum", "flags", "id", "ref")


def member_tokens(m, fancy=False):
    k = m["m"]
    if k == "attr":
        t = [m["name"], ":", m["type"]]
        if m["type"] in TARGET_TYPES:
            t += ["<", m["target"], ">"]
        else:
            t += _arity(m["ar"])
        return t + _default(m["def"], fancy) + _facets(m["fac"])
    if k == "use":
        return ["use", m["name"]]
    if k == "child":
        return ["child", m["name"], m["card"]]
    if k == "set":
        return ["set", m["name"], "=", m["val"]]
    if k == "con":
        t = [m["name"]]
        for b in m["bundles"]:
            for n, a in enumerate(b):
                if n:
                    t.append("+")
                t.append(a)
        return t
    if k == "junk":
        return [m["name"]]
    raise ValueError("member kind " + k)


def _tokv(s, kind):
    return _q(s) if kind == "str" else s


def decl_lines(d, fancy=False):
    """list of (indent, tokens, is_member_line)"""
    k = d["k"]
    if k == "enum":
        head = ["enum", d["name"]] + ([":", d["ctype"]] if d["ctype"] else []) + ["{"]
        body = [(2, [_tokv(it["key"], it["kk"]), "=", _tokv(it["val"], it["vk"])], True) for it in d["items"]]
        return [(0, head, False)] + body + [(0, ["}"], False)]
    if k == "group":
        head = ["group", d["name"]] + (["variant"] if d["variant"] else []) + ["{"]
        return [(0, head, False)] + [(2, member_tokens(m, fancy), True) for m in d["mem"]] + [(0, ["}"], False)]
    if k == "element":
        head = ["element", d["name"]] + ([":", d["spec"]] if d["spec"] else []) + _facets(d["fac"]) + ["{"]
        return [(0, head, False)] + [(2, member_tokens(m, fancy), True) for m in d["mem"]] + [(0, ["}"], False)]
    if k == "junk":
        return [(0, [d["name"]], False)]
    raise ValueError("decl kind " + k)


_NOSPACE_BEFORE = {"[", "]", "..", ",", ")", ">", "<"}
_NOSPACE_AFTER = {"[", "..", "(", "<"}


def join_tokens(toks, style):
    """style 0: the house style of mjcf.schema (a : double[0..3] = {1, 2} (min=0)); style 1: everything spaced;
    style 2: minimal white space"""
    if style == 1:
        return "  ".join(toks)
    out = ""
    prev = None
    depth = 0
    for t in toks:
        if prev is None:
            out = t
        elif style == 2:
            # a separator is needed only between two word-like tokens
            wl = (prev[-1].isalnum() or prev[-1] in '_"') and (t[0].isalnum() or t[0] in '_"-')
            out += (" " if wl else "") + t
        else:
            nospace = t in _NOSPACE_BEFORE or prev in _NOSPACE_AFTER or (depth > 0 and (t == "=" or prev == "="))
            if t == "+" or prev == "+":
                nospace = True
            out += ("" if nospace else " ") + t
        if t == "(":
            depth += 1
        elif t == ")":
            depth = max(0, depth - 1)
        prev = t
    return out


def pump_lines(aux):
    """declarations appended by the Pump decoration of the specification"""
    what, n = aux["what"], aux["n"]
    L = []

    def decl(head, members):
        L.append((0, head + ["{"], False))
        for m in members:
            L.append((2, m, True))
        L.append((0, ["}"], False))

    if what in ("usechain", "usecycle", "usedangling"):
        decl(["element", "zp"], [["use", "pg1"]])
        for i in range(1, n):
            decl(["group", "pg%d" % i], [["use", "pg%d" % (i + 1)]])
        last = {"usechain": ["pa", ":", "int"], "usecycle": ["use", "pg1"], "usedangling": ["use", "pgnosuch"]}[what]
        decl(["group", "pg%d" % n], [last])
    elif what == "usewide":
        decl(["element", "zp"], [["use", "pw%d" % i] for i in range(1, n + 1)])
        for i in range(1, n + 1):
            decl(["group", "pw%d" % i], [["pa%d" % i, ":", "int"]])
    elif what == "members":
        decl(["element", "zp"], [["pa%d" % i, ":", "int"] for i in range(1, n + 1)] +
             [["exclusive"] + ["pa%d" % i for i in range(1, n + 1)]])
    elif what == "enumitems":
        decl(["enum", "zp"], [["k%d" % i, "=", str(i)] for i in range(1, n + 1)])
    elif what == "decls":
        decl(["element", "zp"], [["child", "pd%d" % i, "*"] for i in range(1, n + 1)])
        for i in range(1, n + 1):
            decl(["element", "pd%d" % i], [])
    elif what == "vecdefault":
        v = ["{"]
        for i in range(1, n + 1):
            if i > 1:
                v.append(",")
            v.append(str(i))
        decl(["element", "zp"], [["pa", ":", "double", "[", "]", "=", *v, "}"]])
    else:
        raise ValueError("pump kind " + what)
    return L


_real_text = None


def real_text():
    global _real_text
    if _real_text is None:
        with open(REAL_SCHEMA, encoding="utf-8") as f:
            _real_text = f.read()
    return _real_text


_FUZZ_TOKENS = ["enum", "group", "element", "variant", "use", "child", "set", "exclusive", "together", "requires",
                "oneof", "{", "}", "(", ")", "[", "]", "<", ">", ":", "=", ",", "?", "!", "*", "+", "..", "R",
                "a", "b", "g1", "x1", "e1", "double", "int", "string", "bool", "file", "chars", "float", "id", "ref",
                "flags", "1", "3", "-1", "0.5", "1e3", '"s"', '""', "required", "min", "max", "pattern", "xml",
                "alias", "field", "mjNREF", "true", "\n", "\n", "# c\n", "$", "'", '"', "."]


def render(sch, aux, style=0, doc=False, seed=0, rep=0):
    """text of the abstract schema sch decorated by aux.
    doc: every member line gets a trailing comment '# m<line>' (the parser must attach it as the member's doc)."""
    # a line = [indent, tokens, is_member_line, raw (tokens are the words of a verbatim source line), comment]
    lines = []
    for d in sch:
        if d["k"] == "extern":
            for ln in real_text().split("\n"):
                code, sep, com = ln.partition("#")
                lines.append([0, code.split(" "), False, True, sep + com])
        else:
            lines += [[ind, toks, m, False, ""] for (ind, toks, m) in decl_lines(d, fancy=(style == 1))]
    if aux["k"] == "pump":
        lines += [[ind, toks, m, False, ""] for (ind, toks, m) in pump_lines(aux)]
    if aux["k"] == "noise":
        flat = [(li, t) for li, ln in enumerate(lines) for t in ln[1] if t != ""]
        what, p = aux["what"], aux["n"]
        n = len(flat)
        if what == "fuzz":
            rng = random.Random((seed * 1000003 + p * 7919 + rep * 104729 + n) & 0xFFFFFFFF)
            k = 3 + rng.randrange(40)
            return " ".join(rng.choice(_FUZZ_TOKENS) for _ in range(k))
        idx = min(n - 1, (p * n) // 8 + rep) if n else 0
        if what == "del" and n:
            del flat[idx]
        elif what == "dup" and n:
            flat.insert(idx, flat[idx])
        elif what == "swap" and n > 1:
            j = idx if idx + 1 < n else idx - 1
            (l1, t1), (l2, t2) = flat[j], flat[j + 1]
            flat[j], flat[j + 1] = (l1, t2), (l2, t1)
        elif what == "trunc":
            flat = flat[:idx]
        elif what == "badchar":
            flat.insert(idx, (flat[idx][0] if n else 0, "$@;'"[rep % 4]))
        by = {}
        for li, t in flat:
            by.setdefault(li, []).append(t)
        if not lines:
            lines = [[0, [], False, False, ""]]
        for li, ln in enumerate(lines):
            ln[1] = by.get(li, [])
        if what == "trunc":
            lines = lines[:(max(by) if by else -1) + 1]
    out = []
    for li, (ind, toks, is_mem, raw, com) in enumerate(lines):
        s = (" ".join(toks) + com) if raw else " " * ind + join_tokens(toks, style)
        if doc and is_mem and toks:
            s += "   # m%d" % (li + 1)
        out.append(s)
    text = "\n".join(out)
    if style != 2 and out:
        text += "\n"
    if doc:
        text = "# leading comment\n\n" + text
    return text


def doc_offset(doc):
    return 2 if doc else 0


# ----------------------------------------------------------------------------------------------
# projection of a parsed Schema onto Obs() of the specification
# ----------------------------------------------------------------------------------------------
def _fac_py(facets):
    out = []
    for k, v in facets.items():
        if v is True:
            out.append((k, "flag", 0, ""))
        elif isinstance(v, str):
            out.append((k, "txt", 0, v))
        elif isinstance(v, float) and v == int(v):
            out.append((k, "num", int(v), ""))
        else:
            out.append((k, "other", 0, repr(v)))
    return tuple(out)


def _def_py(d):
    if d is None:
        return ("none", 0, "")
    if isinstance(d, tuple):
        if d == tuple(float(i) for i in range(1, len(d) + 1)):
            return ("vec", len(d), "")
        return ("vec?", len(d), repr(d))
    if isinstance(d, float):
        return ("num", int(d), "") if d == int(d) else ("num?", 0, repr(d))
    if isinstance(d, str):
        return ("txt", 0, d)
    return ("other", 0, repr(d))


def _attr_py(a):
    hi = a.arity.hi
    if hi is None:
        hk, hv = "inf", 0
    elif isinstance(hi, str):
        hk, hv = "sym", 0
    else:
        hk, hv = "int", hi
    return (a.name, a.type, a.target or "", a.arity.lo, hk, hv, _def_py(a.default), _fac_py(a.facets))


def project(ms, schema):
    """parsed Schema -> {"enum": [...], "group": [...], "element": [...]} in declaration order per kind"""
    out = {"enum": [], "group": [], "element": []}
    for e in schema.enums.values():
        out["enum"].append(("enum", e.name, e.ctype or "", tuple((k, v) for k, v in e.items)))
    for g in schema.groups.values():
        out["group"].append(("group", g.name, bool(g.variant), len(g.members)))
    for el in schema.elements.values():
        out["element"].append((
            "element", el.name, el.spec or "", _fac_py(el.facets),
            tuple(_attr_py(a) for a in schema.expanded_attrs(el)),
            tuple((c.name, c.card) for c in el.children()),
            tuple((c.field, c.value) for c in el.consts()),
            tuple((c.kind, tuple(tuple(b) for b in c.bundles)) for c in el.constraints())))
    return out


def _norm_fac(fs):
    return tuple((f[0], "txt" if f[1] in ("id", "str") else f[1], f[2], f[3]) for f in fs)


def obs_expected(obs):
    """Obs() as printed by TLC -> the same shape as project()"""
    out = {"enum": [], "group": [], "element": []}
    for d in obs:
        if d[0] == "enum":
            out["enum"].append(("enum", d[1], d[2], tuple(tuple(x) for x in d[3])))
        elif d[0] == "group":
            out["group"].append(("group", d[1], d[2], d[3]))
        else:
            attrs = tuple((a[0], a[1], a[2], a[3], a[4], a[5], tuple(a[6]), _norm_fac(a[7])) for a in d[4])
            out["element"].append(("element", d[1], d[2], _norm_fac(d[3]), attrs,
                                   tuple(tuple(x) for x in d[5]), tuple(tuple(x) for x in d[6]),
                                   tuple((c[0], tuple(tuple(b) for b in c[1])) for c in d[7])))
    return out


def member_docs(ms, schema):
    """{line: doc} of every member that carries a line"""
    out = {}
    for cont in list(schema.groups.values()) + list(schema.elements.values()):
        for m in cont.members:
            if hasattr(m, "doc"):
                out[m.line] = m.doc
    return out
