"""C36 - equivalent model descriptions compile to equivalent physics.

Rewrites.tla (documents on the 24-rotation / integer lattice, orientation spellings, default classes and childclass
contexts, frames, compiler flags; rewrites that change the spelling but not the meaning) is model-checked by TLC.
Every (base document, rewritten document) pair TLC produces is rendered to MJCF text, read by the real
mj_parseXMLString (src/xml/*.cc over the /verif tinyxml2 stand-in) and compiled; compared are all compiled arrays
(1e-12, quaternions up to sign) when nothing is dropped, the world poses of every surviving named element with
the integers the specification computed, 20-step trajectories of the surviving bodies, and - for a runtime edit -
mj_setConst on the compiled model against recompiling the edited document.
"""
import glob
import math
import os

from vlib import build, tlc, drv
from vlib.check import Machinery, VERIF
from checks import tladump

TLA = os.path.join(VERIF, "tla")
SPEC = os.path.join(TLA, "Rewrites.tla")

META = dict(
    engine="tlc-replay",
    technique="TLA+ spec Rewrites.tla (meaning of an MJCF document on the 24-rotation lattice: orientation spellings, "
              "degree/radian, default classes and childclass, frames, fusestatic / discardvisual, runtime mass edit; "
              "rewrites proved meaning-preserving by TLC) ; every base/rewritten pair rendered to MJCF, compiled by the "
              "real reader and compiler and compared: compiled arrays 1e-12, world poses against the specification's "
              "integers, 20-step trajectories, mj_setConst vs recompile",
    text="TLC decides that each rewrite (respelling an orientation as quat / axisangle / euler / xyaxes / zaxis, "
         "degree <-> radian, explicit <-> inherited attribute, class <-> childclass, frame wrapping, replicate written out, fusestatic, "
         "discardvisual, runtime mass edit) preserves the world view of the surviving elements, for all documents "
         "within the bounds; the implementation is run on every pair.",
    note="Not covered: attach vs inline, replicate around anything but a single geom with a rotation about z, "
         "runtime edits other than body mass. Orientations are restricted to the 24 rotations of the cube, positions to "
         "integers. The XML tokenizer is the /verif shim, not tinyxml2. Rendering of a document to MJCF text (render()) "
         "and the matrix->quaternion conversion used for the quat spelling are trusted.",
    ref="DESIGN.md section 4 C36")

OBJ = dict(body=1, joint=3, geom=5)
FRICVAL = {0: 1.0, 1: 0.5, 2: 0.25}      # abstract friction value -> first friction coefficient (0: built-in default)


def harness():
    srcs = [os.path.join(VERIF, "harness", "xmlrt_drv.cc")] + sorted(glob.glob(os.path.join(build.REPO, "src", "xml", "*.cc")))
    return build.build_harness("xmlrt_drv", srcs, extra=["-I" + os.path.join(VERIF, "shim", "fullxml")], ldflags=["-rdynamic"])


def num(x):
    return repr(float(x)) if float(x) != int(x) else str(int(x))


def mat2quat(m):
    """quaternion (w >= 0 branch of the standard algorithm) of a row-major rotation matrix"""
    r = [[m[0], m[1], m[2]], [m[3], m[4], m[5]], [m[6], m[7], m[8]]]
    tr = r[0][0] + r[1][1] + r[2][2]
    if tr > 0:
        w = 0.5 * math.sqrt(1 + tr)
        return [w, (r[2][1] - r[1][2]) / (4 * w), (r[0][2] - r[2][0]) / (4 * w), (r[1][0] - r[0][1]) / (4 * w)]
    i = max(range(3), key=lambda k: r[k][k])
    j, k = (i + 1) % 3, (i + 2) % 3
    s = 0.5 * math.sqrt(1 + r[i][i] - r[j][j] - r[k][k])
    q = [0.0] * 4
    q[1 + i] = s
    q[0] = (r[k][j] - r[j][k]) / (4 * s)
    q[1 + j] = (r[j][i] + r[i][j]) / (4 * s)
    q[1 + k] = (r[k][i] + r[i][k]) / (4 * s)
    return q


def spell_attr(s, angle):
    """orientation attribute text of a spelling"""
    def ang(deg):
        return num(deg) if angle == "degree" else repr(math.radians(deg))
    k = s["k"]
    if k == "quat":
        return 'quat="%s"' % " ".join(repr(x) if x != int(x) else str(int(x)) for x in mat2quat(s["g"]))
    if k == "axisangle":
        a = s["a"]
        L = a[0] * a[0] + a[1] * a[1] + a[2] * a[2]
        deg = 90 * s["n"] if L == 1 else 180 if L == 2 else 120 * s["n"]
        return 'axisangle="%d %d %d %s"' % (a[0], a[1], a[2], ang(deg))
    if k == "euler":
        return 'euler="%s"' % " ".join(ang(90 * e) for e in s["e"])
    if k == "xyaxes":
        return 'xyaxes="%s"' % " ".join(str(v) for v in list(s["x"]) + list(s["y"]))
    return 'zaxis="%s"' % " ".join(str(v) for v in s["z"])


def ename(name, copy):
    return "n%d" % name + ("_%d" % copy if copy >= 0 else "")


def render(doc, mass_override=None):
    """MJCF text of an abstract document"""
    nodes = doc["nodes"]
    kids = {}
    for i, n in enumerate(nodes, 1):
        kids.setdefault(n["up"], []).append(i)
    for v in kids.values():
        v.sort(key=lambda i: (nodes[i - 1]["ord"], 0 if nodes[i - 1]["t"] == "frame" else 1, nodes[i - 1]["copy"], i))

    def vec(v):
        return " ".join(str(x) for x in v)

    def emit(c, ind):
        out = []
        for i in kids.get(c, []):
            n = nodes[i - 1]
            pad = "  " * ind
            if n["t"] == "dead":
                continue
            if n["t"] == "replicate":
                out.append('%s<replicate count="%d" offset="%s" %s sep="_">' % (pad, n["cnt"], vec(n["pos"]), spell_attr(n["ori"], doc["angle"])))
                out += emit(i, ind + 1)
                out.append("%s</replicate>" % pad)
            elif n["t"] == "geom":
                a = ['name="%s"' % ename(n["name"], n["copy"]), 'type="box"', 'size="0.1 0.2 0.3"', 'pos="%s"' % vec(n["pos"]), spell_attr(n["ori"], doc["angle"])]
                if n["cls"]:
                    a.append('class="%s"' % n["cls"])
                if n["fric"] != -1:
                    a.append('friction="%s"' % num(FRICVAL[n["fric"]]))
                if n["vis"]:
                    a.append('contype="0" conaffinity="0"')
                out.append("%s<geom %s/>" % (pad, " ".join(a)))
            elif n["t"] == "joint":
                out.append('%s<joint name="n%d" type="%s" axis="%s" pos="%s"/>' % (pad, n["name"], n["jt"], vec(n["axis"]), vec(n["pos"])))
            elif n["t"] == "frame":
                a = ['pos="%s"' % vec(n["pos"]), spell_attr(n["ori"], doc["angle"])]
                if n["cc"]:
                    a.append('childclass="%s"' % n["cc"])
                out.append("%s<frame %s>" % (pad, " ".join(a)))
                out += emit(i, ind + 1)
                out.append("%s</frame>" % pad)
            else:
                a = ['name="n%d"' % n["name"], 'pos="%s"' % vec(n["pos"]), spell_attr(n["ori"], doc["angle"])]
                if n["cc"]:
                    a.append('childclass="%s"' % n["cc"])
                m = n["mass"]
                if mass_override and mass_override[0] == n["name"]:
                    m = mass_override[1]
                out.append("%s<body %s>" % (pad, " ".join(a)))
                out.append('%s  <inertial pos="0 0 0" mass="%d" diaginertia="1 1 1"/>' % (pad, m))
                out += emit(i, ind + 1)
                out.append("%s</body>" % pad)
        return out

    L = ['<mujoco model="rw">',
         '  <compiler angle="%s" fusestatic="%s" discardvisual="%s"/>' % (
             doc["angle"], "true" if doc["fuse"] else "false", "true" if doc["discard"] else "false"),
         '  <option timestep="0.002"/>', "  <default>"]
    if doc["cls"]["main"] != -1:
        L.append('    <geom friction="%s"/>' % num(FRICVAL[doc["cls"]["main"]]))
    L.append('    <default class="c1">')
    if doc["cls"]["c1"] != -1:
        L.append('      <geom friction="%s"/>' % num(FRICVAL[doc["cls"]["c1"]]))
    L += ["    </default>", "  </default>", "  <worldbody>"] + emit(0, 2) + ["  </worldbody>", "</mujoco>"]
    return "\n".join(L) + "\n"


def queries(kept):
    """data queries of a world view: (line suffix, expected numbers)"""
    out = []
    for e in kept:
        if not e["name"]:
            continue
        nm = drv.hx(ename(e["name"], e["copy"]))
        if e["t"] == "body":
            out.append(("dfld %%d %d %s xpos 3" % (OBJ["body"], nm), [float(x) for x in e["wpos"]]))
            out.append(("dfld %%d %d %s xmat 9" % (OBJ["body"], nm), [float(x) for x in e["wrot"]]))
        elif e["t"] == "geom":
            out.append(("dfld %%d %d %s geom_xpos 3" % (OBJ["geom"], nm), [float(x) for x in e["wpos"]]))
            out.append(("dfld %%d %d %s geom_xmat 9" % (OBJ["geom"], nm), [float(x) for x in e["wrot"]]))
            out.append(("fld %%d %d %s geom_friction 3 0" % (OBJ["geom"], nm), [FRICVAL[e["fric"]]]))
        else:
            out.append(("dfld %%d %d %s xanchor 3" % (OBJ["joint"], nm), [float(x) for x in e["wpos"]]))
            out.append(("dfld %%d %d %s xaxis 3" % (OBJ["joint"], nm), [float(x) for x in e["waxis"]]))
    return out


def flat(kept):
    """ev.kept: per node the entries of its copies -> flat list of entries"""
    return [e for per in kept for e in per if e["name"]]


def parse_nums(line):
    try:
        return [float(x) for x in line.split()]
    except ValueError:
        return line


def close(want, got, tol):
    return isinstance(got, list) and len(want) == len(got) and all(abs(a - b) <= tol * (1 + abs(a)) for a, b in zip(want, got))


def what_changed(base, cur, name):
    """feature of the rewrite for signatures"""
    if name == "Respell":
        for a, b in zip(base["nodes"], cur["nodes"]):
            if a["ori"] != b["ori"]:
                return "Respell:%s->%s" % (a["ori"]["k"], b["ori"]["k"])
    if name == "ToggleAngle":
        return "ToggleAngle:" + cur["angle"]
    return name


def case_lines(st):
    """script of one case; returns (lines, layout) where layout names the outputs"""
    base, cur, ev = st["base"], st["cur"], st["ev"]
    kept = flat(ev["kept"])
    L = ["parsexml 1 " + drv.hx(render(base)), "compile 1 1", "parsexml 2 " + drv.hx(render(cur)), "compile 2 2"]
    lay = {"build": (0, 4)}
    L.append("mcmp 1 2 1e-12 quatsign" if ev["samearrays"] else "echo skip")
    lay["arrays"] = len(L) - 1
    L += ["data 1 1", "forward 1", "data 2 2", "forward 2"]
    q = queries(kept)
    lay["q"] = (len(L), q)
    for line, _w in q:
        L.append(line % 2)
        L.append((line % 1) if True else "")
    names = " ".join("%d:%s" % (OBJ[e["t"]], drv.hx(ename(e["name"], e["copy"]))) for e in kept if e["t"] in ("body", "geom"))
    lay["traj"] = len(L)
    L += ["trajx 1 20 " + names, "trajx 2 20 " + names]
    lay["edit"] = None
    if cur["edit"]:
        ed = cur["edit"][0]
        pre = render(cur, mass_override=(ed["name"], 1))
        lay["edit"] = len(L)
        L += ["parsexml 3 " + drv.hx(pre), "compile 3 3", "data 3 3",
              "msetn 3 %d %s body_mass 1 0 %d" % (OBJ["body"], drv.hx("n%d" % ed["name"]), ed["mass"]),
              "setConst 3 3", "mcmp 2 3 1e-12 nostat,quatsign"]
    return L, lay


def run_cases(ctx, exe, states, label):
    lines, index = [], []
    for st in states:
        l, lay = case_lines(st)
        index.append((len(lines), len(l), lay, st))
        lines += l
    r = drv.run_script(exe, lines, timeout=3000)
    if r.crashed or len(r.lines) != len(lines):
        k = len(r.lines)
        bad = next((ix for ix in index if ix[0] <= k < ix[0] + ix[1]), index[-1])
        raise Machinery("harness died (%s) in %s case %r: outputs %r" % (r.crash_text(), label, bad[3]["log"], r.lines[bad[0]:bad[0] + 5]))
    ctrl = False
    for off, ln, lay, st in index:
        out = r.lines[off:off + ln]
        base, cur, ev = st["base"], st["cur"], st["ev"]
        rw = st["log"][-1]
        feat = what_changed(base, cur, rw)
        ctx.case({"base": tlc.to_py(base), "cur": tlc.to_py(cur)}, nontrivial=True,
                 sample={"rewrites": list(st["log"]), "xml": render(cur).split("\n")[:14]})
        rep = {"base": render(base), "cur": render(cur), "log": list(st["log"]), "kept": tlc.to_py(flat(ev["kept"])),
               "samearrays": ev["samearrays"], "edit": tlc.to_py(cur["edit"])}
        if out[0:4] != ["ok"] * 4:
            bad = next(x for x in out[0:4] if x != "ok")
            which = "base" if out[0] != "ok" or out[1] != "ok" else "rewritten"
            if which == "base":
                raise Machinery("base document does not compile: %s\n%s" % (bad, render(base)))
            ctx.violation("rw:%s:does-not-compile" % feat, "rewritten document is rejected (%s) though the base compiles; rewrites %s\n%s"
                          % (bad, list(st["log"]), render(cur)), rep)
            continue
        ok = True
        if ev["samearrays"] and out[lay["arrays"]] != "eq":
            f = out[lay["arrays"]].split()[1] if len(out[lay["arrays"]].split()) > 1 else "?"
            ctx.violation("rw:%s:arrays:%s" % (feat, f), "compiled arrays differ after rewrites %s: %s\n%s" % (
                list(st["log"]), out[lay["arrays"]][:200], render(cur)), rep)
            ok = False
        qoff, q = lay["q"]
        for j, (line, want) in enumerate(q):
            got2 = parse_nums(out[qoff + 2 * j])
            got1 = parse_nums(out[qoff + 2 * j + 1])
            if not ctrl:
                ctx.control("comparer flags a perturbed expected pose", not close([w + 1 for w in want], got2, 1e-12))
                ctrl = True
            if not close(want, got2, 1e-12):
                ctx.violation("rw:%s:view:%s" % (feat, line.split()[4]), "rewritten document: %s is %r, the specification says %r; "
                              "rewrites %s\n%s" % (line % 2, got2, want, list(st["log"]), render(cur)), rep)
                ok = False
                break
            if not close(want, got1, 1e-12):
                # the element survives in the rewritten document, so it exists in the base with the same world pose
                raise Machinery("base document does not show the specification's view: %s is %r, want %r\n%s" % (line % 1, got1, want, render(base)))
        t1, t2 = parse_nums(out[lay["traj"]]), parse_nums(out[lay["traj"] + 1])
        if ok and not (t1 == t2 == "-") and not (isinstance(t1, list) and isinstance(t2, list) and close(t1, t2, 1e-9)):
            ctx.violation("rw:%s:trajectory" % feat, "20-step trajectories of the surviving elements differ after rewrites %s: %r vs %r\n%s"
                          % (list(st["log"]), t1, t2, render(cur)), rep)
            ok = False
        if lay["edit"] is not None:
            eo = out[lay["edit"]:lay["edit"] + 6]
            if eo[3] == "noid":
                pass        # the edited body was fused away: there is no compiled parameter to edit at runtime
            elif eo[0:5] != ["ok"] * 5:
                raise Machinery("runtime-edit route failed: %r" % eo)
            elif eo[5] != "eq":
                ctx.violation("rw:EditMass:setconst:%s" % (eo[5].split()[1] if len(eo[5].split()) > 1 else "?"),
                              "mj_setConst after a runtime mass edit differs from recompiling the edited document: %s\n%s" % (
                                  eo[5][:200], render(cur)), rep)
                ok = False
        if ok:
            ctx.trace_ok()
    return len(index)


def rewrite_states(cfg, timeout):
    sel = lambda blk: {"base", "cur", "log", "ev"} if 'op |-> "rewrite"' in blk else None
    res, states, cleanup = tladump.run_dump(SPEC, os.path.join(TLA, cfg), timeout=timeout, coverage=True, select=sel)
    try:
        sts = list(states())
    finally:
        cleanup()
    sts.sort(key=lambda st: repr((tlc.to_py(st["base"]), tlc.to_py(st["cur"]), list(st["log"]))))    # TLC's dump order varies
    return res, sts


def run(ctx):
    exe = harness()
    ctx.assume("documents on the lattice: 24 cube rotations, integer positions, <= 4 elements, <= 2 rewrites",
               "the XML tokenizer is the /verif stand-in for tinyxml2",
               "attach rewritings, replicate of more than one geom and runtime edits other than body mass are not covered",
               "compiled arrays are compared to 1e-12 with quaternions up to sign; trajectories to 1e-9")
    to = 900 if ctx.quick else 3000
    res = tlc.run(SPEC, os.path.join(TLA, "Rewrites_Neg.cfg"), timeout=to)
    ctx.tlc_ok(res, "Rewrites_Neg", allow_violation=True)
    ctx.control("TLC refutes SameMeaning for a frame wrapping that does not invert the frame",
                res.violation is not None and "SameMeaning" in res.violation)
    cfgs = ["Rewrites_SpellQ.cfg", "Rewrites_MCQ.cfg", "Rewrites_ReplQ.cfg"] if ctx.quick else \
           ["Rewrites_Spell.cfg", "Rewrites_MC.cfg", "Rewrites_Repl.cfg", "Rewrites_Repl2.cfg", "Rewrites_Deep.cfg", "Rewrites_Two.cfg",
            "Rewrites_SpellDeep.cfg"]
    n = 0
    for cfg in cfgs:
        res, sts = rewrite_states(cfg, to)
        ctx.tlc_ok(res, cfg[:-4], need_actions=["Start"])
        if not sts:
            raise Machinery("no rewritten documents from " + cfg)
        n += run_cases(ctx, exe, sts, cfg)
    # comparer control: two different rotations are told apart, a copy is accepted
    a = '<mujoco><worldbody><geom name="g" type="box" size="0.1 0.2 0.3" quat="1 0 0 0"/></worldbody></mujoco>'
    b = '<mujoco><worldbody><geom name="g" type="box" size="0.1 0.2 0.3" quat="0 1 0 0"/></worldbody></mujoco>'
    r = drv.run_script(exe, ["parsexml 1 " + drv.hx(a), "compile 1 1", "parsexml 2 " + drv.hx(b), "compile 2 2",
                             "copymodel 3 1", "mcmp 1 2 1e-12 quatsign", "mcmp 1 3 1e-12 quatsign"])
    ctx.control("array comparer tells two rotations apart and accepts a copy",
                len(r.lines) == 7 and r.lines[5].startswith("ne") and r.lines[6] == "eq")
    ctx.cov["exhaustive"] = True
    ctx.cov["rule"] = ("every rewritten document of the exhaustive configurations (%d pairs) rendered to MJCF and compiled "
                       "next to its base; non-trivial = every pair; distinct = distinct (base, rewritten) pairs" % n)


def replay(ctx, rp):
    exe = harness()
    d = rp["replay"]
    L = ["parsexml 1 " + drv.hx(d["base"]), "compile 1 1", "parsexml 2 " + drv.hx(d["cur"]), "compile 2 2",
         "mdiff 1 2 1e-12 quatsign", "data 1 1", "forward 1", "data 2 2", "forward 2"]
    q = queries(d["kept"])
    for line, _w in q:
        L.append(line % 2)
    r = drv.run_script(exe, L)
    print(d["cur"])
    print("build:", r.lines[:4], "| arrays:", r.lines[4][:300])
    bad = r.lines[:4] != ["ok"] * 4 or (d["samearrays"] and r.lines[4] != "eq")
    for j, (line, want) in enumerate(q):
        got = parse_nums(r.lines[9 + j]) if 9 + j < len(r.lines) else None
        if not close(want, got, 1e-12):
            print("view:", line % 2, "want", want, "got", got)
            bad = True
    if d.get("edit"):
        ed = d["edit"][0]
        import re
        pre = re.sub(r'(<body name="n%d"[^>]*>\s*<inertial pos="0 0 0" mass=")\d+' % ed["name"], r"\g<1>1", d["cur"])
        r2 = drv.run_script(exe, ["parsexml 2 " + drv.hx(d["cur"]), "compile 2 2", "parsexml 3 " + drv.hx(pre), "compile 3 3", "data 3 3",
                                  "msetn 3 1 %s body_mass 1 0 %d" % (drv.hx("n%d" % ed["name"]), ed["mass"]), "setConst 3 3",
                                  "mdiff 2 3 1e-12 nostat,quatsign"])
        print("setConst vs recompile:", r2.lines[-1][:400])
        bad = bad or r2.lines[-1] != "eq"
    if bad:
        ctx.violation(rp["signature"], rp["what"], d)
    res = tlc.run(SPEC, os.path.join(TLA, "Rewrites_Neg.cfg"), timeout=900)
    ctx.tlc_ok(res, "Rewrites_Neg", allow_violation=True)
    ctx.case({"replay": rp["signature"]})
    ctx.case({"replay": rp["signature"], "x": 1})
    ctx.trace_ok()
