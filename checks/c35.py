"""C35 - compiled mass properties match the geometry: MassProps.tla decided by TLC on an integer lattice of box geoms
(volume / shell / explicit mass / 12-triangle meshes, fused and separate static children, settotalmass); every finished
lattice model is compiled by the real compiler and body_mass, body_ipos and the tensor rebuilt from body_iquat /
body_inertia are compared with the exact rationals published by the specification.  The specification is a state machine
over a living mjSpec: after a compile it edits geom group / density / mass / size / position or inertiagrouprange and
compiles the SAME spec again (mj_recompile or a second mj_compile); every such history is replayed on one mjSpec object,
each compile is compared with the specification, and the last one also with a freshly built spec of the same content."""
import concurrent.futures as cf
import os
from fractions import Fraction

from vlib import build, drv, tlc
from vlib.check import Machinery, VERIF
from checks import tladump

TLA = os.path.join(VERIF, "tla")
SPEC = os.path.join(TLA, "MassProps.tla")
TOL = Fraction(1, 10 ** 9)
FAST_JIT = ("-XX:TieredStopAtLevel=1", "-XX:ParallelGCThreads=2")
WORKERS = 4

META = dict(
    engine="tlc-replay",
    technique="TLA+ spec MassProps.tla: geom mass = density x volume (area for shells), box / six-plate shell inertia, "
              "mesh integrals by signed tetrahedra / triangles over the 12 triangles of a box, body centre of mass and "
              "inertia derived twice (pairwise Lagrange form and origin-then-shift) in exact integers; TLC decides the "
              "parallel-axis theorem, mesh = box for all 64 tessellations, symmetry and triangle inequalities; every "
              "finished model is replayed into mj_compile; the spec lives on through Edit* / Recompile actions with the "
              "compiler's kept per-geom record modelled, TLC decides HistoryIndependent (compiled properties after any "
              "history = those of a fresh spec of the current content) and refutes it for the count-by-kept-mass design",
    text="Exhaustive lattices (1-2 geoms x kinds x sizes x offsets x orientations x child fused / separate; all mesh "
         "tessellations in the thorough tier) and simulated 1-3 geom models over the full lattice (24 orientations, 125 "
         "offsets, meshes with shifted vertices, settotalmass) are compiled; body_mass, body_ipos, the full inertia "
         "tensor R(iquat) diag(inertia) R' and the triangle inequality of the principal moments are compared (1e-9). "
         "Edit-and-recompile histories (exhaustive 2-compile histories over group / range / density / size edits, 3-compile "
         "histories in the thorough tier, simulated 3-compile histories over the full lattice) run on one mjSpec through "
         "mj_recompile and repeated mj_compile; after every compile the same comparison is made, and the final content is "
         "also compiled from a fresh spec.",
    note="Trusted: TLC, harness massprops_drv.cc (own quaternion -> matrix), rendering of the lattice model as a mkmodel "
         "description. Not decided: curved primitives (pi), convex-hull mesh inertia (no qhull in the offline build), "
         "general (non axis-aligned) orientations, boundmass / boundinertia / balanceinertia; specs whose static "
         "child was fused are not edited further (fusestatic deletes the body from the spec).",
    ref="DESIGN.md section 4 C35")

GEOM_BOX, GEOM_MESH = 6, 7
XYAXES = 2
MESH_INERTIA = {"exact": 1, "legacy": 2, "shell": 3}


def harness():
    return build.build_harness("massprops_drv", [os.path.join(VERIF, "harness", "massprops_drv.cc")],
                               extra=["-I" + os.path.join(VERIF, "harness")] + tladump.harness_digest_flag())


# ---- rendering (numbers -> description lines; no physics) ----------------------------------------------------------
def num(x):
    return repr(float(x))


def csv(xs):
    return ",".join(num(x) for x in xs)


def xyaxes(R):
    return csv([R[0][0], R[1][0], R[2][0], R[0][1], R[1][1], R[2][1]])


def model_lines(ev, geoms=None):
    """description of the spec content `geoms` (default: the current content of ev)"""
    geoms = ev["geoms"] if geoms is None else geoms
    ch = ev["child"]
    fused = ch["mode"] == "fused"
    L = ["compiler fusestatic=%d boundmass=0 boundinertia=0 settotalmass=%s" % (
        1 if fused else 0, num(ev["tmass"]) if ev["tmass"] > 0 else "-1"),
         "body name=b1 pos=0.5,-1,2 alt_type=%d xyaxes=0,1,0,0,0,1" % XYAXES,
         "joint body=b1 name=j1 type=3 axis=0,0,1"]
    if ch["mode"] != "none":
        L.append("body name=b2 parent=b1 pos=%s alt_type=%d xyaxes=%s" % (csv(ch["pos"]), XYAXES, xyaxes(ch["R"])))
    for i, g in enumerate(geoms):
        body = "b%d" % g["own"]
        common = "pos=%s alt_type=%d xyaxes=%s contype=0 conaffinity=0 group=%d" % (
            csv(g["pos"]), XYAXES, xyaxes(g["R"]), g["group"])
        if g["kind"] in ("mesh", "meshshell"):
            verts = [c for v in ev["verts"][i] for c in v]
            faces = [k - 1 for t in ev["faces"][i] for k in t]
            mode = "shell" if g["kind"] == "meshshell" else g["mmode"]
            L.append("mesh name=m%d uservert=%s userface=%s inertia=%d" % (
                i, csv(verts), ",".join(str(k) for k in faces), MESH_INERTIA[mode]))
            L.append("geom body=%s name=g%d type=%d meshname=m%d density=%s %s" % (
                body, i, GEOM_MESH, i, num(g["dens"]), common))
        else:
            mass = "mass=%s" % num(g["dens"]) if g["kind"] == "boxmass" else "density=%s" % num(g["dens"])
            L.append("geom body=%s name=g%d type=%d size=%s %s typeinertia=%d %s" % (
                body, i, GEOM_BOX, csv(g["hs"]), mass, 1 if g["kind"] == "shell" else 0, common))
    return L


def expected(ev, bodies=None):
    """[(body id, {field: [Fraction]}, ngeom)] straight from the published record; fields None: a body without mass"""
    out = []
    for b in (ev["bodies"] if bodies is None else bodies):
        if b["zero"]:
            out.append((b["id"], None, 0))
            continue
        mass = Fraction(b["mnum"], b["mden"])
        com = [Fraction(s, b["M"]) for s in b["S"]]
        ten = [Fraction(x * b["inum"], b["iden"]) for x in b["I"]]
        out.append((b["id"], {"mass": [mass], "ipos": com, "tensor": ten}, b["ngeom"]))
    return out


def features(ev):
    kinds = "+".join(sorted(set(g["kind"] for g in ev["geoms"])))
    f = "%s:n=%d:child=%s" % (kinds, len(ev["geoms"]), ev["child"]["mode"])
    if ev["tmass"] > 0:
        f += ":settotalmass"
    return f


def step_class(ev, k):
    """name of compile k (0-based) of the history: how it was started and which kinds of edits preceded it"""
    if k == "fresh":
        return ":fresh-spec-of-final-content"
    if k == 0:
        return ""
    h = ev["hist"][k]
    ops = sorted(set(e["op"] for e in h["edits"])) or ["none"]
    return ":after-%s:edits=%s" % (h["how"], "+".join(ops))


def close(got, want, scale):
    if got != got or got in (float("inf"), float("-inf")):
        return False
    return abs(Fraction(got) - want) <= TOL * scale


def parse_props(line):
    """'n | id m ix iy iz Ixx Iyy Izz Ixy Ixz Iyz i0 i1 i2 ng | ...' -> {id: dict}"""
    try:
        parts = line.split("|")
        out = {"nbody": int(parts[0])}
        for p in parts[1:]:
            t = p.split()
            v = [float(x) for x in t[1:14]]
            out[int(t[0])] = {"mass": v[0:1], "ipos": v[1:4], "tensor": v[4:10], "principal": v[10:13], "ngeom": int(t[14])}
        return out
    except (ValueError, IndexError, AttributeError):
        return None


def judge(ev, ok_line, props_line, bodies=None):
    """None if the compiled model agrees with the specification, else (field class, text)"""
    if ok_line not in ("ok", "0"):
        return "compile", "model does not compile: %s" % ok_line
    got = parse_props(props_line)
    if got is None:
        return "harness", "unreadable harness output %r" % (props_line,)
    exp = expected(ev, bodies)
    if got["nbody"] != 1 + (2 if ev["child"]["mode"] == "separate" else 1):
        return "nbody", "compiled model has %d bodies" % got["nbody"]
    for bid, fields, ngeom in exp:
        g = got.get(bid)
        if g is None:
            return "nbody", "body %d missing" % bid
        if fields is None:
            if g["mass"][0] != 0 or any(x != 0 for x in g["principal"]):
                return "massless-body", "body %d has no geom selected for inertia but mass %.17g, inertia %r" % (
                    bid, g["mass"][0], g["principal"])
            continue
        for name in ("mass", "ipos", "tensor"):
            want = fields[name]
            scale = max([Fraction(1)] + [abs(w) for w in want]) if name != "mass" else abs(want[0])
            for k, w in enumerate(want):
                if not close(g[name][k], w, scale):
                    rel = max(float(abs(Fraction(x) - y) / scale) if x == x and abs(x) != float("inf") else 1.0
                              for x, y in zip(g[name], want))
                    cls = name
                    if name == "tensor" and ngeom >= 2 and rel < 1e-5:
                        # mass and centre of mass agree to rounding, the tensor rebuilt from (iquat, inertia) is off by a
                        # small relative amount: the principal-axis decomposition of a multi-geom body is imprecise
                        cls = "tensor:principal-axes-imprecise:multi-geom:relerr<1e-5"
                    return cls, "body %d %s[%d] = %.17g, specification says %s = %.17g (largest relative error of %s: %.3g)" % (
                        bid, name, k, g[name][k], w, float(w), name, rel)
        p = sorted(g["principal"])
        if not (p[0] > 0 and p[0] + p[1] >= p[2] * (1 - 1e-9)):
            return "triangle", "body %d principal moments %r violate A + B >= C" % (bid, g["principal"])
    return None


# ---- TLC -> finished models ---------------------------------------------------------------------------------------
DONE = '/\\ stage = "done"'
FINAL = 'final |-> TRUE'          # the last compile of a behaviour: its ev.hist holds the whole history


def mc_models(cfg, name, timeout):
    """exhaustive run with a state dump -> (name, TlcResult, [ev of every finished model])"""
    res, states, cleanup = tladump.run_dump(SPEC, os.path.join(TLA, cfg), timeout=timeout, workers=WORKERS,
                                            select=lambda blk: {"ev"} if DONE in blk and FINAL in blk else None,
                                            java_opts=FAST_JIT)
    try:
        evs = [st["ev"] for st in states()] if res.error is None else []
    finally:
        cleanup()
    return name, res, evs


def sim_models(cfg, name, num_b, seed, timeout):
    res, behs = tladump.simulate(SPEC, os.path.join(TLA, cfg), num=num_b, depth=36, seed=seed, timeout=timeout,
                                 select=lambda act, blk: {"ev"} if DONE in blk else None, java_opts=FAST_JIT)
    if not res.generated:
        import re
        m = re.search(r'The number of states generated: (\d+)', res.out)
        if m:
            res.generated = res.distinct = int(m.group(1))
    return name, res, [b[-1][1]["ev"] for b in behs if b]


def negative_run(cfg, name):
    return name, tlc.run(SPEC, os.path.join(TLA, cfg), workers=2, timeout=600, java_opts=FAST_JIT), None


def negative_record(ctx, name, res):
    ctx.cov["tlc_runs"].append({"name": name, "generated": res.generated, "distinct": res.distinct, "depth": res.depth,
                                "wall_s": round(res.wall, 2), "queue_left": res.queue, "violation": res.violation})
    if res.error:
        raise Machinery("TLC run %s failed: %s\n%s" % (name, res.error, res.out[-2000:]))
    ctx.control(name, res.violation is not None)


def edit_lines(e, geoms):
    """harness commands of one edit record [op, i, val] (i: 1-based geom index)"""
    if e["op"] == "range":
        return ["irange 0 %d %d" % (e["val"][0], e["val"][1])]
    g = geoms[e["i"] - 1]
    name = "g%d" % (e["i"] - 1)
    if e["op"] == "group":
        return ["gset 0 %s group %d" % (name, e["val"])]
    if e["op"] == "density":
        return ["gset 0 %s %s %s" % (name, "mass" if g["kind"] == "boxmass" else "density", num(e["val"]))]
    if e["op"] == "size":
        return ["gset 0 %s size %s" % (name, csv(e["val"]))]
    if e["op"] == "pos":
        return ["gset 0 %s pos %s" % (name, csv(e["val"]))]
    raise Machinery("unknown edit %r" % (e,))


def history_script(ev):
    """(lines, steps): one mjSpec in slot 0 lives through the whole history; steps = [(step id, index of the status line,
    index of the props line, expected bodies)] with indices into this behaviour's output lines"""
    hist = ev["hist"]
    lines, steps = [], []
    nout = 0

    def op(l):
        nonlocal nout
        lines.append(l)
        nout += 1
        return nout - 1
    h0 = hist[0]
    lines.append("spec 0")
    lines.extend(model_lines(ev, h0["geoms"]))
    lines.append("end")
    nout += 1
    op("irange 0 %d %d" % (h0["range"][0], h0["range"][1]))
    a = op("compile 0 0")
    b = op("props 0")
    steps.append((0, a, b, h0["bodies"]))
    for k in range(1, len(hist)):
        h = hist[k]
        if h["how"] == "recompile":
            op("data 0 0")
        for e in h["edits"]:
            for l in edit_lines(e, h["geoms"]):
                op(l)
        a = op("recomp 0 0 0" if h["how"] == "recompile" else "compile 0 0")
        b = op("props 0")
        steps.append((k, a, b, h["bodies"]))
    if len(hist) > 1:
        # the final content on a freshly built spec (no history)
        lines.append("spec 1")
        lines.extend(model_lines(ev, hist[-1]["geoms"]))
        lines.append("end")
        nout += 1
        op("irange 1 %d %d" % (hist[-1]["range"][0], hist[-1]["range"][1]))
        a = op("compile 1 1")
        b = op("props 1")
        steps.append(("fresh", a, b, hist[-1]["bodies"]))
    return lines, steps, nout


def judge_history(ev, steps, got):
    """None or (step id, field class, text)"""
    for (k, a, b, bodies) in steps:
        if a >= len(got) or b >= len(got):
            return k, "crash", "harness died"
        v = judge(ev, got[a], got[b], bodies)
        if v is not None:
            return k, v[0], v[1]
    return None


def _left_range(ev):
    """a geom counted by one compile is outside the range at the next"""
    hist = ev["hist"]
    for k in range(1, len(hist)):
        for g0, g1 in zip(hist[k - 1]["geoms"], hist[k]["geoms"]):
            r0, r1 = hist[k - 1]["range"], hist[k]["range"]
            if r0[0] <= g0["group"] <= r0[1] and not (r1[0] <= g1["group"] <= r1[1]):
                return hist[k]["how"]
    return None


def _entered_range(ev):
    hist = ev["hist"]
    for k in range(1, len(hist)):
        for g0, g1 in zip(hist[k - 1]["geoms"], hist[k]["geoms"]):
            r0, r1 = hist[k - 1]["range"], hist[k]["range"]
            if not (r0[0] <= g0["group"] <= r0[1]) and r1[0] <= g1["group"] <= r1[1]:
                return True
    return False


def _edited(ev, op):
    return any(e["op"] == op for h in ev["hist"][1:] for e in h["edits"])


NEED = {
    "two or more geoms with products of inertia": lambda ev: any(b["ngeom"] >= 2 and any(b["I"][3:]) for b in ev["bodies"]),
    "shell inertia": lambda ev: any(g["kind"] == "shell" for g in ev["geoms"]),
    "volume mesh": lambda ev: any(g["kind"] == "mesh" for g in ev["geoms"]),
    "shell mesh": lambda ev: any(g["kind"] == "meshshell" for g in ev["geoms"]),
    "mesh with shifted vertices": lambda ev: any(g["kind"] in ("mesh", "meshshell") and any(g["moff"]) for g in ev["geoms"]),
    "static child fused into the body": lambda ev: ev["child"]["mode"] == "fused" and any(g["own"] == 2 for g in ev["geoms"]),
    "static child kept separate": lambda ev: len(ev["bodies"]) == 2,
    "rotated geom": lambda ev: any(g["R"] != ((1, 0, 0), (0, 1, 0), (0, 0, 1)) for g in ev["geoms"]),
    "a once-counted geom that leaves inertiagrouprange before an mj_recompile": lambda ev: _left_range(ev) == "recompile",
    "a once-counted geom that leaves inertiagrouprange before a second mj_compile": lambda ev: _left_range(ev) == "compile2",
    "a geom that enters inertiagrouprange between two compiles": _entered_range,
    "a geom leaving the range by an edit of its group": lambda ev: _left_range(ev) and _edited(ev, "group"),
    "a geom leaving the range by an edit of the range": lambda ev: _left_range(ev) and _edited(ev, "range"),
    "density / mass edited between two compiles": lambda ev: _edited(ev, "density"),
    "size edited between two compiles": lambda ev: _edited(ev, "size"),
    "a separate child body left without a counted geom": lambda ev: any(b["zero"] for h in ev["hist"][1:] for b in h["bodies"]),
    "a recompile without any edit": lambda ev: any(not h["edits"] for h in ev["hist"][1:]),
    "a history of three compiles": lambda ev: len(ev["hist"]) >= 3,
}


def run(ctx):
    exe = harness()
    ctx.assume("one moving body (hinge) with 1-3 box geoms, optionally a static child body carrying some of them",
               "integer half sizes, offsets, densities; the 24 axis-aligned orientations; meshes are 12-triangle boxes",
               "mesh inertia modes exact / legacy / shell (the convex mode needs qhull, absent from the offline build)",
               "comparison: 1e-9 relative to the mass / to the largest coordinate (min 1) / to the largest tensor entry")
    nsim = 300 if ctx.quick else 4000
    jobs = [(mc_models, ("MassProps_MC.cfg", "MassProps_MC", 900)),
            (mc_models, ("MassProps_Mesh.cfg", "MassProps_Mesh", 900)),
            (mc_models, ("MassProps_Edit.cfg", "MassProps_Edit", 900))]
    if not ctx.quick:
        jobs += [(mc_models, ("MassProps_Deep.cfg", "MassProps_Deep", 3000)),
                 (mc_models, ("MassProps_MeshDeep.cfg", "MassProps_MeshDeep", 3000)),
                 (mc_models, ("MassProps_EditDeep.cfg", "MassProps_EditDeep", 3000)),
                 (mc_models, ("MassProps_Edit3.cfg", "MassProps_Edit3", 3000))]
    jobs.append((sim_models, ("MassProps_Sim.cfg", "MassProps_Sim", nsim, ctx.seed + 1, 900 if ctx.quick else 3000)))
    jobs.append((negative_run, ("MassProps_Neg1.cfg", "TLC refutes 'a body tensor has no products of inertia'")))
    jobs.append((negative_run, ("MassProps_NegStale.cfg", "TLC refutes HistoryIndependent when geoms are counted by the mass "
                                                          "a previous compile left in them")))
    if not ctx.quick:
        jobs.append((negative_run, ("MassProps_Neg2.cfg", "TLC refutes 'the centre of mass is the first geom's centre'")))
    # the TLC runs are independent JVMs: run them side by side
    with cf.ThreadPoolExecutor(max_workers=6) as ex:
        results = [f.result() for f in [ex.submit(fn, *a) for fn, a in jobs]]
    groups = []
    for name, res, evs in results:
        if evs is None:
            negative_record(ctx, name, res)
            continue
        ctx.tlc_ok(res, name)
        if name == "MassProps_Sim":
            if len(evs) < nsim // 2:
                raise Machinery("vacuity: only %d of %d simulated behaviours finished a model" % (len(evs), nsim))
        elif not evs:
            raise Machinery("vacuity: TLC run %s produced no finished model" % name)
        groups.append((name, evs))
    groups.sort(key=lambda g: g[0] == "MassProps_Sim")
    evs = [ev for _n, g in groups for ev in g]
    for what, pred in NEED.items():
        if not any(pred(ev) for ev in evs):
            raise Machinery("vacuity: no replayed model with " + what)
    lines, index = [], []
    nout = 0
    for ev in evs:
        l, steps, n = history_script(ev)
        index.append((nout, n, steps, len(lines), len(l)))
        lines += l
        nout += n
    r = drv.run_script(exe, lines, timeout=2400)
    if len(r.lines) < nout and not r.crashed:
        raise Machinery("harness produced %d lines for %d commands: %s" % (len(r.lines), nout, r.err[-300:]))

    def verdict(i, ev=None):
        off, n, steps, _lo, _ln = index[i]
        return judge_history(evs[i] if ev is None else ev, steps, r.lines[off:off + n])
    # negative controls of the comparer: a perturbed expectation must be flagged
    # (on a model that agrees with the specification; if no multi-geom model agrees, everything below is reported anyway)
    k = next((i for i, ev in enumerate(evs) if len(ev["geoms"]) >= 2 and not ev["hist"][0]["bodies"][0]["zero"]
              and verdict(i) is None), None)
    if k is None:
        ctx.control("expected Ixx perturbed by 1e-5 of the largest entry is flagged (no agreeing model to perturb)", True)
    else:
        off, n, steps, _lo, _ln = index[k]

        def perturbed(fn):
            st = [(a, b, c, tuple(fn(x) if j == 0 else x for j, x in enumerate(bodies))) for (a, b, c, bodies) in steps]
            return judge_history(evs[k], st, r.lines[off:off + n])
        ctx.control("expected Ixx perturbed by 1e-5 of the largest entry is flagged", perturbed(
            lambda b: dict(b, I=tuple(x + (max(abs(y) for y in b["I"]) // 10 ** 5 + 1 if j == 0 else 0)
                                      for j, x in enumerate(b["I"])))) is not None)
        ctx.control("expected centre of mass shifted by 1/M is flagged", perturbed(
            lambda b: dict(b, S=(b["S"][0] + 1,) + tuple(b["S"][1:]))) is not None)
    kh = next((i for i, ev in enumerate(evs) if _left_range(ev) and verdict(i) is None), None)
    if kh is not None:
        # the expectation of a stale compiler: the last compile keeps the bodies of the compile before it
        off, n, steps, _lo, _ln = index[kh]
        hk = next(j for j in range(1, len(evs[kh]["hist"])) if _left_range(dict(evs[kh], hist=evs[kh]["hist"][j - 1:j + 1])))
        st = [(a, b, c, steps[hk - 1][3] if a == hk else bodies) for (a, b, c, bodies) in steps]
        ctx.control("an expectation that ignores the geom leaving the range is flagged",
                    judge_history(evs[kh], st, r.lines[off:off + n]) is not None)
    for i, ev in enumerate(evs):
        off, n, steps, lo, ln = index[i]
        key = tlc.to_py({"child": ev["child"], "tmass": ev["tmass"],
                         "hist": [{"how": h["how"], "edits": h["edits"], "geoms": h["geoms"], "range": h["range"]}
                                  for h in ev["hist"]]})
        ctx.case(key, nontrivial=True, sample={"features": features(ev), "compiles": len(ev["hist"]),
                                               "bodies": tlc.to_py(ev["bodies"])})
        v = verdict(i)
        if v is None:
            ctx.trace_ok()
            continue
        step, cls, text = v
        rp = {"lines": lines[lo:lo + ln], "ev": tlc.to_py(ev)}
        if cls == "crash":
            ctx.violation("C35:crash:" + features(ev) + step_class(ev, step),
                          "harness died (%s) while compiling %s" % (r.crash_text(), features(ev)), rp)
            break
        sig = "C35:" + cls if cls.startswith("tensor:principal") else "C35:%s:%s%s" % (cls, features(ev), step_class(ev, step))
        ctx.violation(sig, "%s (model %s, compile %s of %d%s)" % (text, features(ev), step if step == "fresh" else step + 1,
                                                                 len(ev["hist"]), step_class(ev, step)), rp)
    ctx.cov["exhaustive"] = True
    ctx.cov["rule"] = ("behaviours = every final state of the exhaustive lattices %s + %d simulated behaviours of the full "
                       "lattice; a behaviour is a history of 1-3 compiles of ONE mjSpec (edits of group / range / density / "
                       "mass / size / pos in between, mj_recompile or mj_compile again); after every compile mass, centre of "
                       "mass, full inertia tensor and the triangle inequality are compared for every body, and the final "
                       "content is compiled once more from a fresh spec; non-trivial = every behaviour (mass > 0); distinct = "
                       "distinct (child, settotalmass, history of contents and edits)" % (
                           [(n, len(g)) for n, g in groups[:-1]], len(groups[-1][1])))


def _tup(x):
    if isinstance(x, list):
        return tuple(_tup(y) for y in x)
    if isinstance(x, dict):
        return {k: _tup(v) for k, v in x.items()}
    return x


def replay(ctx, rp):
    exe = harness()
    ev = _tup(rp["replay"]["ev"])
    lines, steps, n = history_script(ev)
    r = drv.run_script(exe, lines, timeout=300)
    v = judge_history(ev, steps, r.lines)
    for (k, a, b, _bodies) in steps:
        print("compile %s: %s | %s" % (k, r.lines[a] if a < len(r.lines) else None, (r.lines[b] if b < len(r.lines) else "")[:300]))
    print("verdict: %s" % (v,))
    if v is not None:
        ctx.violation(rp["signature"], rp["what"], rp["replay"])
    ctx.case({"replay": rp["signature"]})
    ctx.case({"replay": rp["signature"], "x": 1})
