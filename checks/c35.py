"""C35 - compiled mass properties match the geometry: MassProps.tla decided by TLC on an integer lattice of box geoms
(volume / shell / explicit mass / 12-triangle meshes, fused and separate static children, settotalmass); every finished
lattice model is compiled by the real compiler and body_mass, body_ipos and the tensor rebuilt from body_iquat /
body_inertia are compared with the exact rationals published by the specification."""
import concurrent.futures as cf
import os
from fractions import Fraction

from vlib import build, drv, tlc
from vlib.check import Machinery, VERIF
from checks import tladump

TLA = os.path.join(VERIF, "tla")
SPEC = os.path.join(TLA, "MassProps.tla")
TOL = Fraction(1, 10 ** 9)
FAST_JIT = ("-XX:TieredStopAtLevel=1", "-XX:ParallelGCThreads=2")
WORKERS = 4

META = dict(
    engine="tlc-replay",
    technique="TLA+ spec MassProps.tla: geom mass = density x volume (area for shells), box / six-plate shell inertia, "
              "mesh integrals by signed tetrahedra / triangles over the 12 triangles of a box, body centre of mass and "
              "inertia derived twice (pairwise Lagrange form and origin-then-shift) in exact integers; TLC decides the "
              "parallel-axis theorem, mesh = box for all 64 tessellations, symmetry and triangle inequalities; every "
              "finished model is replayed into mj_compile",
    text="Exhaustive lattices (1-2 geoms x kinds x sizes x offsets x orientations x child fused / separate; all mesh "
         "tessellations in the thorough tier) and simulated 1-3 geom models over the full lattice (24 orientations, 125 "
         "offsets, meshes with shifted vertices, settotalmass) are compiled; body_mass, body_ipos, the full inertia "
         "tensor R(iquat) diag(inertia) R' and the triangle inequality of the principal moments are compared (1e-9).",
    note="Trusted: TLC, harness massprops_drv.cc (own quaternion -> matrix), rendering of the lattice model as a mkmodel "
         "description. Not decided: curved primitives (pi), convex-hull mesh inertia (no qhull in the offline build), "
         "general (non axis-aligned) orientations, boundmass / boundinertia / balanceinertia.",
    ref="DESIGN.md section 4 C35")

GEOM_BOX, GEOM_MESH = 6, 7
XYAXES = 2
MESH_INERTIA = {"exact": 1, "legacy": 2, "shell": 3}


def harness():
    return build.build_harness("massprops_drv", [os.path.join(VERIF, "harness", "massprops_drv.cc")],
                               extra=["-I" + os.path.join(VERIF, "harness")] + tladump.harness_digest_flag())


# ---- rendering (numbers -> description lines; no physics) ----------------------------------------------------------
def num(x):
    return repr(float(x))


def csv(xs):
    return ",".join(num(x) for x in xs)


def xyaxes(R):
    return csv([R[0][0], R[1][0], R[2][0], R[0][1], R[1][1], R[2][1]])


def model_lines(ev):
    ch = ev["child"]
    fused = ch["mode"] == "fused"
    L = ["compiler fusestatic=%d boundmass=0 boundinertia=0 settotalmass=%s" % (
        1 if fused else 0, num(ev["tmass"]) if ev["tmass"] > 0 else "-1"),
         "body name=b1 pos=0.5,-1,2 alt_type=%d xyaxes=0,1,0,0,0,1" % XYAXES,
         "joint body=b1 name=j1 type=3 axis=0,0,1"]
    if ch["mode"] != "none":
        L.append("body name=b2 parent=b1 pos=%s alt_type=%d xyaxes=%s" % (csv(ch["pos"]), XYAXES, xyaxes(ch["R"])))
    for i, g in enumerate(ev["geoms"]):
        body = "b%d" % g["own"]
        common = "pos=%s alt_type=%d xyaxes=%s contype=0 conaffinity=0" % (csv(g["pos"]), XYAXES, xyaxes(g["R"]))
        if g["kind"] in ("mesh", "meshshell"):
            verts = [c for v in ev["verts"][i] for c in v]
            faces = [k - 1 for t in ev["faces"][i] for k in t]
            mode = "shell" if g["kind"] == "meshshell" else g["mmode"]
            L.append("mesh name=m%d uservert=%s userface=%s inertia=%d" % (
                i, csv(verts), ",".join(str(k) for k in faces), MESH_INERTIA[mode]))
            L.append("geom body=%s name=g%d type=%d meshname=m%d density=%s %s" % (
                body, i, GEOM_MESH, i, num(g["dens"]), common))
        else:
            mass = "mass=%s" % num(g["dens"]) if g["kind"] == "boxmass" else "density=%s" % num(g["dens"])
            L.append("geom body=%s name=g%d type=%d size=%s %s typeinertia=%d %s" % (
                body, i, GEOM_BOX, csv(g["hs"]), mass, 1 if g["kind"] == "shell" else 0, common))
    return L


def expected(ev):
    """[(body id, {field: [Fraction]})] straight from the published record"""
    out = []
    for b in ev["bodies"]:
        mass = Fraction(b["mnum"], b["mden"])
        com = [Fraction(s, b["M"]) for s in b["S"]]
        ten = [Fraction(x * b["inum"], b["iden"]) for x in b["I"]]
        out.append((b["id"], {"mass": [mass], "ipos": com, "tensor": ten}, b["ngeom"]))
    return out


def features(ev):
    kinds = "+".join(sorted(set(g["kind"] for g in ev["geoms"])))
    f = "%s:n=%d:child=%s" % (kinds, len(ev["geoms"]), ev["child"]["mode"])
    if ev["tmass"] > 0:
        f += ":settotalmass"
    return f


def close(got, want, scale):
    if got != got or got in (float("inf"), float("-inf")):
        return False
    return abs(Fraction(got) - want) <= TOL * scale


def parse_props(line):
    """'n | id m ix iy iz Ixx Iyy Izz Ixy Ixz Iyz i0 i1 i2 ng | ...' -> {id: dict}"""
    try:
        parts = line.split("|")
        out = {"nbody": int(parts[0])}
        for p in parts[1:]:
            t = p.split()
            v = [float(x) for x in t[1:14]]
            out[int(t[0])] = {"mass": v[0:1], "ipos": v[1:4], "tensor": v[4:10], "principal": v[10:13], "ngeom": int(t[14])}
        return out
    except (ValueError, IndexError, AttributeError):
        return None


def judge(ev, ok_line, props_line):
    """None if the compiled model agrees with the specification, else (field class, text)"""
    if ok_line != "ok":
        return "compile", "model does not compile: %s" % ok_line
    got = parse_props(props_line)
    if got is None:
        return "harness", "unreadable harness output %r" % (props_line,)
    exp = expected(ev)
    if got["nbody"] != 1 + (2 if ev["child"]["mode"] == "separate" else 1):
        return "nbody", "compiled model has %d bodies" % got["nbody"]
    for bid, fields, ngeom in exp:
        g = got.get(bid)
        if g is None:
            return "nbody", "body %d missing" % bid
        for name in ("mass", "ipos", "tensor"):
            want = fields[name]
            scale = max([Fraction(1)] + [abs(w) for w in want]) if name != "mass" else abs(want[0])
            for k, w in enumerate(want):
                if not close(g[name][k], w, scale):
                    rel = max(float(abs(Fraction(x) - y) / scale) if x == x and abs(x) != float("inf") else 1.0
                              for x, y in zip(g[name], want))
                    cls = name
                    if name == "tensor" and ngeom >= 2 and rel < 1e-5:
                        # mass and centre of mass agree to rounding, the tensor rebuilt from (iquat, inertia) is off by a
                        # small relative amount: the principal-axis decomposition of a multi-geom body is imprecise
                        cls = "tensor:principal-axes-imprecise:multi-geom:relerr<1e-5"
                    return cls, "body %d %s[%d] = %.17g, specification says %s = %.17g (largest relative error of %s: %.3g)" % (
                        bid, name, k, g[name][k], w, float(w), name, rel)
        p = sorted(g["principal"])
        if not (p[0] > 0 and p[0] + p[1] >= p[2] * (1 - 1e-9)):
            return "triangle", "body %d principal moments %r violate A + B >= C" % (bid, g["principal"])
    return None


# ---- TLC -> finished models ---------------------------------------------------------------------------------------
DONE = '/\\ stage = "done"'


def mc_models(cfg, name, timeout):
    """exhaustive run with a state dump -> (name, TlcResult, [ev of every finished model])"""
    res, states, cleanup = tladump.run_dump(SPEC, os.path.join(TLA, cfg), timeout=timeout, workers=WORKERS,
                                            select=lambda blk: {"ev"} if DONE in blk else None, java_opts=FAST_JIT)
    try:
        evs = [st["ev"] for st in states()] if res.error is None else []
    finally:
        cleanup()
    return name, res, evs


def sim_models(cfg, name, num_b, seed, timeout):
    res, behs = tladump.simulate(SPEC, os.path.join(TLA, cfg), num=num_b, depth=14, seed=seed, timeout=timeout,
                                 select=lambda act, blk: {"ev"} if DONE in blk else None, java_opts=FAST_JIT)
    if not res.generated:
        import re
        m = re.search(r'The number of states generated: (\d+)', res.out)
        if m:
            res.generated = res.distinct = int(m.group(1))
    return name, res, [b[-1][1]["ev"] for b in behs if b]


def negative_run(cfg, name):
    return name, tlc.run(SPEC, os.path.join(TLA, cfg), workers=2, timeout=600, java_opts=FAST_JIT), None


def negative_record(ctx, name, res):
    ctx.cov["tlc_runs"].append({"name": name, "generated": res.generated, "distinct": res.distinct, "depth": res.depth,
                                "wall_s": round(res.wall, 2), "queue_left": res.queue, "violation": res.violation})
    if res.error:
        raise Machinery("TLC run %s failed: %s\n%s" % (name, res.error, res.out[-2000:]))
    ctx.control(name, res.violation is not None)


def script(evs):
    lines = []
    for ev in evs:
        lines.append("model 0")
        lines += model_lines(ev)
        lines.append("end")
        lines.append("props 0")
    return lines


NEED = {
    "two or more geoms with products of inertia": lambda ev: any(b["ngeom"] >= 2 and any(b["I"][3:]) for b in ev["bodies"]),
    "shell inertia": lambda ev: any(g["kind"] == "shell" for g in ev["geoms"]),
    "volume mesh": lambda ev: any(g["kind"] == "mesh" for g in ev["geoms"]),
    "shell mesh": lambda ev: any(g["kind"] == "meshshell" for g in ev["geoms"]),
    "mesh with shifted vertices": lambda ev: any(g["kind"] in ("mesh", "meshshell") and any(g["moff"]) for g in ev["geoms"]),
    "static child fused into the body": lambda ev: ev["child"]["mode"] == "fused" and any(g["own"] == 2 for g in ev["geoms"]),
    "static child kept separate": lambda ev: len(ev["bodies"]) == 2,
    "rotated geom": lambda ev: any(g["R"] != ((1, 0, 0), (0, 1, 0), (0, 0, 1)) for g in ev["geoms"]),
}


def run(ctx):
    exe = harness()
    ctx.assume("one moving body (hinge) with 1-3 box geoms, optionally a static child body carrying some of them",
               "integer half sizes, offsets, densities; the 24 axis-aligned orientations; meshes are 12-triangle boxes",
               "mesh inertia modes exact / legacy / shell (the convex mode needs qhull, absent from the offline build)",
               "comparison: 1e-9 relative to the mass / to the largest coordinate (min 1) / to the largest tensor entry")
    nsim = 800 if ctx.quick else 6000
    jobs = [(mc_models, ("MassProps_MC.cfg", "MassProps_MC", 900)),
            (mc_models, ("MassProps_Mesh.cfg", "MassProps_Mesh", 900))]
    if not ctx.quick:
        jobs += [(mc_models, ("MassProps_Deep.cfg", "MassProps_Deep", 3000)),
                 (mc_models, ("MassProps_MeshDeep.cfg", "MassProps_MeshDeep", 3000))]
    jobs.append((sim_models, ("MassProps_Sim.cfg", "MassProps_Sim", nsim, ctx.seed + 1, 900 if ctx.quick else 3000)))
    jobs.append((negative_run, ("MassProps_Neg1.cfg", "TLC refutes 'a body tensor has no products of inertia'")))
    if not ctx.quick:
        jobs.append((negative_run, ("MassProps_Neg2.cfg", "TLC refutes 'the centre of mass is the first geom's centre'")))
    # the TLC runs are independent JVMs: run them side by side
    with cf.ThreadPoolExecutor(max_workers=4) as ex:
        results = [f.result() for f in [ex.submit(fn, *a) for fn, a in jobs]]
    groups = []
    for name, res, evs in results:
        if evs is None:
            negative_record(ctx, name, res)
            continue
        ctx.tlc_ok(res, name)
        if name == "MassProps_Sim":
            if len(evs) < nsim // 2:
                raise Machinery("vacuity: only %d of %d simulated behaviours finished a model" % (len(evs), nsim))
        elif not evs:
            raise Machinery("vacuity: TLC run %s produced no finished model" % name)
        groups.append((name, evs))
    groups.sort(key=lambda g: g[0] == "MassProps_Sim")
    evs = [ev for _n, g in groups for ev in g]
    for what, pred in NEED.items():
        if not any(pred(ev) for ev in evs):
            raise Machinery("vacuity: no replayed model with " + what)
    r = drv.run_script(exe, script(evs), timeout=1800)
    if len(r.lines) < 2 * len(evs) and not r.crashed:
        raise Machinery("harness produced %d lines for %d models: %s" % (len(r.lines), len(evs), r.err[-300:]))
    # negative controls of the comparer: a perturbed expectation and a perturbed observation must be flagged
    # (on a model that agrees with the specification; if no multi-geom model agrees, everything below is reported anyway)
    k = next((i for i, ev in enumerate(evs) if len(ev["geoms"]) >= 2 and 2 * i + 1 < len(r.lines)
              and judge(ev, r.lines[2 * i], r.lines[2 * i + 1]) is None), None)
    if k is None:
        ctx.control("expected Ixx perturbed by 1e-5 of the largest entry is flagged (no agreeing model to perturb)", True)
    else:
        bad = dict(evs[k])
        bad["bodies"] = tuple(dict(b, I=tuple(x + (max(abs(y) for y in b["I"]) // 10 ** 5 + 1 if j == 0 else 0)
                                              for j, x in enumerate(b["I"]))) for b in evs[k]["bodies"])
        ctx.control("expected Ixx perturbed by 1e-5 of the largest entry is flagged",
                    judge(bad, r.lines[2 * k], r.lines[2 * k + 1]) is not None)
        bad = dict(evs[k])
        bad["bodies"] = tuple(dict(b, S=(b["S"][0] + 1,) + tuple(b["S"][1:])) for b in evs[k]["bodies"])
        ctx.control("expected centre of mass shifted by 1/M is flagged", judge(bad, r.lines[2 * k], r.lines[2 * k + 1]) is not None)
    for i, ev in enumerate(evs):
        okl = r.lines[2 * i] if 2 * i < len(r.lines) else None
        prl = r.lines[2 * i + 1] if 2 * i + 1 < len(r.lines) else None
        key = tlc.to_py({"geoms": ev["geoms"], "child": ev["child"], "tmass": ev["tmass"]})
        ctx.case(key, nontrivial=True, sample={"features": features(ev), "bodies": tlc.to_py(ev["bodies"])})
        if okl is None or prl is None:
            ctx.violation("C35:crash:" + features(ev), "harness died (%s) while compiling %s" % (r.crash_text(), features(ev)),
                          {"lines": model_lines(ev), "ev": tlc.to_py(ev)})
            break
        v = judge(ev, okl, prl)
        if v is None:
            ctx.trace_ok()
            continue
        sig = "C35:" + v[0] if v[0].startswith("tensor:principal") else "C35:%s:%s" % (v[0], features(ev))
        ctx.violation(sig, "%s (model %s)" % (v[1], features(ev)), {"lines": model_lines(ev), "ev": tlc.to_py(ev)})
    ctx.cov["exhaustive"] = True
    ctx.cov["rule"] = ("models = every finished model of the exhaustive lattices %s + %d simulated models of the full lattice; "
                       "each is compiled once and mass, centre of mass, full inertia tensor and the triangle inequality "
                       "are compared for every body; non-trivial = every model (mass > 0); distinct = distinct "
                       "(geoms, child, settotalmass)" % ([(n, len(g)) for n, g in groups[:-1]], len(groups[-1][1])))


def _tup(x):
    if isinstance(x, list):
        return tuple(_tup(y) for y in x)
    if isinstance(x, dict):
        return {k: _tup(v) for k, v in x.items()}
    return x


def replay(ctx, rp):
    exe = harness()
    ev = _tup(rp["replay"]["ev"])
    r = drv.run_script(exe, ["model 0"] + rp["replay"]["lines"] + ["end", "props 0"], timeout=300)
    okl = r.lines[0] if r.lines else None
    prl = r.lines[1] if len(r.lines) > 1 else None
    v = judge(ev, okl, prl) if okl is not None and prl is not None else ("crash", r.crash_text())
    print("compile: %s\nprops: %s\nverdict: %s" % (okl, prl, v))
    if v is not None:
        ctx.violation(rp["signature"], rp["what"], rp["replay"])
    ctx.case({"replay": rp["signature"]})
    ctx.case({"replay": rp["signature"], "x": 1})
