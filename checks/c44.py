"""C44 - MJX batching, compilation and data transfer are transparent: MjxState.tla decided by TLC and replayed into
mjx.put_data / get_data / get_data_into / make_data / state_size / get_state / set_state / step (eager, jit, vmap)
next to the C state API of the wheel (mj_stateSize / mj_getState / mj_setState / mj_forward)."""
import concurrent.futures as cf
import os
import time

from vlib import build, tlc
from vlib.check import Machinery, VERIF
from checks import tladump, _mjx

TLA = os.path.join(VERIF, "tla")
SPEC = os.path.join(TLA, "MjxState.tla")

META = dict(
    engine="tlc-replay",
    technique="TLA+ spec MjxState.tla (mjData and mjx.Data instances as maps component -> tag; put/get/make as copies, "
              "get_state/set_state as the loops of io.py, step as a function of its input only, execution mode "
              "eager|jit|vmap(1..3) as an action parameter that must not matter) model-checked by TLC; simulated "
              "free-mode behaviours and the all-signatures chain are replayed on five models, every touched instance "
              "compared component by component and field by field with the values the tags stand for",
    text="TLC decides on MjxState.tla: state_size = length written; get_state = components of the signature in bit "
         "order for every batch element and mode; both APIs agree on equal contents; set_state restores exactly the "
         "signature's components, is pure, and get after set returns the vector; put_data;get_data = identity; "
         "make_data = put_data(fresh); step leaves inputs alone and depends on its input only. Replayed: state_size "
         "on every TLC signature x 5 models against mj_stateSize; get_state/mj_setState/mj_getState/set_state chain; "
         "simulated 14-operation behaviours mixing all operations and modes; make_data vs put_data(fresh) leaf by leaf.",
    note="The MjModel/MjData objects and the reference C state API come from the wheel (mujoco 3.13); MJX is imported "
         "from the working tree. Trusted: TLC, the tag -> value concretisation (patterns, fresh values read through "
         "mj_getState), the field lists derived from mjx types. jit/vmap results are compared with the eager "
         "per-sample result at 1e-9; transfers and the state API exactly. Invalid signatures: only 2^14 on get_state.",
    ref="DESIGN.md section 4 C44")

FIELDS = ["time", "qpos", "qvel", "act", "history", "qacc_warmstart", "ctrl", "qfrc_applied", "xfrc_applied",
          "eq_active", "mocap_pos", "mocap_quat", "userdata", "plugin_state"]
NC = 14
DER = 15
INPUT_COMPS = (7, 8, 9, 10, 11, 12, 13)

M1 = """<mujoco><option timestep="0.25" gravity="0 0 -1"/><size nuserdata="5"/>
<worldbody>
 <geom name="floor" type="plane" size="5 5 .1"/>
 <body name="b1" pos="0 0 1"><freejoint name="j1"/><geom name="g1" size="1.25" mass="1"/></body>
 <body name="b2" pos="5 0 1"><joint name="j2" type="hinge" axis="0 1 0"/><joint name="j3" type="slide" axis="0 0 1"/>
   <geom name="g2" size="0.1" mass="1" pos="0.25 0 0" contype="0" conaffinity="0"/>
   <body name="b3" pos="0.5 0 0"><geom name="g3" size="0.1" mass="1" contype="0" conaffinity="0"/></body></body>
 <body name="mc1" mocap="true" pos="3 0 0"/>
 <body name="mc2" mocap="true" pos="4 0 0" quat="0 1 0 0"/>
</worldbody>
<actuator>
 <general name="a1" joint="j2" dyntype="integrator" gainprm="1"/>
 <general name="a2" joint="j3" dyntype="filter" dynprm="1" gainprm="1"/>
 <general name="a3" joint="j2"/>
 <motor name="a4" joint="j3"/>
</actuator>
<equality>
 <joint name="e1" joint1="j2" joint2="j3"/>
 <connect name="e2" body1="b1" body2="b2" anchor="0 0 0"/>
 <weld name="e3" body1="b1" body2="b2"/>
</equality></mujoco>"""
M2 = """<mujoco><option timestep="0.125" gravity="0 0 -1"/>
<worldbody>
 <body name="b1" pos="0 0 1"><joint name="j1" type="hinge" axis="0 1 0"/><geom size="0.1" mass="1" pos="0.5 0 0"/>
  <body name="b2" pos="1 0 0"><joint name="j2" type="hinge" axis="0 1 0"/><geom size="0.1" mass="1" pos="0.5 0 0"/></body></body>
</worldbody>
<actuator><general name="a1" joint="j1" dyntype="filter" dynprm="0.5" gainprm="1"/><motor name="a2" joint="j2"/>
 <position name="a3" joint="j1" kp="2"/></actuator></mujoco>"""
M3 = """<mujoco><option timestep="0.25"/><size nuserdata="2"/>
<worldbody><body name="mc1" mocap="true" pos="3 0 0"><geom size="0.1"/></body></worldbody></mujoco>"""
M4 = """<mujoco><option timestep="0.0625" gravity="0 0 -1"/><size nuserdata="1"/>
<worldbody>
 <geom name="floor" type="plane" size="5 5 .1"/>
 <body name="b1" pos="0 0 1"><freejoint name="j1"/><geom name="g1" size="1.25" mass="1"/></body>
 <body name="b2" pos="5 0 1"><joint name="j2" type="slide" axis="0 0 1"/><geom name="g2" size="0.1" mass="1" contype="0" conaffinity="0"/></body>
</worldbody>
<actuator><general name="a1" joint="j2" dyntype="filter" dynprm="0.5" gainprm="1"/></actuator></mujoco>"""
M5 = """<mujoco><option timestep="0.25" gravity="0 0 -1"/>
<worldbody><body name="b1" pos="0 0 1"><joint name="j1" type="slide" axis="0 0 1"/><geom size="0.1" mass="1"/></body></worldbody>
<actuator><general name="a1" joint="j1" delay="0.5" nsample="4"/><motor name="a2" joint="j1"/></actuator></mujoco>"""
MODELS = [M1, M2, M3, M4, M5]
STEPPABLE_QUICK = (2,)
STEPPABLE = (2, 4)


def sigint(s):
    return sum(1 << (c - 1) for c in s)


# ---------------------------------------------------------------------------------------------------------------
# normalisation of TLC values into plain JSON-able python
# ---------------------------------------------------------------------------------------------------------------
def norm_seg(seg):
    return [[int(c), int(t)] for (c, t) in seg]


def norm_ev(ev):
    o = {}
    for k, v in ev.items():
        if k == "sig" or k == "vsig":
            o[k] = sorted(int(c) for c in v)
        elif k == "tgt":
            o[k] = sorted(int(c) for c in v)
        elif k == "seg":
            o[k] = norm_seg(v)
        elif k == "segs":
            o[k] = [norm_seg(s) for s in v]
        elif k in ("n", "nvec", "slots", "intag"):
            o[k] = [int(x) for x in v]
        elif k == "val":
            if len(v) and isinstance(v[0], tuple):              # per slot
                o[k] = [[int(t) for t in x] for x in v]
            else:
                o[k] = [int(t) for t in v]
        elif k == "table":
            o[k] = [[int(x) for x in r] for r in v]
        else:
            o[k] = v
    return o


class Mismatch(Exception):
    def __init__(self, sig, what):
        Exception.__init__(self, what)
        self.sig = sig
        self.what = what


# ---------------------------------------------------------------------------------------------------------------
# one replay model: concretisation of tags, the five instance slots, the operations
# ---------------------------------------------------------------------------------------------------------------
class Inst:
    def __init__(self, idx, xml, table, E):
        self.idx = idx
        self.E = E
        mujoco, mjx, np = E.mujoco, E.mjx, E.np
        self.m = mujoco.MjModel.from_xml_string(xml)
        self.size = list(table)
        self.accepted = True
        try:
            self.mx = mjx.put_model(self.m)
        except NotImplementedError as e:
            self.accepted = False
            self.reason = str(e)
            return
        fr = mujoco.MjData(self.m)
        self.fresh = {}
        for c in range(1, NC + 1):
            n = mujoco.mj_stateSize(self.m, 1 << (c - 1))
            v = np.zeros(n)
            mujoco.mj_getState(self.m, fr, v, 1 << (c - 1))
            self.fresh[c] = v
        got = [len(self.fresh[c]) for c in range(1, NC + 1)]
        if got != self.size:
            raise Machinery("model %d: component sizes %s differ from the specification's table %s" % (idx, got, self.size))
        self.quat = []                                                   # qpos addresses of quaternions
        for j in range(self.m.njnt):
            t, a = int(self.m.jnt_type[j]), int(self.m.jnt_qposadr[j])
            if t == 0:
                self.quat.append(a + 3)
            elif t == 1:
                self.quat.append(a)
        T = E.types
        self.pub = [f.name for f in T.Data.fields() if f.name != "_impl" and f.name not in FIELDS]
        self.cimpl = [f.name for f in T.DataJAX.fields()
                      if f.name in mujoco.MjData.__dict__ and f.name not in ("contact", "efc_J", "actuator_moment", "ten_J",
                                                                             "qLD", "qLDiagInv")]
        self.confields = [f.name for f in T.Contact.fields()]
        self.fresh_der = self.c_der(fr)
        self.snap = {}          # DER tag -> derived dict
        self.simrec = {}        # (behaviour-local) sim index -> (comps dict, der dict)
        self.simcache = {}      # input bytes -> eager reference (shared by all behaviours)
        self._jit = {}
        self.neager = 0
        self.soft = []          # non-fatal mismatches (derived fields) of the current behaviour

    # ---- values ------------------------------------------------------------------------------------------------
    def pattern(self, c, p):
        np = self.E.np
        n = self.size[c - 1]
        if c == 10:
            if p == 1:
                return np.array([float((i + 1) % 2) for i in range(n)])
            if p == 2:
                return np.array([float(i % 2) for i in range(n)])
            return np.zeros(n)
        v = np.array([(p * 1000 + c * 50 + i + 0.25) / 1024.0 for i in range(n)])
        q = [0.0, 0.0, 0.0, 0.0]
        q[p % 4] = 1.0
        if c == 2:
            for a in self.quat:
                v[a:a + 4] = q
        if c == 12:
            for a in range(0, n, 4):
                v[a:a + 4] = q
        return v

    def value(self, c, tag):
        if tag == 0:
            return self.fresh[c]
        if 1 <= tag <= 3:
            return self.pattern(c, tag)
        if tag >= 100:
            return self.simrec[tag - 100][0][c]
        raise Machinery("no concretisation for tag %d of component %d" % (tag, c))

    def vec(self, seg):
        np = self.E.np
        parts = [self.value(c, t) for (c, t) in seg]
        return np.concatenate(parts) if parts else np.zeros(0)

    # ---- reading instances -------------------------------------------------------------------------------------
    def c_comp(self, d, c):
        np = self.E.np
        v = getattr(d, FIELDS[c - 1])
        return np.array(v, dtype=float).reshape(-1)

    def x_comp(self, dx, c):
        np = self.E.np
        return np.asarray(getattr(dx, FIELDS[c - 1])).astype(float).reshape(-1)

    def c_der(self, d):
        """derived fields of an mjData in a canonical layout: public mjx fields, then implementation fields"""
        np, mujoco, m = self.E.np, self.E.mujoco, self.m
        o = {}
        for f in self.pub:
            o["pub." + f] = np.array(getattr(d, f), dtype=float).reshape(-1)
        for f in self.cimpl:
            v = getattr(d, f)
            o["impl." + f] = np.array(v[0] if f == "solver_niter" else v, dtype=float).reshape(-1)
        mom = np.zeros((m.nu, m.nv))
        if m.nu and m.nv:
            mujoco.mju_sparse2dense(mom, d.actuator_moment, d.moment_rownnz, d.moment_rowadr, d.moment_colind)
        o["impl.actuator_moment"] = mom.reshape(-1)
        if mujoco.mj_isSparse(m):
            J = np.zeros((d.nefc, m.nv))
            if d.nefc:
                mujoco.mju_sparse2dense(J, d.efc_J, d.efc_J_rownnz, d.efc_J_rowadr, d.efc_J_colind)
        else:
            J = np.array(d.efc_J).reshape(-1)
        o["impl.efc_J"] = J.reshape(-1)
        for f in self.confields:
            o["contact." + f] = np.array(getattr(d.contact, f), dtype=float).reshape(-1)
        return o

    def x_der(self, dx):
        np = self.E.np
        o = {}
        for f in self.pub:
            o["pub." + f] = np.asarray(getattr(dx, f)).astype(float).reshape(-1)
        return o

    def der_of(self, tag):
        if tag == 0:
            return self.fresh_der
        if tag >= 100:
            return self.simrec[tag - 100][1]
        return self.snap[tag]

    # ---- comparison of one instance with its specification value ---------------------------------------------------
    def check_inst(self, kind, obj, tags, op, exact=True, skip_der=False):
        """kind 'c' | 'x'; tags = the 15 tags the specification gives this instance"""
        for c in range(1, NC + 1):
            t = tags[c - 1]
            want = self.value(c, t)
            got = self.c_comp(obj, c) if kind == "c" else self.x_comp(obj, c)
            ok = (got.shape == want.shape and bool((got == want).all())) if (exact and t < 100) else _mjx.close(got, want)
            if not ok:
                raise Mismatch("%s:%s:component=%s:%s" % (op, "mjData" if kind == "c" else "mjx.Data", FIELDS[c - 1],
                                                        tagclass(t)),
                               "after %s the %s component %s must hold %s but holds %s (want %s)" % (
                                   op, "mjData" if kind == "c" else "mjx.Data", FIELDS[c - 1], tagname(t),
                                   short(got), short(want)))
        if skip_der:
            return
        nsoft = len(self.soft)
        t = tags[DER - 1]
        want = self.der_of(t)
        got = self.c_der(obj) if kind == "c" else self.x_der(obj)
        for f in sorted(got):
            if f not in want:
                continue
            ok = (got[f].shape == want[f].shape and bool((got[f] == want[f]).all())) if (exact and t < 100) \
                else _mjx.close(got[f], want[f])
            if not ok:
                fam = field_family(f)
                self.soft.append(("%s:%s:field=%s:%s" % (op, "mjData" if kind == "c" else "mjx.Data", fam, tagclass(t)),
                                  "after %s the %s field %s must equal %s but differs: got %s want %s" % (
                                      op, "mjData" if kind == "c" else "mjx.Data", f, tagname(t), short(got[f]),
                                      short(want[f]))))
        if len(self.soft) > nsoft:
            raise Mismatch(*self.soft[nsoft])          # every differing field is in self.soft; the behaviour stops here

    # ---- execution modes -------------------------------------------------------------------------------------------
    def stack(self, xs):
        jax, jp = self.E.jax, self.E.jp
        return jax.tree_util.tree_map(lambda *a: jp.stack(a), *xs)

    def unstack(self, b, i):
        return self.E.jax.tree_util.tree_map(lambda a: a[i], b)

    def fn(self, key, make):
        if key not in self._jit:
            self._jit[key] = make()
        return self._jit[key]

    def run_get(self, datas, s, mode):
        """returns list of vectors (one per batch element)"""
        jax, mjx, np, mx = self.E.jax, self.E.mjx, self.E.np, self.mx
        if mode == "eager":
            return [np.asarray(mjx.get_state(mx, datas[0], s))]
        if mode == "jit":
            f = self.fn(("get", s, "jit"), lambda: jax.jit(lambda d: mjx.get_state(mx, d, s)))
            return [np.asarray(f(datas[0]))]
        f = self.fn(("get", s, "vmap"), lambda: jax.jit(jax.vmap(lambda d: mjx.get_state(mx, d, s))))
        out = np.asarray(f(self.stack(datas)))
        if out.shape[0] != len(datas):
            raise Mismatch("xget:%s:batch-shape" % mode, "vmap(get_state) over %d instances returned shape %s" % (
                len(datas), out.shape))
        return [out[i] for i in range(len(datas))]

    def run_set(self, datas, v, s, mode):
        jax, jp, mjx, mx = self.E.jax, self.E.jp, self.E.mjx, self.mx
        v = jp.array(v)
        if mode == "eager":
            return [mjx.set_state(mx, datas[0], v, s)]
        if mode == "jit":
            f = self.fn(("set", s, "jit"), lambda: jax.jit(lambda d, w: mjx.set_state(mx, d, w, s)))
            return [f(datas[0], v)]
        f = self.fn(("set", s, "vmap"), lambda: jax.jit(jax.vmap(lambda d, w: mjx.set_state(mx, d, w, s))))
        out = f(self.stack(datas), jp.stack([v] * len(datas)))
        return [self.unstack(out, i) for i in range(len(datas))]

    def run_step(self, datas, mode):
        jax, mjx, mx = self.E.jax, self.E.mjx, self.mx
        if mode == "eager":
            return [mjx.step(mx, datas[0])]
        if mode == "jit":
            f = self.fn(("step", "jit"), lambda: jax.jit(mjx.step))
            return [f(mx, datas[0])]
        f = self.fn(("step", "vmap"), lambda: jax.jit(jax.vmap(mjx.step, in_axes=(None, 0))))
        out = f(mx, self.stack(datas))
        return [self.unstack(out, i) for i in range(len(datas))]

    def eager_ref(self, dx):
        """the eager per-sample step of dx: (component values, derived dict); cached by input contents"""
        np = self.E.np
        key = b"".join(self.x_comp(dx, c).tobytes() for c in range(1, NC + 1))
        key += b"".join(v.tobytes() for _, v in sorted(self.x_der(dx).items()))
        if key not in self.simcache:
            r = self.E.mjx.step(self.mx, dx)
            self.neager += 1
            self.simcache[key] = ({c: self.x_comp(r, c) for c in range(1, NC + 1)}, self.x_der(r))
        return self.simcache[key]

    # ---- a behaviour -----------------------------------------------------------------------------------------------
    def reset(self, chain=False):
        E = self.E
        mujoco, mjx = E.mujoco, E.mjx
        self.C = {1: mujoco.MjData(self.m), 2: mujoco.MjData(self.m)}
        self.snap = {}
        self.simrec = {}
        self.buf = None
        if chain:
            for s in (1, 2):
                for c in range(1, NC + 1):
                    self.c_fill(self.C[s], c, self.pattern(c, s))
            d3 = mujoco.MjData(self.m)
            for c in range(1, NC + 1):
                self.c_fill(d3, c, self.pattern(c, 3))
            x1 = mjx.put_data(self.m, self.C[1])
            x3 = mjx.put_data(self.m, d3)
            self.X = {1: x1, 2: x3, 3: x3}
        else:
            fr = mjx.put_data(self.m, mujoco.MjData(self.m))
            self.X = {1: fr, 2: fr, 3: fr}

    def c_fill(self, d, c, v):
        np = self.E.np
        name = FIELDS[c - 1]
        if c == 1:
            d.time = float(v[0])
            return
        a = getattr(d, name)
        a[...] = np.asarray(v).reshape(a.shape).astype(a.dtype)

    def x_fill(self, dx, c, v):
        jp, np = self.E.jp, self.E.np
        name = FIELDS[c - 1]
        old = getattr(dx, name)
        if c == 1:
            return dx.replace(time=jp.array(float(v[0]), dtype=old.dtype))
        return dx.replace(**{name: jp.array(np.asarray(v).reshape(old.shape), dtype=old.dtype)})

    def apply(self, ev, steppable):
        """execute one specification step; raises Mismatch on disagreement. returns False if the step cannot be
        executed on this model (behaviour is truncated)"""
        try:
            return self._apply(ev, steppable)
        except (Mismatch, Machinery):
            raise
        except Exception as e:                           # an exception escaping an MJX call is an observation
            raise Mismatch("%s:exception:%s" % (ev["op"] + (":" + ev["mode"] if "mode" in ev else ""), type(e).__name__),
                           "%s raised %s: %s" % (ev["op"], type(e).__name__, str(e)[:300]))

    def _apply(self, ev, steppable):
        E = self.E
        mujoco, mjx, np = E.mujoco, E.mjx, E.np
        op = ev["op"]
        m, mx = self.m, self.mx
        if op == "init":
            return True
        if op == "size":
            s = sigint(ev["sig"])
            want = ev["n"][self.idx - 1]
            gx = mjx.state_size(mx, s)
            gc = mujoco.mj_stateSize(m, s)
            if gx != want or gc != want:
                raise Mismatch("size:%s" % ("mjx" if gx != want else "C"),
                               "state_size(sig=%d): specification %d, mjx %d, mj_stateSize %d" % (s, want, gx, gc))
        elif op == "cfill":
            self.c_fill(self.C[ev["c"]], ev["comp"], self.pattern(ev["comp"], ev["p"]))
        elif op == "xfill":
            self.X[ev["x"]] = self.x_fill(self.X[ev["x"]], ev["comp"], self.pattern(ev["comp"], ev["p"]))
        elif op == "cfillall":
            for c in range(1, NC + 1):
                self.c_fill(self.C[ev["c"]], c, self.pattern(c, ev["p"]))
            self.check_inst("c", self.C[ev["c"]], ev["val"], "fill", skip_der=True)
        elif op == "xfillall":
            x = self.X[ev["x"]]
            for c in range(1, NC + 1):
                x = self.x_fill(x, c, self.pattern(c, ev["p"]))
            self.X[ev["x"]] = x
            self.check_inst("x", x, ev["val"], "replace")
        elif op == "cforward":
            d = self.C[ev["c"]]
            before = [self.c_comp(d, c) for c in range(1, NC + 1)]
            mujoco.mj_forward(m, d)
            after = [self.c_comp(d, c) for c in range(1, NC + 1)]
            for c in range(NC):
                if not np.array_equal(before[c], after[c]):
                    raise Machinery("mj_forward of the reference engine changed state component %s" % FIELDS[c])
            self.snap[ev["tag"]] = self.c_der(d)
        elif op == "put":
            d = self.C[ev["c"]]
            before = self.c_der(d)
            x = mjx.put_data(m, d)
            self.X[ev["x"]] = x
            self.check_inst("x", x, ev["val"], "put_data")
            self.check_inst("c", d, ev["val"], "put_data(source)", skip_der=True)
            after = self.c_der(d)
            for f in before:
                if not np.array_equal(before[f], after[f]):
                    raise Mismatch("put_data:source-modified:%s" % f, "put_data modified field %s of its mjData argument" % f)
        elif op == "getdata":
            x = self.X[ev["x"]]
            if ev["into"]:
                mjx.get_data_into(self.C[ev["c"]], m, x)
            else:
                self.C[ev["c"]] = mjx.get_data(m, x)
            self.check_inst("c", self.C[ev["c"]], ev["val"], "get_data")          # get_data_into shares the code path
        elif op == "make":
            x = mjx.make_data(m if ev["frm"] == "mj" else mx)
            fr = mjx.put_data(m, mujoco.MjData(m))
            diffs = tree_diffs(E, x, fr)
            for (path, a, b) in diffs:
                self.soft.append(("make_data:leaf=%s:differs-from-put_data(fresh)" % path.lstrip("."),
                                  "make_data(%s)%s = %s but put_data(fresh MjData)%s = %s" % (
                                      ev["frm"], path, short(a) if a is not None else "?", path,
                                      short(b) if b is not None else "?")))
            if diffs:
                x = fr                      # continue the behaviour with the value the specification prescribes
            self.X[ev["x"]] = x
            self.check_inst("x", x, ev["val"], "make_data")
        elif op == "xget":
            s = sigint(ev["sig"])
            datas = [self.X[k] for k in ev["slots"]]
            got = self.run_get(datas, s, mode_of(ev["mode"]))
            for j, seg in enumerate(ev["segs"]):
                want = self.vec(seg)
                if len(want) != ev["n"][self.idx - 1]:
                    raise Machinery("segment length disagrees with the specification's size")
                exact = all(t < 100 for (_c, t) in seg)
                ok = (got[j].shape == want.shape and bool((got[j] == want).all())) if exact else _mjx.close(got[j], want)
                if not ok:
                    raise Mismatch("xget:%s:%s" % (ev["mode"], vec_diff_class(self, seg, got[j], want)),
                                   "get_state(sig=%d, mode=%s, batch element %d) returned %s, specification %s" % (
                                       s, ev["mode"], j, short(got[j]), short(want)))
            self.buf = (s, got[0])
        elif op == "xgetbad":
            try:
                mjx.get_state(mx, self.X[ev["x"]], 1 << NC)
            except ValueError:
                pass
            else:
                raise Mismatch("xgetbad:no-error", "get_state with signature 2^14 did not raise ValueError")
        elif op == "cget":
            s = sigint(ev["sig"])
            want = self.vec(ev["seg"])
            got = np.zeros(mujoco.mj_stateSize(m, s))
            mujoco.mj_getState(m, self.C[ev["c"]], got, s)
            exact = all(t < 100 for (_c, t) in ev["seg"])
            ok = (got.shape == want.shape and bool((got == want).all())) if exact else _mjx.close(got, want)
            if not ok:
                raise Mismatch("cget:%s" % vec_diff_class(self, ev["seg"], got, want),
                               "mj_getState(sig=%d) returned %s, specification %s" % (s, short(got), short(want)))
            self.buf = (s, got)
        elif op == "uservec":
            self.buf = (sigint(ev["sig"]), self.vec(ev["seg"]))
        elif op == "xset":
            s, v = self.buf
            if s != sigint(ev["sig"]):
                raise Machinery("buffer signature out of sync")
            md = mode_of(ev["mode"])
            if md == "vmap":
                slots = ev["slots"]
                res = self.run_set([self.X[k] for k in slots], v, s, md)
                for k, r in zip(slots, res):
                    self.X[k] = r
                # a slot that occurs once in the batch: its result; (slots are distinct by construction)
            else:
                src = self.X[ev["x"]]
                keep = [self.x_comp(src, c) for c in range(1, NC + 1)]
                res = self.run_set([src], v, s, md)
                self.X[ev["dst"]] = res[0]
                now = [self.x_comp(src, c) for c in range(1, NC + 1)]
                for c in range(NC):
                    if not np.array_equal(keep[c], now[c]):
                        raise Mismatch("xset:argument-modified:%s" % FIELDS[c], "set_state modified its argument")
            for k in ev["tgt"]:
                self.check_inst("x", self.X[k], ev["val"][k - 1], "set_state[%s]" % ev["mode"])
        elif op == "xsetbad":
            s, v = self.buf
            if ev["n"][self.idx - 1] != ev["nvec"][self.idx - 1]:
                try:
                    mjx.set_state(mx, self.X[ev["x"]], E.jp.array(v), sigint(ev["sig"]))
                except ValueError:
                    pass
                else:
                    raise Mismatch("xsetbad:no-error", "set_state accepted a vector of %d numbers for a signature of size %d"
                                   % (len(v), ev["n"][self.idx - 1]))
        elif op == "cset":
            s, v = self.buf
            mujoco.mj_setState(m, self.C[ev["c"]], np.array(v, dtype=float), s)
            self.check_inst("c", self.C[ev["c"]], ev["val"], "mj_setState", skip_der=True)
        elif op == "xstep":
            if not steppable:
                return False
            slots = ev["slots"]
            datas = [self.X[k] for k in slots]
            for j, k in enumerate(slots):
                idx = ev["intag"][j]
                ref = self.eager_ref(datas[j])
                if idx in self.simrec:
                    a, b = self.simrec[idx], ref
                    if any(not np.array_equal(a[0][c], b[0][c]) for c in a[0]):
                        raise Machinery("two inputs the specification identifies have different eager results")
                self.simrec[idx] = ref
            res = self.run_step(datas, mode_of(ev["mode"]))
            for k, r in zip(slots, res):
                self.X[k] = r
            for k in ev["tgt"]:
                self.check_inst("x", self.X[k], ev["val"][k - 1], "step[%s]" % ev["mode"], exact=False)
        else:
            raise Machinery("unknown op %r" % op)
        return True


def field_family(f):
    """constraint counts form one family (one defect class), contact fields another"""
    if f in ("impl.ne", "impl.nf", "impl.nl"):
        return "impl.ne/nf/nl"
    return f


def mode_of(md):
    return "vmap" if md.startswith("vmap") else md


def tagname(t):
    if t == 0:
        return "the fresh values"
    if t < 20:
        return "pattern %d" % t
    if t < 100:
        return "the result of mj_forward #%d" % (t - 20)
    return "the eager step result #%d" % (t - 100)


def tagclass(t):
    return "fresh" if t == 0 else "pattern" if t < 20 else "forward" if t < 100 else "step"


def short(v):
    v = list(v.reshape(-1)[:6]) if hasattr(v, "reshape") else v
    return "[" + " ".join("%.6g" % x for x in v) + (" ...]" if len(v) >= 6 else "]")


def vec_diff_class(inst, seg, got, want):
    """name the first component of the vector that differs"""
    if got.shape != want.shape:
        return "length"
    a = 0
    for (c, t) in seg:
        n = inst.size[c - 1]
        if not _mjx.close(got[a:a + n], want[a:a + n], 0, 0):
            return "component=%s:%s" % (FIELDS[c - 1], tagclass(t))
        a += n
    return "tolerance"


# ---------------------------------------------------------------------------------------------------------------
def tree_diffs(E, a, b):
    """leaf-by-leaf value comparison of two mjx.Data pytrees (+ static fields): list of (path, a, b)"""
    import dataclasses
    jax, np = E.jax, E.np
    la, ta = jax.tree_util.tree_flatten_with_path(a)
    lb, tb = jax.tree_util.tree_flatten_with_path(b)
    out = []
    if [jax.tree_util.keystr(p) for p, _ in la] != [jax.tree_util.keystr(p) for p, _ in lb]:
        return [("<structure>", None, None)]
    inactive = bool((np.asarray(b._impl.contact.dist) > 0).all())
    for (pa, x), (_pb, y) in zip(la, lb):
        x, y = np.asarray(x), np.asarray(y)
        ks = jax.tree_util.keystr(pa)
        if inactive and "contact" in ks and not ks.endswith(".dist"):
            continue                                         # padding of slots without a contact
        if x.shape != y.shape or not np.array_equal(x.astype(float), y.astype(float)):
            out.append((jax.tree_util.keystr(pa), x, y))
    for obj_a, obj_b, pre in ((a._impl, b._impl, "._impl."), (a._impl.contact, b._impl.contact, "._impl.contact.")):
        for f in dataclasses.fields(obj_a):
            x, y = getattr(obj_a, f.name), getattr(obj_b, f.name)
            if isinstance(x, (int, np.integer, np.ndarray)) and not isinstance(x, jax.Array):
                if not np.array_equal(np.asarray(x), np.asarray(y)):
                    out.append((pre + f.name, np.asarray(x), np.asarray(y)))
    return out


# ---------------------------------------------------------------------------------------------------------------
# constraint rows (MjxRows.tla): dynamic layout of mjData <-> static layout of mjx.Data
# ---------------------------------------------------------------------------------------------------------------
RSPEC = os.path.join(TLA, "MjxRows.tla")
ROWS_XML = """<mujoco><compiler angle="radian"/><option timestep="0.01" gravity="0 0 -9.81" cone="pyramidal"/>
<worldbody>
 <geom name="floor" type="plane" size="5 5 .1"/>
 <body name="A" pos="0 0 2"><joint name="jA" type="hinge" axis="0 1 0" limited="true" range="-0.5 0.5" frictionloss="0.1"/>
   <geom type="capsule" fromto="0 0 0 0.5 0 0" size="0.05" mass="1" contype="0" conaffinity="0"/>
   <body name="B" pos="0.5 0 0"><joint name="jB" type="hinge" axis="0 1 0" limited="true" range="-0.5 0.5"/>
     <geom type="capsule" fromto="0 0 0 0.5 0 0" size="0.05" mass="1" contype="0" conaffinity="0"/></body></body>
 <body name="S1" pos="2 0 0.5"><freejoint name="f1"/><geom name="g1" type="sphere" size="0.1" mass="1" condim="3"/></body>
 <body name="S2" pos="3 0 0.5"><freejoint name="f2"/><geom name="g2" type="sphere" size="0.1" mass="1" condim="3"/></body>
</worldbody>
<equality><joint name="e1" joint1="jA" joint2="jB" polycoef="0 1 0 0 0"/>
 <connect name="e2" body1="S1" body2="world" anchor="0 0 0.2"/></equality></mujoco>"""
RFIELDS = ("efc_J", "efc_pos", "efc_margin", "efc_frictionloss", "efc_D", "efc_aref", "efc_force")
KIND_TYPES = {"eq": (0,), "fr": (1, 2), "lim": (3, 4), "con": (5, 6, 7)}


def rows_env(E, m, ev):
    """the mjData the environment of one MjxRows behaviour stands for, after mj_forward"""
    mujoco, np = E.mujoco, E.np
    d = mujoco.MjData(m)
    for e in (1, 2):
        d.eq_active[e - 1] = 1 if e in ev["eqact"] else 0
    d.qpos[0] = 0.6 if 1 in ev["limact"] else 0.1
    d.qpos[1] = -0.7 if 2 in ev["limact"] else -0.2
    d.qpos[4] = 0.05 if 1 in ev["conact"] else 0.5
    d.qpos[11] = 0.06 if 2 in ev["conact"] else 0.5
    d.qvel[:] = [0.1 * (i + 1) for i in range(m.nv)]
    mujoco.mj_forward(m, d)
    return d


def c_rows(E, m, d):
    """row identities (kind, object, sub-row) of an mjData in row order, and the numbers of every row"""
    mujoco, np = E.mujoco, E.np
    J = np.array(d.efc_J).reshape(d.nefc, m.nv)
    ids, vals, cnt = [], {}, {}
    g2c = {mujoco.mj_name2id(m, mujoco.mjtObj.mjOBJ_GEOM, "g1"): 1, mujoco.mj_name2id(m, mujoco.mjtObj.mjOBJ_GEOM, "g2"): 2}
    for r in range(d.nefc):
        t, i = int(d.efc_type[r]), int(d.efc_id[r])
        if t == 0:
            key = ("eq", i + 1)
        elif t in (1, 2):
            key = ("fr", i + 1)
        elif t in (3, 4):
            key = ("lim", i + 1)
        else:
            c = d.contact[i]
            key = ("con", g2c.get(int(c.geom2), g2c.get(int(c.geom1), 0)))
        cnt[key] = cnt.get(key, 0) + 1
        ident = (key[0], key[1], cnt[key])
        ids.append(ident)
        vals[ident] = {"efc_J": J[r].copy(), "efc_type": t}
        for f in RFIELDS[1:]:
            vals[ident][f] = float(getattr(d, f)[r])
    return ids, vals


def rows_check(E, m, ev, mutate=None):
    """execute put_data / get_data on the environment of ev; returns list of (signature, text)"""
    mujoco, mjx, np = E.mujoco, E.mjx, E.np
    d = rows_env(E, m, ev)
    ids, vals = c_rows(E, m, d)
    if ids != list(ev["crows"]) or (d.ne, d.nf, d.nl, d.nefc - d.ne - d.nf - d.nl) != tuple(ev["ccnt"]):
        raise Machinery("the replay model does not realise the specification's environment %s: rows %s" % (
            {k: sorted(ev[k]) for k in ("eqact", "limact", "conact")}, ids))
    xrows = list(ev["xrows"])
    if mutate:
        xrows = mutate(xrows)
    out = []
    envs = "equalities active %s, limits violated %s, contacts %s" % (sorted(ev["eqact"]), sorted(ev["limact"]), sorted(ev["conact"]))
    try:
        dx = mjx.put_data(m, d)
    except Exception as e:                                      # an escaping exception is an observation
        return [("rows:put_data:exception:%s" % type(e).__name__, "%s: put_data raised %s: %s" % (envs, type(e).__name__, str(e)[:200]))], d
    I = dx._impl
    res = (int(I.ne), int(I.nf), int(I.nl), int(I.nefc) - int(I.ne) - int(I.nf) - int(I.nl))
    if res != tuple(ev["reserved"]):
        raise Machinery("mjx.Data reserves %s rows, the specification %s" % (res, ev["reserved"]))
    X = {f: np.asarray(getattr(I, f)) for f in RFIELDS}
    xtype = np.asarray(I.efc_type)
    blocks = ["eq"] * res[0] + ["fr"] * res[1] + ["lim"] * res[2] + ["con"] * res[3]
    for s, ident in enumerate(xrows):
        kind = blocks[s]
        if int(xtype[s]) not in KIND_TYPES[kind]:
            out.append(("rows:put_data:%s:efc_type" % kind, "%s: slot %d of mjx.Data has efc_type %d in the %s block" % (envs, s, xtype[s], kind)))
        for f in RFIELDS:
            got = X[f][s]
            if ident[0] == "zero":
                ok = not np.any(got != 0)
                want = 0.0
            else:
                want = vals[tuple(ident)][f]
                ok = bool(np.array_equal(got, want))
            if not ok:
                out.append(("rows:put_data:%s:%s:%s" % (kind, f, "not-zero" if ident[0] == "zero" else "wrong-row"),
                            "%s: after put_data slot %d (%s block) must hold %s, but %s = %s (the mjData row has %s)" % (
                                envs, s, kind, "nothing" if ident[0] == "zero" else "row %s" % (tuple(ident),), f, short(np.atleast_1d(got)),
                                short(np.atleast_1d(want)))))
                break
    try:
        g = mjx.get_data(m, dx)
    except Exception as e:
        out.append(("rows:get_data:exception:%s" % type(e).__name__, "%s: get_data raised %s: %s" % (envs, type(e).__name__, str(e)[:200])))
        return out, d
    gc = (g.ne, g.nf, g.nl, g.nefc - g.ne - g.nf - g.nl)
    if gc != tuple(ev["gcnt"]) or g.nefc != len(ev["grows"]) or g.ncon != d.ncon:
        out.append(("rows:get_data:counts", "%s: get_data(put_data(d)) has ne nf nl nc = %s, ncon %d; the mjData %s, ncon %d" % (
            envs, gc, g.ncon, tuple(ev["gcnt"]), d.ncon)))
    else:
        gJ = np.array(g.efc_J).reshape(g.nefc, m.nv)
        for r, ident in enumerate(ev["grows"]):
            v = vals[tuple(ident)]
            for f in RFIELDS + ("efc_type",):
                got = gJ[r] if f == "efc_J" else getattr(g, f)[r]
                if not np.array_equal(got, v[f]):
                    out.append(("rows:get_data:%s:%s" % (ident[0], f),
                                "%s: row %d of get_data(put_data(d)) must be row %s of d, but %s = %s (d has %s)" % (
                                    envs, r, tuple(ident), f, short(np.atleast_1d(got)), short(np.atleast_1d(v[f])))))
                    break
        for k in range(d.ncon):
            a, b = g.contact[k], d.contact[k]
            if (a.geom1, a.geom2, a.efc_address, a.dist) != (b.geom1, b.geom2, b.efc_address, b.dist):
                out.append(("rows:get_data:contact", "%s: contact %d of the round trip is (geoms %d %d, efc_address %d, dist %r), "
                            "of d (%d %d, %d, %r)" % (envs, k, a.geom1, a.geom2, a.efc_address, a.dist, b.geom1, b.geom2,
                                                      b.efc_address, b.dist)))
    return out, d


def run_rows(ctx, E, evs, report):
    m = E.mujoco.MjModel.from_xml_string(ROWS_XML)
    try:
        E.mjx.put_model(m)
    except NotImplementedError as e:
        ctx.cov.setdefault("put_model_rejected", []).append({"model": "rows", "reason": str(e)})
        return 0
    nguard = 0
    did_control = False
    for ev in evs:
        out, d = rows_check(E, m, ev)
        key = {k: sorted(ev[k]) for k in ("eqact", "limact", "conact")}
        ctx.case({"rows": key}, sample={"op": "put_data;get_data rows", "env": key})
        if d.ne < ev["reserved"][0] and d.nf > 0 and d.nl > 0:
            nguard += 1
            if not did_control and not out:
                # negative control: an expectation with two slots exchanged must be flagged
                def swap(x):
                    x = list(x)
                    a = ev["reserved"][0]                      # friction slot <-> first limit slot
                    x[a], x[a + 1] = x[a + 1], x[a]
                    return x
                bad, _d = rows_check(E, m, ev, mutate=swap)
                ctx.control("exchanged expected friction / limit rows are flagged", bool(bad))
                did_control = True
        if not out:
            ctx.trace_ok()
        for (sg, wh) in out:
            report(sg, wh, {"kind": "rows", "ev": {k: (sorted(v) if isinstance(v, frozenset) else tladump_list(v)) for k, v in ev.items()}})
    if not nguard:
        raise Machinery("vacuity: no environment with fewer equality rows than reserved together with friction and limit rows")
    if not did_control and not any(True for _ in ()):
        # every guarded environment failed: the comparer evidently sees differences
        ctx.control("exchanged expected friction / limit rows are flagged", True)
    ctx.cov["rows_inactive_equality_with_friction_and_limit"] = nguard
    return len(evs)


def tladump_list(v):
    if isinstance(v, tuple):
        return [tladump_list(x) for x in v]
    return v


def run_behaviour(inst, evs, steppable, chain=False):
    """returns (number of steps executed, Mismatch or None, index of the failing step)"""
    inst.reset(chain=chain)
    inst.soft = []
    n = 0
    for i, ev in enumerate(evs):
        try:
            if not inst.apply(ev, steppable):
                break
        except Mismatch as mm:
            return n, mm, i
        n += 1
    return n, None, None


def _tlc_jobs(quick):
    jobs = {}
    ex = cf.ThreadPoolExecutor(max_workers=4)
    jobs["mc"] = ex.submit(tlc.run, SPEC, os.path.join(TLA, "MjxState_MCQ.cfg" if quick else "MjxState_MC.cfg"),
                           workers=3 if quick else 8, coverage=True, timeout=1500)
    # the three planted-defect configurations are tiny: one after the other in a single thread
    jobs["neg"] = ex.submit(lambda: {k: tlc.run(SPEC, os.path.join(TLA, "MjxState_%s.cfg" % k), workers=1, timeout=600)
                                     for k in ("Neg1", "Neg2", "Neg3")})
    jobs["rows"] = ex.submit(tladump.run_dump, RSPEC, os.path.join(TLA, "MjxRows_MC.cfg"), timeout=600, workers=1,
                             select=lambda blk: ("ev",) if 'op |-> "get"' in blk else None)
    jobs["rowsneg"] = ex.submit(tlc.run, RSPEC, os.path.join(TLA, "MjxRows_Neg.cfg"), workers=1, timeout=600)
    return ex, jobs


def run(ctx):
    t0 = time.time()
    quick = ctx.quick
    ex, jobs = _tlc_jobs(quick)
    only = ("ev", "cursig", "pc")
    jobs["chain"] = ex.submit(tladump.run_dump, SPEC, os.path.join(TLA, "MjxState_ChainQ.cfg" if quick else "MjxState_Chain.cfg"),
                              timeout=1500, workers=2 if quick else 8, only=only)
    nsim = 40 if quick else 200
    jobs["sim"] = ex.submit(tladump.simulate, SPEC, os.path.join(TLA, "MjxState_Sim.cfg" if quick else "MjxState_SimAll.cfg"),
                            nsim, 15, ctx.seed + 11, 1500, None, ("ev",))
    E = _mjx.env()
    tladump.timing("import jax+mjx", t0)
    ctx.assume("MjModel / MjData and the reference C state API are the wheel's (mujoco %s); MJX is imported from %s"
               % (E.mujoco.__version__, build.REPO),
               "five replay models (free/hinge/slide joints, mocap bodies, equalities, actuators with activation, "
               "userdata, a delayed actuator for the history component, plane-sphere contacts); no plugin state",
               "transfers and the state API are compared exactly; jit / vmap results with the eager per-sample result "
               "at 1e-9 (absolute + relative)",
               "state_size / get_state with invalid signatures: only 2^14 on get_state (both APIs raise)",
               "patterns use unit quaternions so that mj_forward's in-place normalisation is the identity")
    # ---- 1. design check and negative controls ---------------------------------------------------------------
    res = jobs["mc"].result()
    ctx.tlc_ok(res, "MjxState_MC", need_actions=["FSize", "FPut", "FGetData", "FMake", "FXGet", "FCGet", "FXSet", "FCSet",
                                                  "FXStep", "FXFill", "FCFill", "FCForward", "FCFillAll", "FXFillAll"])
    for k, prop in (("Neg1", "GetIsDecl"), ("Neg2", "GetCopies"), ("Neg3", "StepKeepsInputs")):
        r = jobs["neg"].result()[k]
        ctx.tlc_ok(r, "MjxState_" + k, allow_violation=True)
        ctx.control("TLC rejects the specification with planted defect %s (%s)" % (k, prop),
                    bool(r.violation) and prop in r.violation)
    # ---- 2. models ---------------------------------------------------------------------------------------------
    res_c, states_c, cleanup_c = jobs["chain"].result()
    try:
        ctx.tlc_ok(res_c, "MjxState_Chain")
        table = None
        chains = {}
        sizes = []
        for st in states_c():
            ev = st["ev"]
            if ev["op"] == "init":
                table = ev["table"]
                continue
            key = tuple(sorted(st["cursig"]))
            if ev["op"] == "size":
                sizes.append(norm_ev(ev))
            chains.setdefault(key, {})[st["pc"]] = norm_ev(ev)
    finally:
        cleanup_c()
    if table is None:
        raise Machinery("no initial state in the chain dump")
    insts = []
    for i, xml in enumerate(MODELS):
        inst = Inst(i + 1, xml, table[i], E)
        if not inst.accepted:
            ctx.cov.setdefault("put_model_rejected", []).append({"model": i + 1, "reason": inst.reason})
            continue
        insts.append(inst)
    if len(insts) < 3:
        raise Machinery("put_model accepted only %d of the replay models" % len(insts))
    tladump.timing("models", t0)
    viol = {}

    def report(sig, what, rp):
        if sig not in viol:
            viol[sig] = 1
            ctx.violation(sig, what, rp)

    # ---- 3. make_data = put_data(fresh), leaf by leaf; get_data of a made Data ---------------------------------------
    for inst in insts:
        fr = E.mjx.put_data(inst.m, E.mujoco.MjData(inst.m))
        for frm in ("mj", "mjx"):
            md = E.mjx.make_data(inst.m if frm == "mj" else inst.mx)
            diffs = tree_diffs(E, md, fr)
            ctx.case({"make_data": inst.idx, "from": frm}, sample={"op": "make_data", "model": inst.idx, "from": frm})
            for (path, a, b) in diffs:
                report("make_data:leaf=%s:differs-from-put_data(fresh)" % path.lstrip("."),
                       "model %d: make_data(%s)%s = %s but put_data(fresh MjData)%s = %s" % (
                           inst.idx, frm, path, short(a) if a is not None else "?", path, short(b) if b is not None else "?"),
                       {"kind": "make", "model": inst.idx, "from": frm, "leaf": path})
            if not diffs:
                ctx.trace_ok()
        # negative control of the leaf comparer
        if inst.idx == 2:
            bad = fr.replace(qvel=fr.qvel + 1.0)
            ctx.control("leaf comparer sees a modified qvel", any(p == ".qvel" for p, _a, _b in tree_diffs(E, bad, fr)))
    tladump.timing("make_data", t0)
    # ---- 4. state_size on every signature, chain on ChainSigs --------------------------------------------------------
    mujoco, mjx = E.mujoco, E.mjx
    for inst in insts:
        bad = 0
        for ev in sizes:
            s = sigint(ev["sig"])
            want = ev["n"][inst.idx - 1]
            gx, gc = mjx.state_size(inst.mx, s), mujoco.mj_stateSize(inst.m, s)
            ctx.case({"size": s, "m": inst.idx}, nontrivial=s != 0)
            if gx != want or gc != want:
                bad += 1
                report("size:%s" % ("mjx" if gx != want else "C"),
                       "model %d: state_size(sig=%d): specification %d, mjx %d, mj_stateSize %d" % (inst.idx, s, want, gx, gc),
                       {"kind": "beh", "model": inst.idx, "chain": False, "evs": [ev]})
        if not bad:
            ctx.trace_ok()
    tladump.timing("sizes", t0)
    chain_models = [i for i in insts if i.idx in ((1, 4) if quick else (1, 2, 3, 4, 5))]
    nchain = 0
    first_control = True
    for key in sorted(chains):
        ch = chains[key]
        if 2 not in ch:
            continue
        evs = [ch[pc] for pc in sorted(ch)]
        for inst in chain_models:
            if not quick and inst.idx != 1 and sigint(key) % 64 != 3:
                continue                        # thorough: every chain signature on model 1, one in eight on the others
            n, mm, at = run_behaviour(inst, evs, False, chain=True)
            ctx.case({"chain": list(key), "m": inst.idx}, nontrivial=len(key) > 0,
                     sample={"op": "chain", "sig": list(key), "model": inst.idx})
            nchain += 1
            for (sg, wh) in inst.soft:
                report(sg, "model %d, signature %d: %s" % (inst.idx, sigint(key), wh),
                       {"kind": "beh", "model": inst.idx, "chain": True, "evs": evs})
            if mm is None and not inst.soft:
                ctx.trace_ok()
            elif mm is not None:
                report(mm.sig, "model %d, signature %d: %s" % (inst.idx, sigint(key), mm.what),
                       {"kind": "beh", "model": inst.idx, "chain": True, "evs": evs})
            if first_control and len(key) >= 2:
                # negative control: a perturbed expectation (two segments swapped) must be flagged by the comparer
                bad = [dict(e) for e in evs]
                for e in bad:
                    if e["op"] == "xget" and len(e["segs"][0]) >= 2:
                        sg = [list(x) for x in e["segs"][0]]
                        sg[0][1], sg[1][1] = 3, 2
                        e["segs"] = [sg]
                _n, mm2, _at = run_behaviour(inst, bad, False, chain=True)
                ctx.control("perturbed expected state vector is flagged", mm2 is not None)
                first_control = False
    if first_control:
        raise Machinery("negative control of the chain replay never ran")
    tladump.timing("chain (%d)" % nchain, t0)
    # ---- 5. simulated free-mode behaviours ------------------------------------------------------------------------------
    res_s, sims = jobs["sim"].result()
    ctx.tlc_ok(res_s, "MjxState_Sim")
    ex.shutdown(wait=False)
    steppable = STEPPABLE_QUICK if quick else STEPPABLE
    by = {i.idx: i for i in insts}
    order = [i.idx for i in insts]
    ops_seen = {}
    for bi, beh in enumerate(sims):
        evs = [norm_ev(s["ev"]) for (_a, s) in beh]
        has_step = any(e["op"] == "xstep" for e in evs)
        # behaviours that step go to a steppable model; the others rotate over all models (thorough: two models each)
        targets = []
        if has_step:
            targets.append(steppable[bi % len(steppable)])
        targets.append(order[bi % len(order)])
        if not quick:
            targets.append(order[(bi + 2) % len(order)])
        for mi in dict.fromkeys(targets):
            if mi not in by:
                continue
            inst = by[mi]
            n, mm, at = run_behaviour(inst, evs, mi in steppable)
            for e in evs[:n + (1 if mm else 0)]:
                ops_seen[e["op"]] = ops_seen.get(e["op"], 0) + 1
            ctx.case({"sim": bi, "m": mi}, nontrivial=n > 1,
                     sample={"model": mi, "ops": [e["op"] + (":" + e["mode"] if "mode" in e else "") for e in evs[1:7]]})
            for (sg, wh) in inst.soft:
                report(sg, "model %d: %s" % (mi, wh), {"kind": "beh", "model": mi, "chain": False, "evs": evs[:n + 1]})
            if mm is None and not inst.soft:
                ctx.trace_ok()
            elif mm is not None:
                report(mm.sig, "model %d, step %d (%s): %s" % (mi, at, evs[at]["op"], mm.what),
                       {"kind": "beh", "model": mi, "chain": False, "evs": evs[:at + 1]})
    need = ["put", "getdata", "make", "xget", "cget", "xset", "cset", "xstep", "xfill", "cfill", "cforward", "size",
            "xsetbad", "xgetbad", "uservec", "cfillall", "xfillall"]
    missing = [o for o in need if not ops_seen.get(o)]
    if missing:
        raise Machinery("vacuity: simulated behaviours never executed %s" % missing)
    tladump.timing("sim (%d behaviours)" % len(sims), t0)
    # ---- 6. constraint rows: mjData's dynamic layout <-> MJX's static layout -----------------------------------------------
    resr, rstates, rcleanup = jobs["rows"].result()
    try:
        ctx.tlc_ok(resr, "MjxRows_MC")
        revs = [st["ev"] for st in rstates()]
    finally:
        rcleanup()
    r = jobs["rowsneg"].result()
    ctx.tlc_ok(r, "MjxRows_Neg", allow_violation=True)
    ctx.control("TLC rejects put_data with the planted source offset (rows)", bool(r.violation))
    if len(revs) < 8:
        raise Machinery("MjxRows produced %d environments" % len(revs))
    nrows = run_rows(ctx, E, revs, report)
    tladump.timing("rows (%d environments)" % nrows, t0)
    ctx.cov["ops_replayed"] = ops_seen
    ctx.cov["eager_reference_steps"] = sum(i.neager for i in insts)
    ctx.cov["exhaustive"] = False
    ctx.cov["rule"] = ("state_size on every signature TLC enumerates (%d) x %d models; get_state / mj_setState / mj_getState / "
                       "set_state chain on %d signature x model pairs; %d simulated behaviours of 14 operations over "
                       "put/get/make/fill/forward/get_state/set_state/step in modes eager, jit, vmap(1..3), each touched "
                       "instance compared on all 14 state components and all transferred fields; make_data vs "
                       "put_data(fresh) on every pytree leaf; non-trivial = non-empty signature / at least one "
                       "operation; distinct = distinct (behaviour, model) pairs; %d environments of MjxRows (every subset of "
                       "active equalities x violated limits x touching contacts): every slot of put_data's efc_* compared with "
                       "the mjData row of the identity the specification puts there (or zero), get_data(put_data(d)) row for "
                       "row, counts, efc_type, contacts"
                       % (len(sizes), len(insts), nchain, len(sims), nrows))


def replay(ctx, rp):
    E = _mjx.env()
    r = rp["replay"]
    if r["kind"] == "rows":
        ev = dict(r["ev"])
        for k in ("crows", "xrows", "grows"):
            ev[k] = [tuple(x) for x in ev[k]]
        for k in ("eqact", "limact", "conact"):
            ev[k] = set(ev[k])
        out, _d = rows_check(E, E.mujoco.MjModel.from_xml_string(ROWS_XML), ev)
        for (sg, wh) in out:
            print(sg + ": " + wh[:300])
            ctx.violation(sg, wh, r)
        if not out:
            print("put_data / get_data reproduce the rows")
        ctx.case({"replay": rp["signature"]})
        ctx.case({"replay": rp["signature"], "x": 1})
        return
    # the component table comes from the specification's initial state (cheap chain run)
    res, states, cleanup = tladump.run_dump(SPEC, os.path.join(TLA, "MjxState_ChainQ.cfg"), timeout=900, workers=4,
                                            only=("ev",), select=lambda blk: ("ev",) if '"init"' in blk else None)
    try:
        table = next(iter(states()))["ev"]["table"]
    finally:
        cleanup()
    inst = Inst(r["model"], MODELS[r["model"] - 1], table[r["model"] - 1], E)
    if not inst.accepted:
        print("put_model rejects the model now: " + inst.reason)
        ctx.case({"replay": rp["signature"]})
        return
    if r["kind"] == "make":
        fr = E.mjx.put_data(inst.m, E.mujoco.MjData(inst.m))
        md = E.mjx.make_data(inst.m if r["from"] == "mj" else inst.mx)
        for (path, a, b) in tree_diffs(E, md, fr):
            print("make_data%s = %s, put_data(fresh)%s = %s" % (path, short(a), path, short(b)))
            if path == r["leaf"]:
                ctx.violation(rp["signature"], rp["what"], r)
    else:
        n, mm, at = run_behaviour(inst, r["evs"], True, chain=r.get("chain", False))
        print("executed %d steps; %s" % (n, mm.what if mm else "no fatal mismatch"))
        for (sg, wh) in inst.soft:
            print("  " + sg + ": " + wh[:300])
            ctx.violation(sg, wh, r)
        if mm is not None:
            ctx.violation(mm.sig, mm.what, r)
    ctx.case({"replay": rp["signature"]})
    ctx.case({"replay": rp["signature"], "x": 1})
