"""C30 - numerical blow-ups are contained: Blowup.tla decided by TLC, behaviours replayed into mj_step (whole and
phase by phase) with bad values injected into qpos / qvel / act / ctrl / qfrc_applied / xfrc_applied."""
import concurrent.futures as cf
import os
import zlib

from vlib import build, tlc, drv
from vlib.check import Machinery, VERIF
from checks import tladump

TLA = os.path.join(VERIF, "tla")
SPEC = os.path.join(TLA, "Blowup.tla")

META = dict(
    engine="tlc-replay",
    technique="TLA+ spec Blowup.tla (abstract content of six mjData arrays, autoreset flag, mj_step as the phases "
              "checkPos/checkVel/forward/checkAcc/integrate, warning counters relative to the start of the step, "
              "reference-trajectory index) model-checked by TLC; every behaviour of the exhaustive one- and two-step "
              "runs and simulated three-step behaviours (kept in the history variable of the dumped states) is replayed "
              "on six models through mj_step and, for Euler models, through the individual phase functions",
    text="TLC decides on Blowup.tla: with autoreset every state component is finite after mj_step whatever class of value "
         "(in-range, huge, NaN, +Inf, -Inf) was injected where; a fired position/velocity/acceleration check raises "
         "its counter; no counter moves without a bad value; after a detected blow-up the data is on the trajectory "
         "of an untouched instance. All one-step behaviours with up to two injections and both flag values, all "
         "two-step behaviours with one injection per step, and simulated three-step behaviours are replayed: "
         "finiteness of qpos/qvel/act/time, the four warning counters, and bitwise equality with the reference "
         "instance are compared after every step (after every phase in the phase-wise replay).",
    note="Trusted: TLC, generic harness mj_drv.cc, the injection sites chosen per model (every injected force / "
         "activation reaches a degree of freedom; controls are unclamped). Counters are compared as relations "
         "(same / larger / zero / at least one), because the property only says 'increases'. Constrained models "
         "do not receive the class 'huge' in force and activation arrays (the solver decides what acceleration "
         "results); sleeping is not enabled.",
    ref="DESIGN.md section 4 C30")

WARN = {"qpos": 3, "qvel": 4, "qacc": 5, "ctrl": 6}          # mjWARN_BADQPOS ...
WORDER = ["qpos", "qvel", "qacc", "ctrl"]
AUTORESET_BIT = 1 << 16
FIELD = {"qpos": "qpos", "qvel": "qvel", "act": "act", "ctrl": "ctrl", "qfrc": "qfrc_applied", "xfrc": "xfrc_applied"}
VALUE = {"ok": "0.5", "nan": "nan", "inf": "inf", "ninf": "-inf"}
HUGE = {"qpos": "1e11", "qvel": "-1e11", "act": "1e300", "ctrl": "-1e300", "qfrc": "1e300", "xfrc": "1e300"}
PHASE_OP = {"checkPos": "checkPos", "checkVel": "checkVel", "forward": "forward", "checkAcc": "checkAcc"}

# six models: text, injection index per site, integrator (0 Euler: phase-wise replay possible), constrained?
MODELS = [
    dict(name="free+slide/Euler", euler=True, constrained=False, layout="none",
         idx={"qpos": 7, "qvel": 2, "act": 0, "ctrl": 1, "qfrc": 6, "xfrc": 8},
         text="""option timestep=0.125 gravity=0,0,-1 integrator=0
body name=b1 pos=0,0,1
joint body=b1 name=j1 type=0
geom body=b1 name=g1 type=2 size=0.1,0,0 mass=1 contype=0 conaffinity=0
body name=b2 pos=1,0,1
joint body=b2 name=j2 type=2 axis=0,0,1
geom body=b2 name=g2 type=2 size=0.1,0,0 mass=1 contype=0 conaffinity=0
actuator name=a1 trntype=0 target=j2 dyntype=1 gainprm=1
actuator name=a2 trntype=0 target=j2"""),
    dict(name="hinge-chain/RK4", euler=False, constrained=False, layout="none",
         idx={"qpos": 1, "qvel": 0, "act": 0, "ctrl": 0, "qfrc": 1, "xfrc": 14},
         text="""option timestep=0.0625 gravity=0,0,-1 integrator=1
body name=b1 pos=0,0,1
joint body=b1 name=j1 type=3 axis=0,1,0 damping=0.5
geom body=b1 name=g1 type=2 size=0.1,0,0 pos=0.5,0,0 mass=1 contype=0 conaffinity=0
body name=b2 parent=b1 pos=1,0,0
joint body=b2 name=j2 type=3 axis=0,1,0
geom body=b2 name=g2 type=2 size=0.1,0,0 pos=0.5,0,0 mass=1 contype=0 conaffinity=0
actuator name=a1 trntype=0 target=j1 dyntype=2 dynprm=0.5 gainprm=1
actuator name=a2 trntype=0 target=j2"""),
    dict(name="ball+slide/implicit", euler=False, constrained=False, layout="none",
         idx={"qpos": 2, "qvel": 3, "act": 0, "ctrl": 0, "qfrc": 0, "xfrc": 9},
         text="""option timestep=0.125 gravity=0,0,-1 integrator=2
body name=b1 pos=0,0,1
joint body=b1 name=j1 type=1 damping=0.25
geom body=b1 name=g1 type=6 size=0.1,0.2,0.3 pos=0.2,0,0 mass=1 contype=0 conaffinity=0
body name=b2 pos=1,0,1
joint body=b2 name=j2 type=2 axis=1,0,0 damping=0.5 stiffness=1
geom body=b2 name=g2 type=2 size=0.1,0,0 mass=2 contype=0 conaffinity=0
actuator name=a1 trntype=0 target=j2 dyntype=1 gainprm=2
actuator name=a2 trntype=0 target=j1 gear=0,1,0"""),
    dict(name="slide/implicitfast", euler=False, constrained=False, layout="none",
         idx={"qpos": 0, "qvel": 1, "act": 1, "ctrl": 0, "qfrc": 1, "xfrc": 8},
         text="""option timestep=0.25 gravity=0,0,0 integrator=3
body name=b1 pos=0,0,1
joint body=b1 name=j1 type=2 axis=0,0,1 damping=1
joint body=b1 name=j2 type=2 axis=1,0,0
geom body=b1 name=g1 type=2 size=0.1,0,0 mass=1 contype=0 conaffinity=0
actuator name=a1 trntype=0 target=j1 dyntype=1 gainprm=1
actuator name=a2 trntype=0 target=j2 dyntype=2 dynprm=1 gainprm=1"""),
    dict(name="sphere-on-plane/Euler", euler=True, constrained=True, layout="none",
         idx={"qpos": 2, "qvel": 0, "act": 0, "ctrl": 0, "qfrc": 2, "xfrc": 6},
         text="""option timestep=0.03125 gravity=0,0,-1 integrator=0
geom name=floor type=0 size=5,5,0.1
body name=b1 pos=0,0,0.09
joint body=b1 name=j1 type=0
geom body=b1 name=g1 type=2 size=0.1,0,0 mass=1
body name=b2 pos=1,0,1
joint body=b2 name=j2 type=2 axis=0,0,1 limited=1 range=-0.01,0.5
geom body=b2 name=g2 type=2 size=0.1,0,0 mass=1 contype=0 conaffinity=0
actuator name=a1 trntype=0 target=j2 dyntype=1 gainprm=1"""),
    dict(name="free+ball/RK4", euler=False, constrained=False, layout="none",
         idx={"qpos": 4, "qvel": 7, "act": 0, "ctrl": 0, "qfrc": 8, "xfrc": 15},
         text="""option timestep=0.125 gravity=0,0,-1 integrator=1
body name=b1 pos=0,0,1
joint body=b1 name=j1 type=0
geom body=b1 name=g1 type=6 size=0.1,0.2,0.3 mass=1 contype=0 conaffinity=0
body name=b2 pos=1,0,1
joint body=b2 name=j2 type=1
geom body=b2 name=g2 type=6 size=0.1,0.2,0.3 pos=0.3,0,0 mass=1 contype=0 conaffinity=0
actuator name=a1 trntype=0 target=j2 gear=0,0,1 dyntype=1 gainprm=1"""),
]
MAXSTEPS = 3
SLEEP_ENABLE = 1 << 4           # mjENBL_SLEEP
SLEEP_INIT, SLEEP_NEVER = 5, 3  # mjSLEEP_INIT, mjSLEEP_NEVER


def sleep_model(kind, layout):
    """two kinematic trees, one initialised asleep (the "sleeper"), one that never sleeps (the "awake" tree); in
    layout "first" the sleeper has the lower dof indices, in "last" the higher ones"""
    if kind == "free":
        trees = {"sleeper": dict(nq=7, nv=6, joints=["type=0"], geom="type=2 size=0.1,0,0 mass=1",
                                 loc={"qpos": 2, "qvel": 2, "qfrc": 2, "xfrc": 2}),
                 "awake": dict(nq=7, nv=6, joints=["type=0"], geom="type=2 size=0.1,0,0 mass=1",
                               loc={"qpos": 1, "qvel": 4, "qfrc": 0, "xfrc": 4})}
        opt = "option timestep=0.125 gravity=0,0,-1 integrator=0 enableflags=%d" % SLEEP_ENABLE
        euler = True
    else:
        trees = {"sleeper": dict(nq=2, nv=2, joints=["type=2 axis=0,0,1", "type=3 axis=0,1,0 damping=0.5"],
                                 geom="type=6 size=0.1,0.2,0.3 pos=0.2,0,0 mass=1",
                                 loc={"qpos": 0, "qvel": 1, "qfrc": 0, "xfrc": 2}),
                 "awake": dict(nq=4, nv=3, joints=["type=1 damping=0.25"], geom="type=6 size=0.1,0.2,0.3 pos=0.2,0,0 mass=1",
                               loc={"qpos": 2, "qvel": 1, "qfrc": 0, "xfrc": 3})}
        opt = "option timestep=0.0625 gravity=0,0,-1 integrator=3 enableflags=%d" % SLEEP_ENABLE
        euler = False
    order = ["sleeper", "awake"] if layout == "first" else ["awake", "sleeper"]
    text = [opt]
    idx = {}
    qoff = voff = 0
    for k, t in enumerate(order):
        tr = trees[t]
        text.append("body name=%s pos=%d,0,1 sleep=%d" % (t, 2 * k, SLEEP_INIT if t == "sleeper" else SLEEP_NEVER))
        for j, jt in enumerate(tr["joints"]):
            text.append("joint body=%s name=%s_j%d %s" % (t, t, j, jt))
        text.append("geom body=%s name=%s_g %s contype=0 conaffinity=0" % (t, t, tr["geom"]))
        idx[t] = {"qpos": qoff + tr["loc"]["qpos"], "qvel": voff + tr["loc"]["qvel"], "qfrc": voff + tr["loc"]["qfrc"],
                  "xfrc": 6 * (k + 1) + tr["loc"]["xfrc"]}
        qoff += tr["nq"]
        voff += tr["nv"]
    return dict(name="sleep-%s/%s/%s" % (layout, kind, "Euler" if euler else "implicitfast"), euler=euler,
                constrained=False, layout=layout, idx=idx, text="\n".join(text), nv=voff,
                nv_sleeper=trees["sleeper"]["nv"])


for _layout in ("first", "last"):
    for _kind in ("free", "mixed"):
        MODELS.append(sleep_model(_kind, _layout))


def harness():
    return build.build_harness("mj_drv", [os.path.join(VERIF, "harness", "mj_drv.cc")],
                               extra=tladump.harness_digest_flag())


def value(site, cls):
    return HUGE[site] if cls == "huge" else VALUE[cls]


def rel_ok(r, c0, c1):
    """does the measured pair of counter values satisfy the relation the specification states?"""
    if r == "same":
        return c1 == c0
    if r == "inc":
        return c1 > c0
    if r == "zero":
        return c1 == 0
    if r == "pos":
        return c1 >= 1
    return r == "any"


def finite_line(line):
    t = line.split()[1:]
    return not any(x in ("nan", "inf", "-inf") for x in t)


def applicable(model, hist):
    """a behaviour is replayed on the models of its sleep layout; constrained models do not receive 'huge' in force /
    activation arrays"""
    if hist[0]["layout"] != model["layout"]:
        return False
    if not model["constrained"]:
        return True
    return not any(e["op"] == "inject" and e["cls"] == "huge" and e["site"] in ("qfrc", "xfrc", "act") for e in hist)


def script(mi, model, hist, phased):
    """op lines for one behaviour + list of checkpoints (first output index, kind, payload)"""
    m, d = mi, 100
    L = ["data %d %d" % (d, m), "optset %d disableflags 0" % m]
    marks = []

    def counters(tag, payload):
        marks.append((len(L), tag, payload))
        for w in WORDER:
            L.append("dscalar %d warning%d" % (d, WARN[w]))

    sleepy = model["layout"] != "none"
    for e in hist:
        op = e["op"]
        if op == "init":
            continue
        if op == "inject":
            ix = model["idx"][e["tgt"]][e["site"]] if sleepy else model["idx"][e["site"]]
            L.append("set %d %s %d %s" % (d, FIELD[e["site"]], ix, value(e["site"], e["cls"])))
        elif op == "setauto":
            L.append("optset %d disableflags %d" % (m, 0 if e["on"] else AUTORESET_BIT))
        elif op == "begin":
            if sleepy:
                # which degrees of freedom are awake when the step starts (checked against the specification)
                marks.append((len(L), "awake", e["asleep"]))
                L.append("dscalar %d nv_awake" % d)
                L.append("get %d dof_awake_ind" % d)
            counters("c0", None)
        elif op in PHASE_OP:
            if phased:
                L.append("%s %d" % (PHASE_OP[op], d))
                counters("rel", (op, e["rel"]))
        elif op == "step":
            L.append(("Euler %d" if phased else "step %d") % d)
            counters("rel", ("step", e["rel"]))
            marks.append((len(L), "state", e))
            for f in ("qpos", "qvel", "act"):
                L.append("get %d %s" % (d, f))
            L.append("dscalar %d time" % d)
            if e["ref"] >= 0:
                L.append("cmp %d %d qpos,qvel,act,time" % (d, 10 * m + e["ref"]))
        else:
            raise Machinery("unknown event %r" % (e,))
    return L, marks


def judge(out, marks, base):
    """first violated expectation of one behaviour or None: (signature suffix, text, output index)"""
    c0 = None
    for (pos, tag, payload) in marks:
        p = base + pos
        if tag == "awake":
            continue
        if tag in ("c0", "rel"):
            if p + 4 > len(out):
                return "crash", "harness died", p
            try:
                cs = [int(out[p + k]) for k in range(4)]
            except ValueError:
                return "error:" + out[p][:40].split()[0], "unexpected output %r" % out[p][:200], p
            if tag == "c0":
                c0 = cs
                continue
            phase, rel = payload
            for k, w in enumerate(WORDER):
                if not rel_ok(rel[w], c0[k], cs[k]):
                    return ("counter:%s:after=%s:want=%s:got=%s" % (
                        w, phase, rel[w], "same" if cs[k] == c0[k] else "larger" if cs[k] > c0[k] else "smaller"),
                        "warning counter BAD%s went %d -> %d during %s, specification says %r" % (
                            w.upper(), c0[k], cs[k], phase, rel[w]), p + k)
        else:
            e = payload
            if p + 4 > len(out):
                return "crash", "harness died", p
            if e["finite"]:
                for k, f in enumerate(("qpos", "qvel", "act")):
                    if not finite_line(out[p + k]):
                        return ("nonfinite:%s:autoreset=%s" % (f, "on" if e["auto"] else "off"),
                                "%s not finite after mj_step: %s" % (f, out[p + k][:200]), p + k)
                if out[p + 3] in ("nan", "inf", "-inf"):
                    return "nonfinite:time", "time not finite", p + 3
            if e["ref"] >= 0:
                if p + 5 > len(out):
                    return "crash", "harness died", p
                if out[p + 4] != "eq":
                    return ("notreset:%s" % out[p + 4].replace("ne ", "differs="),
                            "state differs from an untouched instance stepped %d times: %s" % (e["ref"], out[p + 4]), p + 4)
    return None


def awake_guard(model, out, marks, base):
    """the sleep state the specification assumes at the start of every step must be the real one (else the model
    of the sleep filter is wrong: machinery, not a verdict); returns True if a step started with a sleeping tree
    in front of the awake degrees of freedom (dof_awake_ind[j] != j)"""
    indirect = False
    for (pos, tag, asleep) in marks:
        if tag != "awake":
            continue
        p = base + pos
        if p + 2 > len(out):
            return indirect
        try:
            nva = int(float(out[p]))
            ind = [int(float(x)) for x in out[p + 1].split()[1:]]
        except ValueError:
            return indirect
        want = model["nv"] - model["nv_sleeper"] if asleep == "yes" else model["nv"] if asleep == "no" else None
        if want is not None and nva != want:
            raise Machinery("model %s: specification says the sleeper is asleep=%s at the start of a step, but "
                            "nv_awake = %d of %d" % (model["name"], asleep, nva, model["nv"]))
        if asleep == "yes" and nva > 0 and ind[0] != 0:
            indirect = True
    return indirect


def feature(hist):
    inj = sorted(set("%s%s=%s" % ("" if e["tgt"] == "awake" else "sleeper.", e["site"], e["cls"])
                     for e in hist if e["op"] == "inject"))
    off = any(e["op"] == "setauto" and not e["on"] for e in hist)
    return "+".join(inj) or "none", off


def run(ctx):
    import time
    t0 = time.time()
    exe = harness()
    ctx.assume("six models without sleeping (free, ball, slide and hinge joints; Euler, RK4, implicit, implicitfast; one "
               "with a contact and a joint limit); injected forces and activations act on a degree of freedom, "
               "controls are not range-limited",
               "four models with sleeping enabled: a tree initialised asleep placed before or after a tree that never "
               "sleeps (two free bodies / Euler; slide+hinge body and ball-joint body / implicitfast), no actuators; "
               "values are injected into qpos, qvel, qfrc_applied, xfrc_applied of either tree",
               "a bad velocity written into a tree that is asleep is hidden from mj_checkVel by the sleep filter: the "
               "specification claims finiteness under autoreset but not which counter moves",
               "value classes: 0.5 (in range), 1e11 / 1e300 (beyond mjMAXVAL), NaN, +Inf, -Inf; exactly mjMAXVAL is "
               "not used",
               "warning counters are compared as relations to their value at the start of the step",
               "without autoreset nothing is claimed about finiteness once a bad value was allowed to propagate")
    gc = ("-XX:ParallelGCThreads=2",)
    nsim = 60 if ctx.quick else 12000
    mc_cfg = "Blowup_MCQ.cfg" if ctx.quick else "Blowup_MC.cfg"
    two_cfg = "Blowup_TwoQ.cfg" if ctx.quick else "Blowup_Two.cfg"
    one_cfg = "Blowup_OneQ.cfg" if ctx.quick else "Blowup_One.cfg"

    def terminal(blk):
        return ("hist", "nsteps") if 'phase = "idle"' in blk and 'op |-> "step"' in blk else None

    jobs = {
        "mc": lambda: tlc.run(SPEC, os.path.join(TLA, mc_cfg), coverage=True, timeout=900, workers=6,
                              java_opts=gc),
        "one": lambda: tladump.run_dump(SPEC, os.path.join(TLA, one_cfg), timeout=900, workers=4,
                                        select=terminal, java_opts=gc),
        "two": lambda: tladump.run_dump(SPEC, os.path.join(TLA, two_cfg), timeout=900, workers=4,
                                        select=terminal, java_opts=gc),
        "sim": lambda: tladump.simulate(SPEC, os.path.join(TLA, "Blowup_Sim.cfg"), num=nsim, depth=40,
                                        seed=ctx.seed + 1, timeout=1500,
                                        select=lambda act, blk: ("hist", "nsteps") if act == "Integrate" else None,
                                        java_opts=gc),
        "neg1": lambda: tlc.run(SPEC, os.path.join(TLA, "Blowup_Neg1.cfg"), timeout=600, workers=2, java_opts=gc),
        "neg3": lambda: tlc.run(SPEC, os.path.join(TLA, "Blowup_Neg3.cfg"), timeout=600, workers=2, java_opts=gc),
    }
    if not ctx.quick:
        for k in ("neg2", "neg4"):
            jobs[k] = (lambda k=k: tlc.run(SPEC, os.path.join(TLA, "Blowup_N%s.cfg" % k[1:]), timeout=600, workers=2,
                                           java_opts=gc))
    with cf.ThreadPoolExecutor(len(jobs)) as ex:
        futs = {k: ex.submit(f) for k, f in jobs.items()}
        out = {k: f.result() for k, f in futs.items()}
    tladump.timing("tlc jobs", t0)
    for k in out:
        r_ = out[k][0] if isinstance(out[k], tuple) else out[k]
        tladump.timing("  " + k, time.time() - r_.wall)
    ctx.tlc_ok(out["mc"], mc_cfg[:-4], need_actions=["Inject", "SetAuto", "Begin", "CheckPos", "CheckVel", "Forward",
                                                    "CheckAcc", "Integrate"])
    behs = []
    try:
        for k, want_steps in (("one", 1), ("two", 2)):
            res, states, cleanup = out[k]
            ctx.tlc_ok(res, (two_cfg if k == "two" else one_cfg)[:-4])
            for st in states():
                if st["nsteps"] == want_steps:
                    h = st["hist"]
                    if ctx.quick:
                        # quick tier (four / two value classes): a fixed half of the two-step behaviours, a fixed third
                        # of the one-step behaviours with two injections in the sleep layouts
                        c = zlib.crc32(repr(h).encode())
                        ninj = sum(1 for e in h if e["op"] == "inject")
                        if (k == "two" and c % 2) or (k == "one" and ninj == 2 and h[0]["layout"] != "none" and c % 3):
                            continue
                    behs.append((k, h))
    finally:
        out["one"][2]()
        out["two"][2]()
    res, sims = out["sim"]
    ctx.tlc_ok(res, "Blowup_Sim")
    for b in sims:
        if b:
            behs.append(("sim", b[-1][1]["hist"]))      # the last completed step carries the whole history
    for k, what, props in (("neg1", "a fired check does not reset", ("Contained", "AutoresetFinite", "NothingLeft",
                                                                     "DetectedCounted")),
                           ("neg2", "mj_checkVel is skipped", ("BadVelDetected",)),
                           ("neg3", "the checks look at the wrong dofs when a sleeping tree precedes the awake one",
                            ("BadVelDetected", "AwakeAccDetected", "SleeperAccDetected", "AutoresetFinite")),
                           ("neg4", "a touched sleeping tree is not woken", ("TouchWakes", "SleeperAccDetected"))):
        if k not in out:
            continue
        r = out[k]
        ctx.cov["tlc_runs"].append({"name": "Blowup_" + k, "generated": r.generated, "distinct": r.distinct,
                                    "depth": r.depth, "wall_s": round(r.wall, 2), "violation": r.violation})
        if r.error:
            raise Machinery("TLC negative-control run %s failed: %s" % (k, r.error))
        ctx.control("TLC rejects the planted specification defect (%s)" % what,
                    bool(r.violation) and any(p in r.violation for p in props))
    # de-duplicate behaviours
    seen = set()
    uniq = []
    for (origin, h) in behs:
        key = repr(h)
        if key not in seen:
            seen.add(key)
            uniq.append((origin, h))
    behs = sorted(uniq, key=lambda b: (b[0], repr(b[1])))       # the dump order depends on TLC's worker threads
    if len(behs) < 100:
        raise Machinery("only %d behaviours to replay" % len(behs))

    tladump.timing("behaviours collected (%d)" % len(behs), t0)

    def replay_model(mi):
        model = MODELS[mi - 1]
        setup = ["model %d" % mi] + model["text"].split("\n") + ["end"]
        for k in range(MAXSTEPS + 1):
            setup.append("data %d %d" % (10 * mi + k, mi))
            if k:
                setup.append("step %d %d" % (10 * mi + k, k))
        nset = 1 + (MAXSTEPS + 1) + MAXSTEPS
        lines = list(setup)
        index = []
        for bi, (origin, h) in enumerate(behs):
            if not applicable(model, h):
                continue
            for phased in ((False, True) if model["euler"] else (False,)):
                L, marks = script(mi, model, h, phased)
                index.append((bi, phased, len(lines) - len(setup), marks, L))
                lines += L
        r = drv.run_script(exe, lines, timeout=1500)
        return nset, index, r

    with cf.ThreadPoolExecutor(len(MODELS)) as ex:
        results = list(ex.map(replay_model, range(1, len(MODELS) + 1)))
    tladump.timing("harness runs done", t0)
    ctrl_done = False
    # vacuity guard of the sleep filter: behaviours in which a velocity / acceleration check of the specification
    # fired while a sleeping tree preceded the awake degrees of freedom, confirmed on the real dof_awake_ind
    indirect_fired = {"checkVel": 0, "checkAcc": 0}
    for mi, (nset, index, r) in enumerate(results, 1):
        model = MODELS[mi - 1]
        got = r.lines
        if got[:nset] != ["ok"] * nset:
            raise Machinery("setup of model %s failed: %r" % (model["name"], got[:nset]))
        got = got[nset:]
        for (bi, phased, base, marks, L) in index:
            origin, h = behs[bi]
            feat, off = feature(h)
            nbad = sum(1 for e in h if e["op"] == "inject" and e["cls"] != "ok")
            ctx.case({"model": mi, "phased": phased, "hist": [tlc.to_py(e) for e in h if e["op"] in ("inject", "setauto", "begin")]},
                     nontrivial=nbad > 0,
                     sample={"model": model["name"], "inject": feat, "autoreset_off": off, "phased": phased})
            if not ctrl_done and any(t == "rel" and any(v == "pos" for v in p[1].values()) for (_p, t, p) in marks):
                # negative control: the same outputs judged against a perturbed relation must be flagged
                bad = [(p, t, (pl[0], dict(pl[1], **{w: "same" for w in WORDER})) if t == "rel" else pl)
                       for (p, t, pl) in marks]
                ctx.control("perturbed expected counter relation is flagged", judge(got, bad, base) is not None)
                ctrl_done = True
            if model["layout"] != "none":
                really_indirect = awake_guard(model, got, marks, base)
                if really_indirect and model["layout"] == "first":
                    for e in h:
                        if e["op"] in indirect_fired and e["fired"] and e["indirect"]:
                            indirect_fired[e["op"]] += 1
            v = judge(got, marks, base)
            if v is None:
                ctx.trace_ok()
                continue
            suffix, text, pos = v
            if suffix == "crash" and r.crashed:
                text = "harness died: " + r.crash_text()
            sig = "%s:%s" % ("phases" if phased else "mj_step", suffix)
            setup = ["model %d" % mi] + model["text"].split("\n") + ["end"]
            for k in range(MAXSTEPS + 1):
                setup.append("data %d %d" % (10 * mi + k, mi))
                if k:
                    setup.append("step %d %d" % (10 * mi + k, k))
            ctx.violation(sig, "model %s, injections %s%s: %s" % (model["name"], feat,
                                                                  " (autoreset disabled at some point)" if off else "", text),
                          {"model": mi, "phased": phased, "script": setup + L,
                           "hist": [tlc.to_py(e) for e in h], "nsetup": nset})
    if not ctrl_done:
        raise Machinery("no behaviour with a reset was replayed: negative control impossible")
    for op, n in indirect_fired.items():
        if n == 0:
            raise Machinery("vacuity: no replayed behaviour in which %s fired for an awake degree of freedom that "
                            "follows a sleeping tree (dof_awake_ind[j] != j)" % op)
    ctx.cov["sleep_filter_scenarios"] = dict(indirect_fired)
    ctx.cov["exhaustive"] = True
    ctx.cov["rule"] = ("behaviours = all one-step histories with <= 2 injections (6 arrays x 5 classes) x autoreset on/off, "
                       "all two-step histories with <= 1 injection per step, %d simulated three-step histories; each "
                       "replayed on the models of its sleep layout (6 without sleeping, 2 + 2 with a sleeping tree first / last) through "
                       "mj_step and on the Euler models also phase by phase; after each "
                       "step (phase) 4 warning counters, finiteness of qpos/qvel/act/time and equality with the reference "
                       "instance are compared; non-trivial = at least one bad value injected; distinct = (model, mode, "
                       "history)" % len(sims))


def replay(ctx, rp):
    exe = harness()
    d = rp["replay"]
    model = MODELS[d["model"] - 1]
    r = drv.run_script(exe, d["script"], timeout=600)
    hist = d["hist"]
    L, marks = script(d["model"], model, hist, d["phased"])
    v = judge(r.lines[d["nsetup"]:], marks, 0)
    print("replayed %d events on model %s: %s" % (len(hist), model["name"], v[1] if v else "no violation"))
    if v is not None:
        ctx.violation(rp["signature"], rp["what"], d)
    ctx.case({"replay": rp["signature"]})
    ctx.case({"replay": rp["signature"], "x": 1})
