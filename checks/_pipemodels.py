"""Model pool, field classes and option handling shared by checks/c01.py (DataLifecycle.tla) and checks/c04.py
(Pipeline.tla).  Pure data + script helpers: nothing here decides an expected result."""
import os
import re

from vlib import build, drv
from vlib.check import Machinery, VERIF
from checks import tladump

# ---- mjData fields of each abstract class of the specifications (DataLifecycle.tla header) -----------------
GROUP_FIELDS = {
    "time": "time",
    "qp": "qpos,qvel,act",
    "hist": "history",
    "plug": "plugin_state",
    "warm": "qacc_warmstart",
    "ctrl": "ctrl",
    "app": "qfrc_applied,xfrc_applied",
    "aux": "eq_active,mocap_pos,mocap_quat,userdata",
}
# position / velocity stage
PV_FIELDS = ("xpos,xquat,xmat,xipos,ximat,xanchor,xaxis,geom_xpos,geom_xmat,site_xpos,site_xmat,subtree_com,cdof,cinert,"
             "ten_J,ten_length,ten_wrapadr,ten_wrapnum,wrap_obj,wrap_xpos,actuator_length,actuator_moment,crb,M,qLD,qLDiagInv,"
             "ncon,contact,ne,nf,nl,nefc,efc_type,efc_id,efc_pos,efc_margin,efc_frictionloss,efc_D,efc_R,efc_KBIP,"
             "efc_J,efc_vel,efc_aref,ten_velocity,actuator_velocity,cvel,cdof_dot,qfrc_bias,qfrc_spring,qfrc_damper,"
             "qfrc_gravcomp,qfrc_fluid,qfrc_passive,energy,subtree_linvel,subtree_angmom,sens1,sens2")
# acceleration stage array that forward, step, step2 AND inverse all write
ACC_FIELDS = "qfrc_constraint"
# arena arrays reallocated by the position stage and filled by the acceleration stage
EFC_FIELDS = "efc_force,efc_state"
# qacc is an output of forward / step / step2 and an input of inverse dynamics (the caller may write it)
QACC_FIELDS = "qacc"
# written together with qacc by forward / step / step2 only
SM_FIELDS = "qacc_smooth,qfrc_smooth,qfrc_actuator,actuator_force,act_dot"
INV_FIELDS = "qfrc_inverse"
SENS_FIELDS = "sensordata"
CLASS_FIELDS = dict(GROUP_FIELDS, pv=PV_FIELDS, acc=ACC_FIELDS, qacc=QACC_FIELDS, sm=SM_FIELDS, inv=INV_FIELDS, sens=SENS_FIELDS, efc=EFC_FIELDS)
ALL_IST = ",".join(GROUP_FIELDS[g] for g in ("time", "qp", "hist", "plug", "warm", "ctrl", "app", "aux"))

SIG_BITS = {"time": 1, "qp": 2 | 4 | 8, "hist": 16, "plug": 1 << 13, "warm": 32, "ctrl": 64, "app": 128 | 256,
            "aux": 512 | 1024 | 2048 | 4096}
SIG_GROUPS = {
    "INTEGRATION": ("time", "qp", "hist", "plug", "warm", "ctrl", "app", "aux"),
    "FULLPHYSICS": ("time", "qp", "hist", "plug"),
    "PHYSICS": ("qp", "hist"),
    "USER": ("ctrl", "app", "aux"),
    "NOWARM": ("time", "qp", "hist", "plug", "ctrl", "app", "aux"),
    "WARM": ("warm",),
    "CTRL": ("ctrl",),
    "QPT": ("time", "qp"),
}


def sig_int(name):
    return sum(SIG_BITS[g] for g in SIG_GROUPS[name])


DSBL_ISLAND = 1 << 18
DSBL_ACTUATION = 1 << 11
DSBL_WARMSTART = 1 << 9
ENBL_ENERGY = 1 << 1
ENBL_SLEEP = 1 << 4

# ---- model pool (mkmodel.h / mkmodel_ext.h description language; $NAME = enum constant asked from the driver) ----
USER_SENSORS = """sensor name=us0 type=$mjSENS_USER objtype=0 datatype=0 needstage=1 dim=1
sensor name=us1 type=$mjSENS_USER objtype=0 datatype=0 needstage=2 dim=2
sensor name=us2 type=$mjSENS_USER objtype=0 datatype=0 needstage=3 dim=1"""

MODELS = [
    dict(name="boxes", feat=(True, True, True, True), energy=True, text="""option timestep=0.005 gravity=0,0,-9.81
size nuserdata=2
geom name=floor type=0 size=5,5,0.1
body name=b1 pos=0,0,0.1
joint body=b1 name=j1 type=0
geom body=b1 name=g1 type=6 size=0.1,0.1,0.1 mass=1
site body=b1 name=s1 pos=0,0,0.05 size=0.3,0,0
body name=b2 pos=0.03,0.02,0.31
joint body=b2 name=j2 type=0
geom body=b2 name=g2 type=2 size=0.1,0,0 mass=0.5
site body=b2 name=s2
sensor name=acc type=$mjSENS_ACCELEROMETER objtype=$mjOBJ_SITE objname=s1
sensor name=tch type=$mjSENS_TOUCH objtype=$mjOBJ_SITE objname=s1
sensor name=fp type=$mjSENS_FRAMEPOS objtype=$mjOBJ_SITE objname=s2
sensor name=stl type=$mjSENS_SUBTREELINVEL objtype=$mjOBJ_BODY objname=b1
sensor name=frc type=$mjSENS_FORCE objtype=$mjOBJ_SITE objname=s2
sensor name=ep type=$mjSENS_E_POTENTIAL objtype=0
sensor name=ek type=$mjSENS_E_KINETIC objtype=0
sensor name=clk type=$mjSENS_CLOCK objtype=0"""),
    dict(name="arm", feat=(False, False, False, True), energy=False, text="""option timestep=0.004 gravity=0,0,-9.81
body name=l1 pos=0,0,1
joint body=l1 name=h1 type=3 axis=0,1,0 limited=1 range=-0.4,0.6 damping=0.3 armature=0.01 frictionloss=0.05
geom body=l1 name=gl1 type=3 fromto=0,0,0,0.4,0,0 size=0.03,0,0 mass=1
body name=l2 parent=l1 pos=0.4,0,0
joint body=l2 name=h2 type=3 axis=0,1,0 limited=1 range=-0.2,1.0 damping=0.1 stiffness=2 springref=0.2
geom body=l2 name=gl2 type=3 fromto=0,0,0,0.3,0,0 size=0.03,0,0 mass=0.5
site body=l2 name=tip pos=0.3,0,0
tendon name=t1 limited=1 range=-0.3,0.5 frictionloss=0.02
wrapjoint tendon=t1 joint=h1 coef=1
wrapjoint tendon=t1 joint=h2 coef=-0.5
actuator name=m1 trntype=0 target=h1 ctrllimited=1 ctrlrange=-0.1,0.1 gear=5
actuator name=p2 trntype=0 target=h2 gaintype=0 gainprm=20 biastype=1 biasprm=0,-20,-1 dyntype=$mjDYN_FILTER dynprm=0.05
actuator name=i1 trntype=0 target=h1 dyntype=$mjDYN_INTEGRATOR gainprm=2
actuator name=tt trntype=$mjTRN_TENDON target=t1 gainprm=0.5
sensor name=jp type=$mjSENS_JOINTPOS objtype=$mjOBJ_JOINT objname=h1
sensor name=jv type=$mjSENS_JOINTVEL objtype=$mjOBJ_JOINT objname=h2
sensor name=af type=$mjSENS_ACTUATORFRC objtype=$mjOBJ_ACTUATOR objname=p2
sensor name=tp type=$mjSENS_TENDONPOS objtype=$mjOBJ_TENDON objname=t1
sensor name=lf type=$mjSENS_JOINTLIMITFRC objtype=$mjOBJ_JOINT objname=h1
sensor name=la type=$mjSENS_FRAMELINACC objtype=$mjOBJ_SITE objname=tip"""),
    dict(name="equalities", feat=(True, False, True, False), energy=True, text="""option timestep=0.004 gravity=0,0,-9.81
size nuserdata=3
body name=f1 pos=0,0,1
joint body=f1 name=jf type=0
geom body=f1 name=gf type=6 size=0.1,0.05,0.05 mass=1 contype=0 conaffinity=0
body name=bb pos=0.5,0,1
joint body=bb name=jb type=1 damping=0.05
geom body=bb name=gb type=3 fromto=0,0,0,0,0,-0.3 size=0.03,0,0 mass=0.4 contype=0 conaffinity=0
body name=s1 pos=1,0,1
joint body=s1 name=js1 type=2 axis=0,0,1 damping=0.5
geom body=s1 name=gs1 type=2 size=0.05,0,0 mass=0.3 contype=0 conaffinity=0
body name=s2 pos=1.3,0,1
joint body=s2 name=js2 type=2 axis=0,0,1 damping=0.5
geom body=s2 name=gs2 type=2 size=0.05,0,0 mass=0.3 contype=0 conaffinity=0
body name=mc mocap=1 pos=0,0,1
equality name=ew type=$mjEQ_WELD objtype=$mjOBJ_BODY name1=f1 name2=mc
equality name=ec type=$mjEQ_CONNECT objtype=$mjOBJ_BODY name1=bb name2=f1 data=0,0,-0.3
equality name=ej type=$mjEQ_JOINT objtype=$mjOBJ_JOINT name1=js1 name2=js2 data=0,1,0,0,0
actuator name=a1 trntype=0 target=js1 gainprm=1
sensor name=sc type=$mjSENS_SUBTREECOM objtype=$mjOBJ_BODY objname=bb
sensor name=am type=$mjSENS_SUBTREEANGMOM objtype=$mjOBJ_BODY objname=f1"""),
    dict(name="islands", feat=(False, False, False, False), energy=False, text="""option timestep=0.004 gravity=0,0,-9.81
geom name=floor type=0 size=5,5,0.1 condim=3
body name=a pos=0,0,0.099
joint body=a name=ja type=0
geom body=a name=ga type=2 size=0.1,0,0 mass=1 condim=4
body name=c pos=1,0,0.049
joint body=c name=jc type=0
geom body=c name=gc type=3 fromto=-0.15,0,0,0.15,0,0 size=0.05,0,0 mass=1 condim=6
body name=d1 pos=2,0,0.099
joint body=d1 name=jd1 type=0
geom body=d1 name=gd1 type=6 size=0.1,0.1,0.1 mass=1
body name=d2 pos=2.02,0.01,0.298
joint body=d2 name=jd2 type=0
geom body=d2 name=gd2 type=6 size=0.08,0.08,0.1 mass=0.5
body name=e pos=3,0,0.5
joint body=e name=je type=2 axis=0,0,1 limited=1 range=-0.3,0.3
geom body=e name=ge type=2 size=0.05,0,0 mass=0.2 contype=0 conaffinity=0
actuator name=ae trntype=0 target=je gainprm=1
site body=a name=sa
sensor name=ta type=$mjSENS_TOUCH objtype=$mjOBJ_SITE objname=sa
sensor name=gy type=$mjSENS_GYRO objtype=$mjOBJ_SITE objname=sa"""),
    dict(name="history", feat=(False, False, False, True), flags=False, energy=False, text="""activate plugin=verif.state
option timestep=0.005 gravity=0,0,-9.81
size nuserdata=2
body name=p1 pos=0,0,1
joint body=p1 name=hp type=3 axis=0,1,0 damping=0.2
geom body=p1 name=gp type=3 fromto=0,0,0,0,0,-0.4 size=0.03,0,0 mass=1 contype=0 conaffinity=0
site body=p1 name=sp pos=0,0,-0.4
body name=q1 pos=0.5,0,1
joint body=q1 name=sq type=2 axis=1,0,0 damping=1 stiffness=5
geom body=q1 name=gq type=6 size=0.05,0.05,0.05 mass=1 contype=0 conaffinity=0
bodyplugin body=p1 plugin=verif.state
actuator name=d1 trntype=0 target=hp nsample=3 delay=0.01 gainprm=1
actuator name=d2 trntype=0 target=sq dyntype=$mjDYN_FILTEREXACT dynprm=0.03 gainprm=3
actuator name=d3 trntype=0 target=sq nsample=2 delay=0.005 interp=1
sensor name=vd type=$mjSENS_VELOCIMETER objtype=$mjOBJ_SITE objname=sp nsample=3 delay=0.01
sensor name=pi type=$mjSENS_JOINTPOS objtype=$mjOBJ_JOINT objname=sq nsample=2 interval=0.01,0
sensor name=aa type=$mjSENS_ACCELEROMETER objtype=$mjOBJ_SITE objname=sp nsample=2 delay=0.005 interval=0.015,-0.005"""),
    dict(name="chain", feat=(True, False, False, True), energy=True, text="""option timestep=0.003 gravity=0,0,-9.81 density=1.2 viscosity=0.0002 wind=0.5,0,0
geom name=blk type=6 pos=0.25,0,0.55 size=0.1,0.3,0.05
body name=c1 pos=0,0,1 gravcomp=0.3
joint body=c1 name=b1 type=1 damping=0.02 stiffness=0.5
geom body=c1 name=k1 type=3 fromto=0,0,0,0,0,-0.2 size=0.03,0,0 mass=0.3
body name=c2 parent=c1 pos=0,0,-0.2
joint body=c2 name=b2 type=1 damping=0.02
geom body=c2 name=k2 type=3 fromto=0,0,0,0.2,0,0 size=0.03,0,0 mass=0.3
body name=c3 parent=c2 pos=0.2,0,0
joint body=c3 name=b3 type=3 axis=0,1,0 damping=0.02 limited=1 range=-1,1
geom body=c3 name=k3 type=3 fromto=0,0,0,0.2,0,0 size=0.03,0,0 mass=0.3
site body=c3 name=end pos=0.2,0,0
actuator name=ab trntype=0 target=b1 gear=0,1,0 gainprm=0.5
actuator name=ah trntype=0 target=b3 gainprm=0.3 dyntype=$mjDYN_FILTER dynprm=0.02
sensor name=tq type=$mjSENS_TORQUE objtype=$mjOBJ_SITE objname=end
sensor name=lv type=$mjSENS_FRAMELINVEL objtype=$mjOBJ_SITE objname=end"""),
    dict(name="spatial", feat=(False, False, False, False), energy=False, text="""option timestep=0.004 gravity=0,0,-9.81
site name=anchor pos=0,0,1.5
body name=w pos=0,0,1
joint body=w name=wx type=2 axis=1,0,0 damping=0.5
joint body=w name=wz type=2 axis=0,0,1 damping=0.5
geom body=w name=gw type=2 size=0.08,0,0 mass=1
site body=w name=hook pos=0,0,0.08
body name=v pos=0.5,0,0.079
joint body=v name=jv type=0
geom body=v name=gv type=5 size=0.08,0.08,0 mass=0.5
geom name=floor type=0 size=5,5,0.1
tendon name=rope limited=1 range=0,0.45 stiffness=20 springlength=0.3,0.3 damping=0.5
wrapsite tendon=rope site=anchor
wrapsite tendon=rope site=hook
actuator name=pull trntype=$mjTRN_TENDON target=rope gainprm=2 ctrllimited=1 ctrlrange=-1,1
sensor name=tl type=$mjSENS_TENDONPOS objtype=$mjOBJ_TENDON objname=rope"""),
    dict(name="bare", feat=(False, False, False, False), energy=False, text="""option timestep=0.01 gravity=0,0,-9.81
body name=m pos=0,0,1
joint body=m name=mx type=2 axis=1,0,0
joint body=m name=mz type=2 axis=0,0,1
geom body=m name=gm type=2 size=0.1,0,0 mass=1 contype=0 conaffinity=0
actuator name=am trntype=0 target=mx gainprm=1"""),
]

SLEEP_MODELS = [
    dict(name="sleepers", energy=False, text="""option timestep=0.005 gravity=0,0,-9.81 enableflags=16
geom name=floor type=0 size=5,5,0.1
body name=r pos=0,0,0.5 sleep=$mjSLEEP_ALLOWED
joint body=r name=rx type=2 axis=1,0,0 damping=2
geom body=r name=gr type=2 size=0.05,0,0 mass=1 contype=0 conaffinity=0
body name=p pos=1,0,1
joint body=p name=ph type=3 axis=0,1,0
geom body=p name=gp type=3 fromto=0,0,0,0.3,0,0 size=0.03,0,0 mass=1 contype=0 conaffinity=0
body name=bx pos=2,0,0.0995
joint body=bx name=fb type=0
geom body=bx name=gb type=6 size=0.1,0.1,0.1 mass=1
actuator name=ar trntype=0 target=rx gainprm=1
sensor name=jr type=$mjSENS_JOINTPOS objtype=$mjOBJ_JOINT objname=rx
sensor name=jvp type=$mjSENS_JOINTVEL objtype=$mjOBJ_JOINT objname=ph"""),
    dict(name="sleepers2", energy=False, text="""option timestep=0.005 gravity=0,0,0 enableflags=16
body name=r1 pos=0,0,0.5 sleep=$mjSLEEP_ALLOWED
joint body=r1 name=r1x type=2 axis=1,0,0 damping=1
geom body=r1 name=gr1 type=2 size=0.05,0,0 mass=1 contype=0 conaffinity=0
body name=r2 pos=1,0,0.5 sleep=$mjSLEEP_ALLOWED
joint body=r2 name=r2x type=2 axis=1,0,0 damping=1
joint body=r2 name=r2h type=3 axis=0,1,0 damping=0.1
geom body=r2 name=gr2 type=6 size=0.05,0.1,0.05 mass=1 contype=0 conaffinity=0
equality name=ej type=$mjEQ_JOINT objtype=$mjOBJ_JOINT name1=r1x name2=r2x data=0,1,0,0,0
actuator name=a1 trntype=0 target=r1x gainprm=1
actuator name=a2 trntype=0 target=r2h gainprm=0.1 dyntype=$mjDYN_FILTER dynprm=0.05"""),
]


def feat_of(model, usersensors=False):
    """feature record of the specification (Pipeline.tla: energy, esens, stv, rne, usens)"""
    en, es, sv, rn = model["feat"]
    if usersensors:
        sv, rn = True, True
    return {"energy": en, "esens": es, "stv": sv, "rne": rn, "usens": usersensors}


def harness():
    return build.build_harness("pipe_drv", [os.path.join(VERIF, "harness", "pipe_drv.cc")],
                               extra=tladump.harness_digest_flag())


_consts = {}


def resolve(exe, text):
    """replace $NAME by the value of the enum constant (asked from the driver, cached)"""
    names = sorted(set(re.findall(r'\$(mj[A-Za-z0-9_]+)', text)))
    todo = [n for n in names if n not in _consts]
    if todo:
        r = drv.run_script(exe, ["const " + n for n in todo], timeout=120)
        if r.crashed or len(r.lines) != len(todo):
            raise Machinery("driver cannot resolve constants: " + " ".join(r.lines[-2:]) + r.crash_text())
        for n, v in zip(todo, r.lines):
            _consts[n] = int(v)
    return re.sub(r'\$(mj[A-Za-z0-9_]+)', lambda m: str(_consts[m.group(1)]), text)


def model_lines(exe, slot, model, usersensors=False):
    text = model["text"] + ("\n" + USER_SENSORS if usersensors else "")
    return ["xmodel %d" % slot] + resolve(exe, text).split("\n") + ["end"]


def opt_lines(slot, model, opt, sleep=False, extra_disable=0, extra_enable=0):
    """mjOption settings of one option combination (record of the specification)"""
    dis = (0 if opt["island"] else DSBL_ISLAND) | (0 if opt.get("warm", 1) else DSBL_WARMSTART) | extra_disable
    en = (ENBL_ENERGY if model.get("energy") else 0) | (ENBL_SLEEP if sleep else 0) | extra_enable
    return ["optset %d integrator %d" % (slot, opt["integ"]), "optset %d solver %d" % (slot, opt["solver"]),
            "optset %d cone %d" % (slot, opt["cone"]), "optset %d jacobian %d" % (slot, opt["jac"]),
            "optset %d disableflags %d" % (slot, dis), "optset %d enableflags %d" % (slot, en)]


def opt_key(opt):
    return "i%ds%dc%dj%dl%dw%d" % (opt["integ"], opt["solver"], opt["cone"], opt["jac"], opt["island"], opt.get("warm", 1))
