"""C18 - sleeping islands are frozen and wake on the documented events.

SleepCore.tla / SleepApi.tla / Sleep.tla / SleepTrace.tla decided by TLC and bound to src/engine/engine_sleep.c:
  spec -> code  (a) every valid tree_asleep array over <= 5 trees x every argument of mj_wakeIsland / mj_sleepCycle /
                    mj_updateSleep (SleepApi.tla);
                (b) every transition of the exhaustive state graph of Sleep.tla (mj_wake, mj_wakeCollision,
                    mj_wakeEquality, mj_sleep called as mj_fwdPosition / mj_advance call them) and simulated longer
                    behaviours, on a synthetic mjModel/mjData (harness/sleep_drv.cc);
  code -> spec  real mj_step runs with sleeping enabled (boxes / spheres / capsules on a plane, stacks, welded pairs,
                mocap body, sleep policies never / init, islands disabled) under seeded perturbations; every recorded
                step must be explained by SleepTrace.tla (same phase actions), sleeping trees bit-frozen with zero
                velocity, and bitwise equal to a sleep-disabled twin while no tree is asleep."""
import json
import os
import random
import re
import shutil

from vlib import build, tlc, drv
from vlib.check import Machinery, VERIF
from checks import tladump

TLA = os.path.join(VERIF, "tla")
H = os.path.join(VERIF, "harness")

META = dict(
    engine="tlc-trace",
    technique="TLA+ specs SleepCore/SleepApi/Sleep (tree_asleep cycles; one action per sleep/wake phase of mj_step: "
              "mj_wake, mj_wakeCollision with start-of-sweep flags and countdown inheritance, mj_wakeEquality, "
              "mj_sleep with countdown and island cycles) model-checked by TLC; all API cases and all transitions of "
              "the exhaustive graphs replayed into engine_sleep.c through a white-box driver; recorded mj_step runs "
              "with sleeping enabled validated step by step by SleepTrace.tla (same phase actions fed from the log)",
    text="TLC decides on Sleep.tla (all histories over 3 and 4 trees, MINAWAKE abstracted to 1): cycles always closed, "
         "a cycle is exactly one island, islands wake whole, wake on perturbation / touch / equality / mocap, "
         "countdown rule, frozen while asleep. Every valid array over <= 5 trees is replayed into mj_wakeIsland, "
         "mj_sleepCycle, mj_updateSleep; every transition of the 2-tree (real MINAWAKE) and 3-tree (engine_sleep.c "
         "compiled with MINAWAKE=1) graphs and simulated 5-tree behaviours are replayed phase by phase into mj_wake, "
         "mj_wakeCollision, mj_wakeEquality, mj_sleep. Real simulations (14 scenario families, seeded perturbations "
         "of qpos/qvel/xfrc/qfrc/mocap/eq_active) are logged after every mj_step and accepted by TLC only if "
         "SleepTrace.tla explains each step, sleeping trees kept their qpos bits and zero qvel, island ids agree and "
         "a sleep-disabled twin agrees bitwise whenever no tree is asleep.",
    note="Trusted: TLC, harness/sleep_drv.cc (synthetic model holds exactly the fields engine_sleep.c reads; the log "
         "projections pq/forced/slow/contacts), the layout of island arrays copied from mj_island. Not covered: "
         "flexes, tendon wake (mj_wakeTendon), RK4, sensors/actuators of sleeping trees, qpos changes that leave "
         "xpos/xquat unchanged, the order of a cycle (only its member set is compared on real runs).",
    ref="DESIGN.md section 4 C18")

SLEEP = 16                  # mjENBL_SLEEP
DSBL_ISLAND = 1 << 18


def csv(xs):
    xs = list(xs)
    return ",".join(str(x) for x in xs) if xs else "-"


JOPT = ("-XX:TieredStopAtLevel=1",)          # short TLC runs: JIT warm-up dominates


def first_mismatch(exps, got):
    for i, e in enumerate(exps):
        g = got[i] if i < len(got) else None
        if g != e[-1]:
            return i, g
    return None


# =====================================================================================================================
# part 1: mj_wakeIsland / mj_sleepCycle / mj_updateSleep on every valid array (SleepApi.tla)
# =====================================================================================================================
def part_api(ctx, exe):
    spec = os.path.join(TLA, "SleepApi.tla")
    if not ctx.quick:
        res = tlc.run(spec, os.path.join(TLA, "SleepApi_MC.cfg"), coverage=True, timeout=900, java_opts=JOPT)
        ctx.tlc_ok(res, "SleepApi_MC(NT=4,3 ops)", need_actions=["ApiWake", "ApiCycle", "ApiUpdate"])
    cfg = "SleepApi_Dump4.cfg" if ctx.quick else "SleepApi_Dump.cfg"
    nt = 4 if ctx.quick else 5
    res, states, cleanup = tladump.run_dump(spec, os.path.join(TLA, cfg), timeout=1500, only={"ev"}, java_opts=JOPT)
    try:
        ctx.tlc_ok(res, cfg[:-4])
        cmds, exps = ["wb_new %d - - 0" % nt], [("new", None, "ok")]
        for st in states():
            ev = st["ev"]
            if ev["op"] == "init":
                continue
            b = csv(ev["before"])
            if ev["op"] == "wake":
                cmds.append("wb_wakeisland %s %d %d" % (b, ev["i"], ev["wv"]))
                exps.append(("wake", ev, "%d %s" % (ev["ret"], csv(ev["after"]))))
            elif ev["op"] == "cycle":
                cmds.append("wb_cycle %s %d" % (b, ev["i"]))
                exps.append(("cycle", ev, "%d" % ev["ret"]))
            else:
                body = list(ev["body"])
                cmds.append("wb_update %s" % b)
                exps.append(("update", ev, "%d %s %d %d %s" % (ev["n"], csv(ev["awake"]), sum(1 for x in body if x != 0),
                                                               ev["n"], csv(body))))
    finally:
        cleanup()
    if len(cmds) < 1000:
        raise Machinery("SleepApi dump produced only %d cases" % len(cmds))
    r = drv.run_script(exe, cmds, timeout=900)
    bad = list(exps[:400])
    k = next(i for i, e in enumerate(bad) if e[0] == "wake" and e[1]["ret"] > 0)
    bad[k] = (bad[k][0], bad[k][1], "%d %s" % (bad[k][1]["ret"] - 1, csv(bad[k][1]["after"])))
    ctx.control("api: a perturbed expected return value of mj_wakeIsland is flagged",
                first_mismatch(bad, r.lines[:400]) is not None and first_mismatch(exps[:400], r.lines[:400]) is None
                or first_mismatch(exps[:400], r.lines[:400]) is not None and first_mismatch(bad, r.lines[:400]) is not None)
    for i, (kind, ev, want) in enumerate(exps):
        if kind == "new":
            continue
        got = r.lines[i] if i < len(r.lines) else None
        asleep = sum(1 for x in ev["before"] if x >= 0)
        ctx.case(cmds[i], nontrivial=asleep > 0, sample={"cmd": cmds[i], "spec": want})
        if got == want:
            ctx.trace_ok()
            continue
        if got is None:
            cls, got = "crash", "harness died: " + r.crash_text()
        elif got.startswith("error"):
            cls = "engine-error"
        elif "GUARD" in got:
            cls = "out-of-bounds-write"
        elif kind == "update":
            w, g = want.split(), got.split()
            cls = ("tree_awake-flags" if w[:2] != g[:2] else "body_awake-classification" if w[4:] != g[4:] else "awake-counters")
        elif got.split()[0] != want.split()[0]:
            cls = "return-value"
        else:
            cls = "array-after"
        target = "asleep" if kind != "update" and 0 <= ev.get("i", -1) < len(ev["before"]) and ev["before"][ev["i"]] >= 0 else "awake-or-none"
        ctx.violation("api:%s:%s:%s" % (kind, target, cls),
                      "%s answered %r, SleepApi.tla says %r" % (cmds[i], got, want),
                      {"part": "api", "exe": "real", "script": [cmds[0], cmds[i]], "line": 1, "want": want})
    return len(cmds) - 1


# =====================================================================================================================
# part 2: the phases of one step on the synthetic model (Sleep.tla)
# =====================================================================================================================
CFG_CONST = {      # constants of the configurations, as the harness needs them (kept in step with tla/Sleep_*.cfg)
    # equalities: (x, y, kind) with kind 0 weld/bodies, 1 connect/bodies, 2 weld/sites, 3 connect/sites
    "Sleep_MC": dict(nt=3, eqs=[(0, 1, 2), (1, 2, 1)], never=[], disable=0, m1=True),
    "Sleep_Graph": dict(nt=3, eqs=[(0, 1, 2), (1, 2, 1)], never=[], disable=0, m1=True),
    "Sleep_NoIsl": dict(nt=3, eqs=[(0, 1, 3), (1, -1, 0)], never=[], disable=DSBL_ISLAND, m1=True),
    "Sleep_Real2": dict(nt=2, eqs=[(0, 1, 3)], never=[], disable=0, m1=False),
    "Sleep_Sim": dict(nt=5, eqs=[(1, 2, 2), (0, 1, 1), (3, -2, 3), (2, -1, 2), (4, -4, 0)], never=[3], disable=0, m1=False),
    "Sleep_SimM1": dict(nt=5, eqs=[(1, 2, 2), (0, 1, 1), (3, -2, 3), (2, -1, 2), (4, -4, 0)], never=[3], disable=0, m1=True),
}


def check_cfg_consts(name):
    """the harness-side constants must be the ones TLC used: read them back from the cfg + module"""
    c = CFG_CONST[name]
    txt = open(os.path.join(TLA, name + ".cfg")).read()
    mod = open(os.path.join(TLA, "Sleep.tla")).read()

    def const(k):
        m = re.search(r"^\s*%s\s*(=|<-)\s*(\S+)" % k, txt, re.M)
        if not m:
            raise Machinery("%s.cfg: constant %s not found" % (name, k))
        if m.group(1) == "=":
            return m.group(2)
        d = re.search(r"^%s\s*==\s*(.*)$" % re.escape(m.group(2)), mod, re.M)
        if not d:
            raise Machinery("Sleep.tla: definition %s not found" % m.group(2))
        return d.group(1).strip()
    def val(text):
        for nm, code in (("WeldBody", "0"), ("ConnectBody", "1"), ("WeldSite", "2"), ("ConnectSite", "3")):
            text = text.replace(nm, code)
        text = text.replace("Carried2", "-4").replace("Carried", "-3").replace("Mocap", "-2").replace("World", "-1")
        return tlc.parse_value(text)
    if int(const("NT")) != c["nt"] or (const("MINAWAKE") == "1") != c["m1"]:
        raise Machinery("%s: NT/MINAWAKE differ from checks/c18.py" % name)
    if [tuple(e) for e in val(const("Eqs"))] != c["eqs"] or sorted(val(const("Never"))) != c["never"]:
        raise Machinery("%s: Eqs/Never differ from checks/c18.py" % name)
    if (const("NoIslands") == "TRUE") != bool(c["disable"]):
        raise Machinery("%s: NoIslands differs from checks/c18.py" % name)


def phase_cmd(ev, k, c):
    """harness command and expected answer for one recorded phase (ev of a Sleep.tla state)"""
    nt = c["nt"]
    after = list(ev["after"])
    tail = "%d %s %s" % (ev["ret"], csv(after), csv([1 if x < 0 else 0 for x in after]))
    ph = ev["ph"]
    if ph == "wake":
        how = ev["how"]
        if how == "force":
            how = "qfrc" if k % 2 else "xfrc"
        if how not in ("qpos", "qvel", "qfrc", "xfrc", "none"):
            raise Machinery("unexpected user action %r" % how)
        return "wb_wake %s %s" % (how, csv(sorted(ev["P"]))), tail
    if ph == "collide":
        return "wb_collide %s" % csv("%d:%d" % (x, y) for (x, y) in ev["con"]), tail
    if ph == "weq":
        return "wb_weq %s" % csv(1 if a else 0 for a in ev["act"]), tail
    if ph == "sleep":
        before = list(ev["before"])
        qv = []
        for t in range(nt):
            if before[t] >= 0 or t in c["never"] or t == ev["frc"]:
                qv.append(0)
            elif t in ev["quiet"]:
                qv.append(0.25 if (k + t) % 2 else 0)
            else:
                qv.append(1.0 if (k + t) % 3 else -0.75)
        return ("wb_sleep %s %s %d %d %d" % (csv(qv), csv(ev["isl"]), ev["nisl"], ev["nefc"], ev["frc"]), tail + " z=1")
    raise Machinery("unexpected phase %r" % ph)


def phase_class(ev, want, got, crash_text):
    if got is None:
        return "crash", "harness died: " + crash_text
    if got.startswith("error"):
        return "engine-error", got
    if "GUARD" in got:
        return "out-of-bounds-write", got
    w, g = want.split(), got.split()
    if w[1] != g[1]:
        before, wa, ga = list(ev["before"]), [int(x) for x in w[1].split(",")], [int(x) for x in g[1].split(",")]
        missed = [t for t in range(len(wa)) if before[t] >= 0 and wa[t] < 0 and ga[t] >= 0]
        extra = [t for t in range(len(wa)) if before[t] >= 0 and wa[t] >= 0 and ga[t] < 0]
        nosleep = [t for t in range(len(wa)) if before[t] < 0 and wa[t] >= 0 and ga[t] < 0]
        oversleep = [t for t in range(len(wa)) if before[t] < 0 and wa[t] < 0 and ga[t] >= 0]
        if missed:
            return "tree-not-woken", got
        if extra:
            return "tree-woken-without-cause", got
        if nosleep:
            return "island-not-put-to-sleep", got
        if oversleep:
            return "tree-put-to-sleep-early", got
        if any(wa[t] >= 0 and ga[t] >= 0 and wa[t] != ga[t] for t in range(len(wa))):
            return "cycle-links", got
        return "countdown", got
    if w[0] != g[0]:
        return "return-value", got
    if w[2] != g[2]:
        return "tree_awake-flags", got
    return "velocity-not-zeroed", got


def replay_states(ctx, exes, name, evs, label):
    """independent replay of recorded phases: set the array, run the phase, compare"""
    c = CFG_CONST[name]
    exe = exes["m1" if c["m1"] else "real"]
    cmds = ["wb_new %d %s %s %d" % (c["nt"], csv(c["never"]), csv("%d:%d:%d" % e for e in c["eqs"]), c["disable"])]
    exps = [("new", None, "ok")]
    for k, ev in enumerate(evs):
        cmd, want = phase_cmd(ev, k, c)
        cmds.append("wb_set %s" % csv(ev["before"]))
        exps.append(("set", None, "ok"))
        cmds.append(cmd)
        exps.append((ev["ph"], ev, want))
    if name in ("Sleep_MC", "Sleep_Real2"):
        # vacuity: a SITE-defined equality across two trees, active, one tree asleep and the other awake, wakes the sleeper
        ok = False
        for ev in evs:
            if ev["ph"] == "weq" and ev["ret"] > 0:
                for k2, e in enumerate(ev["eqs"]):
                    x, y, kd = e
                    if ev["act"][k2] and kd in (2, 3) and 0 <= x < c["nt"] and 0 <= y < c["nt"] \
                            and (ev["before"][x] >= 0) != (ev["before"][y] >= 0):
                        ok = True
        if not ok:
            raise Machinery("%s: vacuity: no wake-up through a site-defined equality between a sleeping and an awake tree" % name)
    r = drv.run_script(exe, cmds, timeout=1500)
    nbad = 0
    for i, (kind, ev, want) in enumerate(exps):
        got = r.lines[i] if i < len(r.lines) else None
        if kind in ("new", "set"):
            if got != want and got is not None:
                raise Machinery("%s: harness answered %r to %r" % (label, got, cmds[i]))
            continue
        changed = list(ev["before"]) != list(ev["after"])
        ctx.case((name, cmds[i - 1], cmds[i]), nontrivial=changed or any(x >= 0 for x in ev["before"]),
                 sample={"cfg": name, "set": cmds[i - 1], "cmd": cmds[i], "spec": want})
        if got == want:
            ctx.trace_ok()
            continue
        nbad += 1
        cls, got = phase_class(ev, want, got, r.crash_text())
        ctx.violation("phase:%s:%s" % (kind, cls),
                      "%s [%s] after %s: %s answered %r, Sleep.tla says %r" % (label, name, cmds[i - 1], cmds[i], got, want),
                      {"part": "phase", "exe": "m1" if c["m1"] else "real", "script": [cmds[0], cmds[i - 1], cmds[i]],
                       "line": 2, "want": want})
        if got.startswith("harness died"):
            break
    return exps, r


def replay_behaviours(ctx, exes, name, behs, label):
    """behaviours (lists of ev records, one per phase, in order) replayed on ONE persistent synthetic mjData each:
    the array is set once, afterwards only the phase functions touch it"""
    c = CFG_CONST[name]
    exe = exes["m1" if c["m1"] else "real"]
    head = "wb_new %d %s %s %d" % (c["nt"], csv(c["never"]), csv("%d:%d:%d" % e for e in c["eqs"]), c["disable"])
    cmds, exps, index = [], [], []
    for bi, beh in enumerate(behs):
        start = len(cmds)
        cmds += [head, "wb_set %s" % csv(beh[0]["before"])]
        exps += [("new", None, "ok"), ("set", None, "ok")]
        for k, ev in enumerate(beh):
            cmd, want = phase_cmd(ev, k + bi, c)
            cmds.append(cmd)
            exps.append((ev["ph"], ev, want))
        index.append((start, len(cmds) - start))
    r = drv.run_script(exe, cmds, timeout=1500)
    for (off, ln), beh in zip(index, behs):
        key = [cmds[off + 1]] + cmds[off + 2:off + ln]
        sleeps = sum(1 for ev in beh if ev["ph"] == "sleep" and ev["ret"] > 0)
        wakes = sum(1 for ev in beh if ev["ph"] != "sleep" and ev["ret"] > 0)
        ctx.case((name, key), nontrivial=sleeps + wakes > 0, sample={"cfg": name, "script": key[:8]})
        bad = None
        for i in range(off, off + ln):
            got = r.lines[i] if i < len(r.lines) else None
            if got != exps[i][2]:
                bad = (i, got)
                break
        if bad is None:
            ctx.trace_ok()
            continue
        i, got = bad
        kind, ev, want = exps[i]
        if kind in ("new", "set"):
            raise Machinery("%s: harness answered %r to %r" % (label, got, cmds[i]))
        cls, got = phase_class(ev, want, got, r.crash_text())
        ctx.violation("phase:%s:%s" % (kind, cls),
                      "%s [%s] behaviour %s: %s answered %r, Sleep.tla says %r" % (label, name, key[:i - off][-6:], cmds[i], got, want),
                      {"part": "phase", "exe": "m1" if c["m1"] else "real", "script": cmds[off:i + 1], "line": i - off, "want": want})
        if got.startswith("harness died"):
            break
    return exps, r


PHASES = ("wake", "collide", "weq", "sleep")


def dump_evs(ctx, name, label, need=("Env", "Wake", "Collide", "WakeEq", "SleepAny"), timeout=1500, jopt=JOPT):
    check_cfg_consts(name)
    # with a VIEW TLC keeps the first representative it meets of every view class: one worker makes that choice
    # (hence the set of replayed cases) the same in every run
    view = "VIEW" in open(os.path.join(TLA, name + ".cfg")).read()
    res, states, cleanup = tladump.run_dump(os.path.join(TLA, "Sleep.tla"), os.path.join(TLA, name + ".cfg"),
                                            timeout=timeout, coverage=True, only={"ev"}, java_opts=jopt,
                                            workers=1 if view else 16,
                                            select=lambda blk: {"ev"} if 'ph |-> "env"' not in blk and 'ph |-> "init"' not in blk else None)
    try:
        ctx.tlc_ok(res, label, need_actions=need)
        evs = [st["ev"] for st in states()]
    finally:
        cleanup()
    # TLC's workers write the dump in any order: sort by content so that the run is the same every time
    evs.sort(key=lambda e: json.dumps(tlc.to_py(e), sort_keys=True))
    if len(evs) < 100:
        raise Machinery("%s: only %d phase records dumped" % (label, len(evs)))
    return res, evs


def sim_behaviours(ctx, name, label, num, depth, seed):
    check_cfg_consts(name)
    res, sims = tladump.simulate(os.path.join(TLA, "Sleep.tla"), os.path.join(TLA, name + ".cfg"), num=num, depth=depth,
                                 seed=seed, timeout=1500, only={"ev"}, java_opts=JOPT)
    ctx.tlc_ok(res, label)
    behs = []
    for b in sims:
        evs = [st["ev"] for (_a, st) in b if st["ev"]["ph"] in PHASES]
        # cut at a phase boundary so that every behaviour is a whole number of steps
        while evs and evs[-1]["ph"] != "sleep":
            evs.pop()
        if evs:
            behs.append(evs)
    if len(behs) < num // 2:
        raise Machinery("%s produced %d behaviours" % (label, len(behs)))
    return behs


# =====================================================================================================================
# part 3: real simulations -> SleepTrace.tla
# =====================================================================================================================
class Scn:
    """one scenario: model text, bookkeeping of trees, and a per-step perturbation plan"""

    def __init__(self, name, opt=""):
        self.name = name
        self.lines = ["option timestep=0.005 enableflags=%d sleep_tolerance=0.05 %s" % (SLEEP, opt),
                      "geom name=floor type=0 size=8,8,0.1"]
        self.nbody = 1
        self.trees = []          # dicts: body, qadr, dadr, nq, nv, kind
        self.nq = self.nv = 0
        self.mocap = []          # body ids of mocap bodies
        self.neq = 0
        self.plan = {}           # step -> list of commands
        self.never = []
        self.noisl = 0
        self.tail = []

    def free(self, name, pos, geom, extra=""):
        self.lines.append("body name=%s pos=%s %s" % (name, csv(pos), extra))
        self.lines.append("joint body=%s type=0" % name)
        self.lines.append("geom body=%s %s" % (name, geom))
        self.trees.append(dict(body=self.nbody, qadr=self.nq, dadr=self.nv, nq=7, nv=6, kind="free"))
        self.nbody += 1
        self.nq += 7
        self.nv += 6
        return len(self.trees) - 1

    def at(self, step, cmd):
        self.plan.setdefault(step, []).append(cmd)

    # ---- perturbations on data slot 0 (the twin is re-copied from it before every step)
    def p_qpos(self, step, t, k=2, delta=0.03):
        self.at(step, "snudge 0 qpos %d %r" % (self.trees[t]["qadr"] + k, delta))

    def p_qvel(self, step, t, k=2, val=0.4):
        self.at(step, "set 0 qvel %d %r" % (self.trees[t]["dadr"] + k, val))

    def p_xfrc(self, step, t, dur, k=2, val=3.0):
        self.at(step, "set 0 xfrc_applied %d %r" % (6 * self.trees[t]["body"] + k, val))
        self.at(step + dur, "set 0 xfrc_applied %d 0" % (6 * self.trees[t]["body"] + k))

    def p_qfrc(self, step, t, dur, k=0, val=2.0):
        self.at(step, "set 0 qfrc_applied %d %r" % (self.trees[t]["dadr"] + k, val))
        self.at(step + dur, "set 0 qfrc_applied %d 0" % (self.trees[t]["dadr"] + k))


BOX = "type=6 size=0.1,0.1,0.1"
SPH = "type=2 size=0.1"
CAP = "type=3 size=0.06,0.12"


def random_perturbations(s, rng, nsteps, first, every, kinds=("qpos", "qvel", "xfrc", "qfrc")):
    step = first
    while step < nsteps - 5:
        t = rng.randrange(len(s.trees))
        k = rng.choice(kinds)
        if s.trees[t]["kind"] != "free":
            k = "qvel" if k in ("qpos", "xfrc") else k
        if k == "qpos":
            s.p_qpos(step, t, k=rng.choice((0, 1, 2)), delta=rng.choice((0.02, 0.035, -0.0)) or 0.015)
        elif k == "qvel":
            s.p_qvel(step, t, k=rng.choice((0, 1, 2)) if s.trees[t]["kind"] == "free" else 0, val=rng.choice((0.3, -0.25, 0.5, 1e-7)))
        elif k == "xfrc":
            s.p_xfrc(step, t, dur=rng.choice((1, 3, 12)), k=rng.choice((0, 2, 4)), val=rng.choice((2.0, -1.5, 1e-9)))
        else:
            s.p_qfrc(step, t, dur=rng.choice((1, 4)), k=rng.choice((0, 1, 2)) if s.trees[t]["kind"] == "free" else 0,
                     val=rng.choice((1.5, -2.0)))
        step += rng.randrange(every // 2, every + every // 2 + 1)


def control_scenario():
    """fixed (seed-independent) scenario the negative controls are cut from: four separate boxes fall asleep one by
    one; at step 45 the user lifts the sleeping tree 1 (nothing else can wake it), at step 60 pushes tree 2"""
    s = Scn("control")
    for i in range(4):
        s.free("c%d" % i, (i * 0.7, 0, 0.101), BOX)
    s.p_qpos(45, 1, k=2, delta=0.03)
    s.p_qvel(60, 2, k=0, val=0.4)
    return s, 80


def scenarios(seed, quick):
    """list of (Scn, nsteps); the first one is the fixed control scenario"""
    out = [control_scenario()]
    reps = 1 if quick else 3
    for rep in range(reps):
        rng = random.Random(seed * 1000 + rep)
        jit = lambda: rng.choice((0.0, 0.003, -0.004, 0.0015))
        n1 = 300 if quick else 600
        # 1. separate bodies of three shapes: every tree sleeps alone
        s = Scn("singles")
        for i, g in enumerate((BOX, SPH, CAP, BOX)):
            s.free("b%d" % i, (i * 0.6 + jit(), jit(), 0.101 if g != CAP else 0.181), g)
        random_perturbations(s, rng, n1, 60, 45)
        out.append((s, n1))
        # 2. stack of three boxes and a separate sphere: the island sleeps and wakes as a whole
        s = Scn("stack")
        for i in range(3):
            s.free("b%d" % i, (jit(), jit(), 0.101 + 0.201 * i), BOX)
        s.free("s", (0.8, 0, 0.101), SPH)
        random_perturbations(s, rng, n1, 80, 60)
        out.append((s, n1))
        # 3. equalities of both kinds and both definitions: weld between SITES of a and b, switched on at run time
        #    (while a sleeps and b has just been pushed awake) and off again; connect between the BODIES c and d, active
        #    from the start and switched off / on later
        s = Scn("weld")
        s.free("a", (0, 0, 0.101), BOX)
        s.free("b", (0.5, 0, 0.101), BOX)
        s.free("c", (0, 0.7, 0.101), SPH)
        s.free("d", (0.9, 0.9, 0.181), CAP)
        s.lines.append("site body=a name=sa pos=0,0,0.05")
        s.lines.append("site body=b name=sb pos=0,0,0.05")
        s.lines.append("equality name=w type=%d objtype=6 name1=sa name2=sb active=%d" % (1 if rep % 2 == 0 else 0, 0))
        s.lines.append("equality name=cd type=%d objtype=1 name1=c name2=d active=1 data=0,0,0,0,0,0,0,0,0,0,1" % (0 if rep % 2 == 0 else 1))
        s.neq = 2
        for k, st in enumerate(range(70, n1 - 10, 75)):
            if k % 2 == 0:
                s.p_qvel(st - 1, 1, k=0, val=0.3)            # b is awake when the equality comes on, a still asleep
            s.at(st, "set 0 eq_active 0 %d" % ((k + 1) % 2))
            s.at(st + 30, "set 0 eq_active 1 %d" % (k % 2))
        out.append((s, n1))
        # 3b. islands disabled, no gravity, no contacts (so trees can sleep at all): a connect between SITES of a and b is
        #     switched on while a sleeps and b drifts
        s = Scn("noisland-eq", opt="gravity=0,0,0 disableflags=%d" % DSBL_ISLAND)
        s.noisl = 1
        for i, g in enumerate((BOX, SPH, BOX, CAP)):
            s.free("f%d" % i, (i * 0.8, 0, 1.0), g)
        s.lines.append("site body=f0 name=s0 pos=0.05,0,0")
        s.lines.append("site body=f1 name=s1 pos=-0.05,0,0")
        s.lines.append("equality name=c01 type=%d objtype=6 name1=s0 name2=s1 active=0" % (0 if rep % 2 == 0 else 1))
        s.neq = 1
        s.p_qvel(40, 1, k=1, val=0.2)
        s.at(41, "set 0 eq_active 0 1")
        s.at(90, "set 0 eq_active 0 0")
        s.p_qpos(120, 2, k=2, delta=0.02)
        out.append((s, 150))
        # 4. mocap body pushed onto a sleeping box and away again, plus an equality to the mocap body
        s = Scn("mocap")
        s.free("a", (0, 0, 0.101), BOX)
        s.free("b", (0.6, 0, 0.101), BOX)
        s.free("c", (1.2, 0, 0.101), SPH)
        s.free("d", (0, 0.9, 0.101), BOX)
        s.lines.append("body name=m pos=0,0,1.5 mocap=1")
        s.lines.append("geom body=m type=2 size=0.1")
        s.mocap.append(s.nbody)
        s.nbody += 1
        s.lines.append("equality name=wm type=0 objtype=1 name1=c name2=m active=0 data=0,0,0.3")
        s.neq = 1
        z = 0
        for st in range(60, n1 - 10, 50):
            z += 1
            if z % 4 == 1:
                s.at(st, "setv 0 mocap_pos %r,0,0.28" % (0.0 if z % 8 == 1 else 0.6))       # touches a box from above
            elif z % 4 == 2:
                s.at(st, "setv 0 mocap_pos 0,0,1.5")
            elif z % 4 == 3:
                s.at(st, "set 0 eq_active 0 1")
            else:
                s.at(st, "set 0 eq_active 0 0")
        out.append((s, n1))
        # 4b. the geoms sit on a jointless CHILD and GRANDCHILD of the mocap body (bodies carried by a mocap body count
        #     as awake): moved while everything is awake (twin comparison), then onto sleeping boxes, then welded
        s = Scn("mocapchild")
        s.free("a", (0, 0, 0.101), BOX)
        s.free("b", (0.6, 0, 0.101), BOX)
        s.free("c", (1.2, 0, 0.101), SPH)
        s.free("d", (0, 0.9, 0.101), BOX)
        s.lines.append("body name=m pos=0,0,1.5 mocap=1")
        s.lines.append("body name=pad parent=m pos=0,0,-0.3")
        s.lines.append("geom body=pad type=6 size=0.1,0.1,0.1")
        s.lines.append("body name=tip parent=pad pos=0,0.4,0")
        s.lines.append("geom body=tip type=2 size=0.1")
        s.mocap.append(s.nbody)
        s.nbody += 3
        s.lines.append("equality name=wc type=0 objtype=1 name1=c name2=pad active=0 data=0,0,0.3")
        s.neq = 1
        s.at(3, "setv 0 mocap_pos 0.05,%r,1.45" % jit())
        s.at(7, "setv 0 mocap_pos 0,0,1.5")
        k0 = 60 + 10 * rep
        s.at(k0, "setv 0 mocap_pos 0,0,0.58")                 # the child's box comes down on sleeping box a
        s.at(k0 + 40, "setv 0 mocap_pos 0,0,1.5")
        s.at(k0 + 90, "setv 0 mocap_pos 0.6,-0.4,0.58")       # the grandchild's sphere comes down on sleeping box b
        s.at(k0 + 130, "setv 0 mocap_pos 0,0,1.5")
        s.at(k0 + 170, "set 0 eq_active 0 1")                 # sleeping sphere c connected to the carried child body
        s.at(k0 + 210, "set 0 eq_active 0 0")
        out.append((s, n1))
        # 5. a sphere shot into a sleeping box: wake on touch
        s = Scn("impact")
        s.free("a", (0, 0, 0.101), BOX)
        s.free("b", (0.21, 0, 0.101), BOX)
        s.free("p", (-0.8, 0, 0.101), SPH)
        s.free("q", (0, 1.0, 0.101), CAP)
        for st in range(70, n1 - 10, 110):
            s.p_qvel(st, 2, k=0, val=2.5)
            s.at(st + 55, "setv 0 qpos %s" % csv([0, 0, 0.101, 1, 0, 0, 0, 0.21, 0, 0.101, 1, 0, 0, 0, -0.8, 0, 0.101, 1, 0, 0, 0]))
            s.at(st + 55, "setv 0 qvel %s" % csv([0] * 18))
        out.append((s, n1))
        # 6. policy "never" inside a stack: the island must not sleep; a separate body does
        s = Scn("never")
        s.free("a", (0, 0, 0.101), BOX)
        s.free("b", (0, 0, 0.302), BOX, extra="sleep=3")
        s.free("c", (0.7, 0, 0.101), SPH)
        s.free("d", (0, 0.8, 0.101), BOX)
        s.never = [1]
        random_perturbations(s, rng, n1, 90, 80)
        out.append((s, n1))
        # 7. trees initialised asleep (policy init), one of them floating; woken by perturbation / impact
        s = Scn("init")
        s.free("a", (0, 0, 0.101), BOX, extra="sleep=5")
        s.free("b", (0, 0, 0.302), BOX, extra="sleep=5")
        s.free("c", (0.9, 0, 0.6), SPH, extra="sleep=5")
        s.free("d", (-0.9, 0, 0.101), SPH)
        random_perturbations(s, rng, n1, 30, 70)
        out.append((s, n1))
        # 8. islands disabled: with constraints present nothing may sleep
        s = Scn("noisland", opt="disableflags=%d" % DSBL_ISLAND)
        s.noisl = 1
        s.free("a", (0, 0, 0.101), BOX)
        s.free("b", (0.6, 0, 0.101), SPH)
        s.free("c", (0.6, 0.02, 0.302), BOX)
        s.free("d", (-0.7, 0, 0.5), SPH)
        random_perturbations(s, rng, 200, 60, 50)
        out.append((s, 200))
        # 9. implicitfast integrator, elliptic cone, capsules leaning on each other
        s = Scn("implicitfast", opt="integrator=3 cone=1")
        s.free("a", (0, 0, 0.101), BOX)
        s.free("b", (0.0, 0.02, 0.33), CAP)
        s.free("c", (0.7, 0.1, 0.101), BOX)
        s.free("d", (-0.7, 0.1, 0.101), SPH)
        random_perturbations(s, rng, n1, 90, 70)
        out.append((s, n1))
        # 10. everything is woken at once from time to time: all trees awake again after a history of sleeping
        #     (the sleep-disabled twin must then agree bit for bit)
        s = Scn("wakeall")
        for i, g in enumerate((BOX, SPH, BOX, CAP)):
            s.free("b%d" % i, (i * 0.5, jit(), 0.101 if g != CAP else 0.181), g)
        for st in range(50, n1 - 10, 70):
            for t in range(4):
                if (st // 70 + t) % 2:
                    s.p_qvel(st, t, k=rng.choice((0, 1, 2)), val=0.35)
                else:
                    s.p_qpos(st, t, k=2, delta=0.02)
        out.append((s, n1))
        if not quick:
            # 11. two stacks of three and a free runner: 7 trees
            s = Scn("twostacks")
            for k, x in enumerate((0.0, 1.0)):
                for i in range(3):
                    s.free("s%d_%d" % (k, i), (x + jit(), jit(), 0.101 + 0.201 * i), BOX if (i + k) % 2 == 0 else "type=6 size=0.09,0.11,0.1")
            s.free("r", (0.5, 0.8, 0.101), SPH)
            random_perturbations(s, rng, n1, 80, 50)
            out.append((s, n1))
    return out


def scenario_cmds(s, nsteps):
    cmds = ["model 0"] + s.lines + s.tail + ["end", "data 0 0", "copymodel 1 0", "optset 1 enableflags 0", "data 1 1", "sforget 0"]
    cmds += ["echo MARK", "streeinfo 0", "get 0 tree_asleep"]
    for k in range(nsteps):
        cmds += s.plan.get(k, [])
        cmds.append("sstep 0 1")
    cmds.append("echo ENDMARK")
    return cmds


def run_scenarios(ctx, exe, scs):
    """run the scenarios (one harness process as long as it survives); returns list of (Scn, header, [step records], error|None)"""
    out = []
    todo = list(scs)
    while todo:
        cmds = []
        for s, nsteps in todo:
            cmds += scenario_cmds(s, nsteps)
        r = drv.run_script(exe, cmds, timeout=1500)
        L = r.lines
        i, done = 0, 0
        for (s, nsteps) in todo:
            hdr, steps, err = {"ta0": [], "never": s.never, "noisl": s.noisl}, [], None
            complete = False
            # set-up answers up to the mark
            while i < len(L) and L[i] != "echo MARK" and L[i] != "echo ENDMARK":
                if L[i].startswith("error") and err is None:
                    err = "model/data construction: " + L[i]
                elif L[i].startswith("MKMODEL") or L[i].startswith("?"):
                    if err is None:
                        raise Machinery("scenario %s: harness said %r" % (s.name, L[i]))
                i += 1
            if i < len(L) and L[i] == "echo MARK" and err is None and i + 2 < len(L):
                info = L[i + 1].split()
                hdr["ta0"] = [int(float(x)) for x in L[i + 2].split()[1:]]
                if int(info[0]) != len(s.trees):
                    raise Machinery("scenario %s: %s trees, expected %d" % (s.name, info[0], len(s.trees)))
                for t, f in zip(s.trees, info[1:]):
                    b, nb, da, nd, qa, nq, pol = [int(x) for x in f.split(":")]
                    if (b, da, qa) != (t["body"], t["dadr"], t["qadr"]):
                        raise Machinery("scenario %s: tree layout %s differs from the generator's %r" % (s.name, f, t))
                i += 3
            while i < len(L) and L[i] != "echo ENDMARK":
                ln = L[i]
                i += 1
                if err is not None or ln == "ok" or ln == "echo MARK":
                    continue
                if not ln.startswith("{"):
                    if ln.startswith("error") or ln.startswith("MKMODEL"):
                        err = "harness: " + ln
                        continue
                    raise Machinery("scenario %s: unexpected harness output %r" % (s.name, ln[:200]))
                rec = json.loads(ln)
                if "error" in rec:
                    err = rec["error"]
                    continue
                steps.append(rec)
            if i < len(L) and L[i] == "echo ENDMARK":
                complete = True
                i += 1
            if not complete and err is None:
                err = "harness died: " + r.crash_text()
            out.append((s, hdr, steps, err))
            done += 1
            if not complete:
                break
        todo = todo[done:]
    return out


STEP_KEYS = ("pq", "nzv0", "forced", "slow", "con", "contw", "eqs", "ta", "isl", "moved", "nzv", "twin")


def trace_of(hdr, steps):
    return {"hdr": hdr, "steps": [{k: st[k] for k in STEP_KEYS} for st in steps]}


def write_trace_cfg(nt, tag):
    txt = open(os.path.join(TLA, "SleepTrace.cfg")).read()
    txt, n = re.subn(r"NT = \d+", "NT = %d" % nt, txt)
    if n != 1:
        raise Machinery("SleepTrace.cfg: NT line not found")
    # TLC looks the cfg's modules up next to the spec: keep the generated cfg in tla/-relative scratch
    d = os.path.join(VERIF, ".cache", "c18-%d" % os.getpid())
    return tlc.cfg_write(os.path.join(d, "SleepTrace_%s_N%d.cfg" % (tag, nt)), txt)


def validate(ctx, traces_by_nt, tag, record=True, timeout=1500):
    """traces_by_nt: {nt: [(key, trace)]}; returns {key: (reached, length, why)}"""
    verdict = {}
    for nt in sorted(traces_by_nt):
        items = traces_by_nt[nt]
        cfg = write_trace_cfg(nt, tag)
        res, v = tlc.validate_traces(os.path.join(TLA, "SleepTrace.tla"), cfg, [t for (_k, t) in items], timeout=timeout)
        if res.error and "Postcondition Report" in res.error and len(v) == len(items):
            res.error = None                 # rejected traces are reported through the verdicts
            res.finished = True
        if res.error:
            raise Machinery("SleepTrace run failed: %s\n%s" % (res.error, res.out[-2000:]))
        if record:
            ctx.tlc_ok(res, "SleepTrace(%s,NT=%d)" % (tag, nt))
        why = {}
        # TLC wraps long values over several lines: the pattern must not depend on the layout
        for m in re.finditer(r'<<\s*"WHY",\s*(\d+),\s*\{([^}]*)\}\s*>>', res.out, re.S):
            why[int(m.group(1))] = sorted(x.strip().strip('"') for x in m.group(2).split(",") if x.strip())
        if len(v) != len(items):
            raise Machinery("SleepTrace printed %d verdicts for %d traces\n%s" % (len(v), len(items), res.out[-2000:]))
        for k, (key, _t) in enumerate(items):
            reached, ln = v[k + 1]
            verdict[key] = (reached, ln, why.get(k + 1, []))
    return verdict


def runs_have_errors(runs):
    return any(err is not None for (_s, _h, _st, err) in runs)


def cycle_of(ta, t):
    out, cur = set(), t
    while cur not in out and 0 <= cur < len(ta) and ta[cur] >= 0:
        out.add(cur)
        cur = ta[cur]
    return out


ERR_CLASSES = (("contact between sleeping", "contact-between-sleeping-bodies"),
               ("found sleeping tree", "sleeping-tree-in-island"),
               ("trying to sleep tree", "sleep-of-unready-tree"),
               ("is not in a cycle", "cycle-broken"),
               ("invalid sleep state", "cycle-broken"),
               ("invalid tree", "invalid-tree"),
               ("involves sleeping geom", "contact-with-sleeping-geom"),
               ("could be slept", "init-policy-tree-not-slept"),
               ("model/data construction", "construction"),
               ("harness died", "crash"))


def part_traces(ctx, exe):
    scs = scenarios(ctx.seed, ctx.quick)
    runs = run_scenarios(ctx, exe, scs)
    by_nt, keyed = {}, {}
    for k, (s, hdr, steps, err) in enumerate(runs):
        if err is not None:
            cls = next((c for (pat, c) in ERR_CLASSES if pat in err), "other")
            ctx.violation("trace:engine-error:%s" % cls,
                          "scenario %s: mj_step raised %r at step %d" % (s.name, err, len(steps)),
                          {"part": "trace", "scenario": s.name, "seed": ctx.seed, "quick": ctx.quick, "steps": len(steps) + 1})
        if not steps:
            continue
        by_nt.setdefault(len(s.trees), []).append((k, trace_of(hdr, steps)))
        keyed[k] = (s, hdr, steps)
    if not keyed:
        return 0, 0
    # vacuity: a site-defined equality across two trees switched on while exactly one of them sleeps (islands on and off)
    seen = {0: 0, 1: 0}
    for k, (s, hdr, steps) in keyed.items():
        for j in range(1, len(steps)):
            for e0, e1 in zip(steps[j - 1]["eqs"], steps[j]["eqs"]):
                x, y, act, kd = e1
                if kd in (2, 3) and act == 1 and e0[2] == 0 and x >= 0 and y >= 0 and x != y \
                        and (steps[j - 1]["ta"][x] >= 0) != (steps[j - 1]["ta"][y] >= 0):
                    seen[s.noisl] += 1
    if not runs_have_errors(runs) and (seen[0] == 0 or seen[1] == 0):
        raise Machinery("vacuity: no site-defined equality was switched on between a sleeping and an awake tree (%r)" % seen)
    # ---- negative controls: corrupted copies of a recorded trace (each cut right after the corrupted step)
    ctl = []

    def add_ctl(name, clause, make):
        for ck, (cs, chdr, csteps) in sorted(keyed.items()):
            if cs.name != "control":
                continue
            got = make(csteps)
            if got is not None:
                i, steps2 = got
                ctl.append((name, clause, ck, i))
                by_nt.setdefault(len(cs.trees), []).append((name, trace_of(chdr, steps2[:i + 1])))
                return
    def mk_a(st):          # (a) a sleeping tree recorded as awake
        i = next((j for j, x in enumerate(st) if any(v >= 0 for v in x["ta"])), None)
        if i is None:
            return None
        a = json.loads(json.dumps(st))
        t = next(t for t, v in enumerate(a[i]["ta"]) if v >= 0)
        for u in range(len(a[i]["ta"])):          # wake its whole cycle in the record: still a closed array
            if u != t and a[i]["ta"][u] >= 0 and u in cycle_of(st[i]["ta"], t):
                a[i]["ta"][u] = -11
        a[i]["ta"][t] = -11
        return i, a
    def mk_b(st):          # (b) the record of a user's qpos change removed: the wake-up is unexplained
        i = next((j for j, x in enumerate(st) if j > 0 and any(st[j - 1]["ta"][t] >= 0 for t in x["pq"])
                  and not x["forced"] and not x["nzv0"]), None)
        if i is None:
            return None
        b = json.loads(json.dumps(st))
        b[i]["pq"] = []
        return i, b
    def mk_c(st):          # (c) a tree that stays asleep recorded as moved
        i = next((j for j, x in enumerate(st) if j > 0 and any(v >= 0 and st[j - 1]["ta"][t] >= 0 and t not in x["pq"]
                                                               for t, v in enumerate(x["ta"]))), None)
        if i is None:
            return None
        c = json.loads(json.dumps(st))
        t = next(t for t, v in enumerate(c[i]["ta"]) if v >= 0 and st[i - 1]["ta"][t] >= 0 and t not in c[i]["pq"])
        c[i]["moved"] = sorted(set(c[i]["moved"]) | {t})
        return i, c
    add_ctl("ctl-a", "sleep-state", mk_a)
    add_ctl("ctl-b", "sleep-state", mk_b)
    add_ctl("ctl-c", "qpos-changed-while-asleep", mk_c)
    # (d) always available: an all-awake step recorded with a tree asleep in a cycle that is not closed
    k0 = min(keyed)
    d0 = json.loads(json.dumps(keyed[k0][2][:1]))
    d0[0]["ta"] = [1] + [-11] * (len(d0[0]["ta"]) - 1) if len(d0[0]["ta"]) > 1 else [0]
    by_nt.setdefault(len(keyed[k0][0].trees), []).append(("ctl-d", trace_of(keyed[k0][1], d0)))
    verdict = validate(ctx, by_nt, "run")
    ctx.control("trace: a recorded array that is not a set of closed cycles is rejected", verdict["ctl-d"][0] == 0)
    for (name, clause, ck, i) in ctl:
        reached, ln, why = verdict[name]
        if verdict[ck][0] <= i:
            continue                  # the implementation itself is not explained up to that step: control not applicable
        ctx.control("trace: corrupted record %s (%s) is rejected at the corrupted step" % (name, clause),
                    reached == i and clause in why)
    nsteps = 0
    for k, (s, hdr, steps) in sorted(keyed.items()):
        reached, ln, why = verdict[k]
        sleeps = wakes = 0
        prev = hdr["ta0"]
        for st in steps:
            sleeps += sum(1 for t, x in enumerate(st["ta"]) if x >= 0 and prev[t] < 0)
            wakes += sum(1 for t, x in enumerate(st["ta"]) if x < 0 and prev[t] >= 0)
            prev = st["ta"]
        twin = sum(1 for st in steps if st["twin"] == 1)
        ctx.case({"scenario": s.name, "model": s.lines, "plan": sorted(s.plan.items())}, nontrivial=sleeps > 0 and wakes > 0,
                 sample={"scenario": s.name, "steps": ln, "sleep_events": sleeps, "wake_events": wakes, "twin_equal_steps": twin})
        nsteps += reached
        if reached == ln:
            ctx.trace_ok()
            continue
        st = steps[reached]
        ctx.violation("trace:%s:%s" % ("+".join(why) or "unexplained", s.name),
                      "scenario %s: step %d is not a step of SleepTrace.tla (%s): before %s, recorded %s, pq=%s forced=%s con=%s eqs=%s"
                      % (s.name, reached, why, steps[reached - 1]["ta"] if reached else hdr["ta0"], st["ta"], st["pq"],
                         st["forced"], st["con"][:12], st["eqs"]),
                      {"part": "trace", "scenario": s.name, "seed": ctx.seed, "quick": ctx.quick, "steps": reached + 1})
    return len(keyed), nsteps


def harnesses():
    src = os.path.join(H, "sleep_drv.cc")
    flags = tladump.harness_digest_flag()
    real = build.build_harness("sleep_drv", [src], extra=flags)
    m1 = build.build_harness("sleep_drv_m1", [src, (os.path.join(build.REPO, "src", "engine", "engine_sleep.c"),
                                                    ["-include", os.path.join(H, "sleep_minawake.h"), "-DVERIF_MINAWAKE=1"])],
                             extra=flags)
    return {"real": real, "m1": m1}


def run(ctx):
    try:
        run_all(ctx)
    except Machinery as e:
        if not ctx.violations:
            raise
        print("note: machinery failure after violations were found (%s)" % str(e)[:300])


def run_all(ctx):
    exes = harnesses()
    ctx.assume("sleeping is enabled with mjENBL_SLEEP; trees sleep under the automatic policy (plus never / init variants)",
               "white-box replays run the phase functions of engine_sleep.c on a synthetic mjModel/mjData of one-dof trees; "
               "for the MINAWAKE=1 state graphs the unchanged engine_sleep.c is compiled into the driver with mjMINAWAKE=1",
               "real runs: Euler and implicitfast integrators, no flexes, no tendons, contacts without gap",
               "a user's qpos change is one that changes the tree's qpos bits and its body poses",
               "the order in which a sleep cycle visits its island is not compared on real runs (member sets are)")
    import time
    t0 = time.time()
    try:
        napi = part_api(ctx, exes["real"])
        tladump.timing("c18 api", t0)
        # ---- exhaustive design check of the step model + replay of its states
        res, evs = dump_evs(ctx, "Sleep_MC", "Sleep_MC(NT=3,MINAWAKE=1,all histories)")
        exhaustive = bool(res.finished)
        exps, r = replay_states(ctx, exes, "Sleep_MC", evs, "state graph")
        k = next(i for i, e in enumerate(exps) if e[0] == "collide" and e[1]["ret"] > 0)
        ctx.control("phase: a perturbed expected array after mj_wakeCollision is flagged",
                    k < len(r.lines) and r.lines[k] != exps[k][2].replace(" ", " 9", 1))
        nstates = len(evs)
        tladump.timing("c18 mc+replay", t0)
        # the library's own object code (MINAWAKE = 10): every state of the 2-tree model
        res, evs = dump_evs(ctx, "Sleep_Real2", "Sleep_Real2(NT=2,MINAWAKE=10,all histories)")
        replay_states(ctx, exes, "Sleep_Real2", evs, "state graph")
        nstates += len(evs)
        nbeh = 0
        tladump.timing("c18 sim", t0)
        if not ctx.quick:
            res = tlc.run(os.path.join(TLA, "Sleep.tla"), os.path.join(TLA, "Sleep_Deep.cfg"), coverage=True, timeout=2400)
            ctx.tlc_ok(res, "Sleep_Deep(NT=4,MINAWAKE=1,all histories)", need_actions=["Env", "Wake", "Collide", "WakeEq", "SleepAny"])
            for name, label in (("Sleep_Graph", "Sleep_Graph(NT=3,every transition)"),
                                ("Sleep_NoIsl", "Sleep_NoIsl(NT=3,islands disabled)")):
                res, evs = dump_evs(ctx, name, label, timeout=2400, jopt=())
                replay_states(ctx, exes, name, evs, "state graph")
                nstates += len(evs)
            for name, label, sd in (("Sleep_Sim", "Sleep_Sim(NT=5,MINAWAKE=10)", 18), ("Sleep_SimM1", "Sleep_SimM1(NT=5,MINAWAKE=1)", 19)):
                behs = sim_behaviours(ctx, name, label, 60, 81, ctx.seed + sd)
                replay_behaviours(ctx, exes, name, behs, "simulation")
                nbeh += len(behs)
        tladump.timing("c18 thorough extras", t0)
        ntr, nsteps = part_traces(ctx, exes["real"])
        tladump.timing("c18 traces", t0)
        ctx.cov["exhaustive"] = exhaustive
        ctx.cov["rule"] = ("api: every closed-cycle array over %d trees x every argument (%d calls of mj_wakeIsland / mj_sleepCycle / "
                           "mj_updateSleep); phases: %d recorded phases of the exhaustive Sleep.tla state graphs replayed one by one "
                           "(array set, phase function run, array / return value / flags compared) + %d simulated behaviours of 16 "
                           "steps on one persistent synthetic mjData; traces: %d real simulations, %d mj_steps explained by "
                           "SleepTrace.tla; non-trivial = a sleeping tree is involved or the array changes (phases), a scenario with "
                           "both sleep and wake events (traces)" % (4 if ctx.quick else 5, napi, nstates, nbeh, ntr, nsteps))
    finally:
        shutil.rmtree(os.path.join(VERIF, ".cache", "c18-%d" % os.getpid()), ignore_errors=True)


def replay(ctx, rp):
    q = rp["replay"]
    exes = harnesses()
    ctx.case({"replay": rp["signature"]})
    ctx.case({"replay": rp["signature"], "x": 1})
    if q["part"] in ("api", "phase"):
        r = drv.run_script(exes[q["exe"]], q["script"], timeout=300)
        got = r.lines[q["line"]] if q["line"] < len(r.lines) else "<none: %s>" % r.crash_text()
        print("want %s\ngot  %s" % (q["want"], got))
        if got != q["want"]:
            ctx.violation(rp["signature"], rp["what"], q)
        return
    try:
        scs = [x for x in scenarios(q["seed"], q["quick"]) if x[0].name == q["scenario"]]
        runs = run_scenarios(ctx, exes["real"], [(s, min(n, q["steps"])) for (s, n) in scs])
        by_nt = {}
        for k, (s, hdr, steps, err) in enumerate(runs):
            print("scenario %s: %d steps recorded, error %r" % (s.name, len(steps), err))
            if err is not None:
                ctx.violation(rp["signature"], rp["what"], q)
            if steps:
                by_nt.setdefault(len(s.trees), []).append((k, trace_of(hdr, steps)))
        v = validate(ctx, by_nt, "replay", record=False)
        for k in sorted(v):
            print("SleepTrace verdict:", v[k])
            if v[k][0] != v[k][1]:
                ctx.violation(rp["signature"], rp["what"], q)
    finally:
        shutil.rmtree(os.path.join(VERIF, ".cache", "c18-%d" % os.getpid()), ignore_errors=True)
