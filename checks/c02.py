"""C02 - multithreaded stepping is bit-identical to single-threaded (ParallelStep.tla = ThreadPool.tla + tasks).

Design: TLC checks on ParallelStep.tla, for every interleaving, that each task runs exactly once on a pool thread,
that thread-locked stack reservations never overlap and are released at return, and that task outputs are
complete at return.  Binding (code -> spec, full engine): real mj_step / mj_forward / mj_inverse run with an
engine thread pool under the controlled scheduler (unmodified engine_thread.cc interposed; the guarded hook
mjv_verif_stackhook makes every thread-locked stack reservation a yield point) under seeded random schedules;
after every call all results are compared BYTEWISE with the pool-less run, and the recorded event stream
(pool protocol + task start/end + reservations) is validated by ParallelStepTrace.tla.  Free-running OS-thread
pools of size 1..8 on the plain build are compared the same way.
"""
import concurrent.futures as cf
import json
import os
import random
import re
import subprocess

from vlib import build, tlc
from vlib.check import Machinery, VERIF

TLA = os.path.join(VERIF, "tla")

META = dict(
    engine="tlc-sched",
    technique="TLA+ spec ParallelStep.tla (thread-pool protocol + thread-locked stack reservations) model-checked by "
              "TLC; real multithreaded mj_step/mj_forward/mj_inverse under a controlled scheduler compared bytewise with "
              "the single-threaded run and its event trace validated by a TLA+ trace spec; free-running pools compared too",
    text="TLC decides exactly-once task execution, disjoint reservations and complete outputs for all interleavings in "
         "the bounds; seeded schedules of the real engine (yield points: every pool atomic, every task boundary, every "
         "thread-locked stack reservation) must give bit-identical contacts, forces, accelerations, sensors and next "
         "state, and every recorded trace must be a behaviour of the specification.",
    note="The data-race clause is decided by ThreadSanitizer on free-running runs only (outside the TLA+ family: plain "
         "memory accesses are not yield points of the controlled scheduler, whose schedules are explored under sequential "
         "consistency at the listed yield points). Trusted: TLC, "
         "shim/sched, harnesses parstep_drv.cc / parfree_drv.cc, the guarded hook in engine_memory.c.",
    ref="DESIGN.md section 4 C02")


def h_sched():
    V = VERIF
    return build.build_harness(
        "parstep_drv",
        [(V + "/harness/parstep_drv.cc", []),
         (build.REPO + "/src/engine/engine_thread.cc", ["-Dmju_dispatch=mju_dispatch_real"])],
        extra=["-include", V + "/shim/sched/sched_prelude.h"], ldflags=["-rdynamic"])


def h_free():
    return build.build_harness("parfree_drv", [VERIF + "/harness/parfree_drv.cc"])


def h_tsan():
    """the same free-running harness and the whole engine compiled with clang -fsanitize=thread"""
    return build.build_harness("parfree_drv", [VERIF + "/harness/parfree_drv.cc"], variant="tsan")


def tsan_reports(err):
    """ThreadSanitizer stderr -> list of (kind, 'f|g'): the innermost functions of the conflicting access stacks,
    sorted, so that the signature does not depend on which access TSan happened to see second"""
    out = []
    blocks = err.split("WARNING: ThreadSanitizer: ")[1:]
    for b in blocks:
        kind = b.split("(pid", 1)[0].strip()
        fns, grab = [], False
        for l in b.splitlines():
            t = l.strip()
            if (t.startswith(("Read of", "Write of", "Previous read", "Previous write", "Atomic read", "Atomic write",
                              "Previous atomic"))):
                grab = True
            elif grab and t.startswith("#0 "):
                fns.append(t.split()[1])
                grab = False
        out.append((kind, "|".join(sorted(set(fns))) or "?"))
    return out


def models(rng):
    """model pool: lines of the mkmodel language + per-model state perturbations"""
    out = []
    floor = ["geom name=floor type=0 size=10,10,0.1"]
    # 1. several separate boxes on the floor: one island each
    for n in (3, 6):
        m = ["option timestep=0.01"] + floor
        for k in range(n):
            m += ["body name=b%d pos=%g,0,0.45" % (k, 1.2 * k), "joint body=b%d type=0" % k,
                  "geom body=b%d name=g%d type=6 size=0.2,0.2,0.5" % (k, k)]
        out.append(("boxes%d" % n, m, []))
    # 2. two stacks and a sphere cluster: large islands, many pairs
    m = ["option timestep=0.005"] + floor
    for s in range(2):
        for k in range(3):
            m += ["body name=s%d_%d pos=%g,0,%g" % (s, k, 3.0 * s, 0.2 + 0.41 * k), "joint body=s%d_%d type=0" % (s, k),
                  "geom body=s%d_%d type=6 size=0.3,0.3,0.2" % (s, k)]
    out.append(("stacks", m, []))
    m = ["option timestep=0.005"] + floor
    k = 0
    for i in range(3):
        for j in range(3):
            for l in range(2):
                m += ["body name=c%d pos=%g,%g,%g" % (k, 0.38 * i, 0.38 * j, 0.2 + 0.38 * l), "joint body=c%d type=0" % k,
                      "geom body=c%d type=2 size=0.2" % k]
                k += 1
    out.append(("cluster", m, []))
    # 3. articulated: hinge chains with limits, an equality and actuators + sensors, next to free bodies
    m = ["option timestep=0.005"] + floor
    for c in range(3):
        m += ["body name=a%d pos=%g,2,1.5" % (c, 1.5 * c), "joint body=a%d name=ja%d type=3 axis=0,1,0 limited=1 range=-0.3,0.3" % (c, c),
              "geom body=a%d type=3 size=0.05,0.3 pos=0,0,-0.3" % c,
              "body name=aa%d parent=a%d pos=0,0,-0.6" % (c, c), "joint body=aa%d name=jb%d type=3 axis=0,1,0 limited=1 range=-0.5,0.5 frictionloss=0.1" % (c, c),
              "geom body=aa%d type=3 size=0.05,0.3 pos=0,0,-0.3" % c,
              "actuator name=act%d trntype=0 target=ja%d gainprm=1" % (c, c),
              "sensor name=sj%d type=9 objtype=3 objname=ja%d" % (c, c)]
    m += ["equality name=e0 type=2 objtype=3 name1=jb0 name2=jb1 data=0,1,0,0,0"]
    for k in range(2):
        m += ["body name=f%d pos=%g,-1,0.21" % (k, 0.9 * k), "joint body=f%d type=0" % k, "geom body=f%d type=2 size=0.2" % k]
    out.append(("arms", m, [("qvel", "0.5,-0.4,0.3,0.2,-0.6,0.1"), ("ctrl", "0.3,-0.2,0.1")]))
    # 4. penetrating ellipsoid pairs (general convex collider with per-thread scratch buffers); npairs chosen so that the
    #    narrow phase has at least 2 chunks but fewer chunks than pool threads for some pool sizes
    for npair in (20, 40):
        m = ["option timestep=0.002 gravity=0,0,0"]
        for k in range(npair):
            x, y = 3.0 * (k % 8), 3.0 * (k // 8)
            m += ["body name=ea%d pos=%g,%g,1" % (k, x, y), "joint body=ea%d type=0" % k,
                  "geom body=ea%d type=4 size=0.4,0.3,0.2" % k,
                  "body name=eb%d pos=%g,%g,1.25" % (k, x + 0.1, y), "joint body=eb%d type=0" % k,
                  "geom body=eb%d type=4 size=0.3,0.4,0.2" % k]
        out.append(("ellipsoids%d" % npair, m, []))
    # 5. tactile sensor: 37 x 29 = 1073 taxels (>= 1000, so the taxels are evaluated by pool tasks; no pool size 1..9
    #    divides 1073), all of them inside a large indenter so that every taxel, the last ones included, reads non-zero
    m = ["option timestep=0.002 gravity=0,0,0", "mesh name=padm plate=37,29 scale=0.5,0.5,0.5",
         "body name=pad pos=0,0,1", "geom body=pad name=padg type=2 size=0.8",
         "body name=ball pos=0,0,3.9", "joint body=ball type=0", "geom body=ball name=ballg type=2 size=3",
         "sensor name=tac type=46 objtype=10 objname=padm reftype=5 refname=padg"]
    out.append(("tactile", m, []))
    return out


def to_trace(evs):
    """scheduler log -> ParallelStepTrace events (reservation offsets relative to the first one of the dispatch)"""
    out = []
    base = None
    for e in evs:
        op = e["op"]
        if op == "cmp":
            continue
        if op == "api":
            base = None
        if op == "salloc":
            if base is None:
                base = e["val"]
            out.append({"t": e["t"], "op": op, "obj": e["obj"], "val": e["val"] - base, "sz": e["sz"]})
        else:
            out.append({"t": e["t"], "op": op, "obj": e["obj"], "val": e["val"]})
    return out


def run(ctx):
    exe = h_sched()
    exef = h_free()
    ctx.assume("yield points: every std::atomic/std::thread operation of the pool, task entry/exit, every thread-locked "
               "stack reservation; sequential consistency; plain memory accesses inside tasks are not interleaved",
               "model pool generated by the check (islands, stacks, sphere cluster, articulated chains with limits, "
               "friction loss, equality, actuators, sensors) x solver x cone x pool size x mode")
    spec = os.path.join(TLA, "ParallelStep.tla")
    res = tlc.run(spec, os.path.join(TLA, "ParallelStep_MC.cfg"), coverage=True, timeout=1500)
    ctx.tlc_ok(res, "ParallelStep_MC", need_actions=["SAlloc", "PoolStep"])
    r = tlc.run(spec, os.path.join(TLA, "ParallelStep_BugSpin.cfg"), timeout=600)
    ctx.cov["tlc_runs"].append({"name": "ParallelStep_BugSpin", "violation": r.violation})
    ctx.control("spec mutant (completion test off by one) violates a property", bool(r.violation))
    rng = random.Random(ctx.seed * 31337 + 5)
    pool = models(rng)
    combos = []
    solvers = [0, 1, 2]
    nsched = 2 if ctx.quick else 12
    for (name, m, sets) in pool:
        for solver in solvers:
            for cone in (0, 1):
                for mode in (("step",) if ctx.quick and solver != 2 else ("step", "forward", "inverse")):
                    for k in range(nsched):
                        nth = rng.choice([1, 2, 3, 4])
                        combos.append((name, m, sets, solver, cone, mode, nth, rng.randrange(1, 10 ** 9)))
    if ctx.quick:
        rng.shuffle(combos)
        keep = [c for c in combos if not c[0].startswith("ellipsoids") and c[0] != "tactile"][:80]
        # the tactile model always runs (taxel batches are split over the pool threads)
        tac = next(c for c in combos if c[0] == "tactile")
        for mode in ("step", "inverse"):
            for nth in (2, 3, 4):
                keep.append(tac[:3] + (2, 0, mode, nth, tac[7] + nth))
        # the convex-collider models always run, with the larger pools
        ell = [c for c in combos if c[0].startswith("ellipsoids") and c[3] == 2 and c[5] == "step"]
        seen = set()
        for c in ell:
            if (c[0], c[4]) not in seen:
                seen.add((c[0], c[4]))
                for nth in (3, 4):
                    keep.append(c[:6] + (nth, c[7] + nth))
        combos = keep

    def inp_of(c, reps=None):
        name, m, sets, solver, cone, mode, nth, seed = c
        lines = ["option solver=%d cone=%d" % (solver, cone)] + m + ["end", "nthread %d" % nth,
                                                                     "steps %d" % (3 if mode == "step" else 1),
                                                                     "seed %d" % seed, "mode " + mode]
        lines += ["setv %s %s" % kv for kv in sets]
        if reps:
            lines.append("reps %d" % reps)
        return lines

    def one(c):
        p = subprocess.run([exe], input="\n".join(inp_of(c)) + "\n", capture_output=True, text=True, timeout=300)
        return p.returncode, p.stdout, p.stderr[-300:]

    with cf.ThreadPoolExecutor(12) as ex:
        outs = list(ex.map(one, combos))
    traces, labels = [], []
    ndisp = 0
    for c, (rc, out, err) in zip(combos, outs):
        label = {"model": c[0], "solver": c[3], "cone": c[4], "mode": c[5], "nthread": c[6], "seed": c[7]}
        evs, end = [], None
        for ln in out.splitlines():
            try:
                e = json.loads(ln)
            except ValueError:
                continue
            if "end" in e:
                end = e
            else:
                evs.append(e)
        if end is not None and end["end"] == "modelerror":
            raise Machinery("model %s does not compile: %s" % (c[0], end["msg"]))
        multi = sum(1 for e in evs if e["op"] == "api" and e["obj"] == "dispatch" and e["val"] >= 200)
        ndisp += multi
        ctx.case(label, nontrivial=multi > 0, sample=label)
        if rc != 0 or end is None or end["end"] != "done":
            ctx.violation("sched:" + (end["end"] if end else "crash"), "pooled %s of model %s ended with %s (rc %s) %s" % (
                c[5], c[0], end, rc, err), {"mode": "sched", "input": inp_of(c)})
            continue
        bad = [e for e in evs if e["op"] == "cmp" and e["res"] != "eq"]
        if bad:
            ctx.violation("sched:differs:%s:%s" % (c[5], bad[0]["res"]),
                          "with a pool of %d threads %s of model %s (solver %d, cone %d) differs from the single-threaded run "
                          "in %s at call %d under schedule seed %d" % (c[6], c[5], c[0], c[3], c[4], bad[0]["res"],
                                                                         bad[0]["step"], c[7]), {"mode": "sched", "input": inp_of(c)})
            continue
        traces.append(to_trace(evs))
        labels.append(label)
    if ndisp == 0:
        raise Machinery("vacuity: no multi-task dispatch happened in any run")
    # negative control: a reservation whose recorded previous top is wrong must be rejected
    src = next((t for t in traces if sum(1 for e in t if e["op"] == "salloc") >= 2), None)
    ctrl = None
    if src is not None:
        badt = [dict(e) for e in src]
        k = [i for i, e in enumerate(badt) if e["op"] == "salloc"][1]
        badt[k]["val"] -= 8
        traces.append(badt)
        labels.append("control")
        ctrl = len(traces) - 1
    B = int(os.environ.get("C02_B", "60"))
    for off in range(0, len(traces), B):
        chunk = traces[off:off + B]
        res, verdicts = tlc.validate_traces(os.path.join(TLA, "ParallelStepTrace.tla"), os.path.join(TLA, "ParallelStepTrace.cfg"),
                                            chunk, timeout=2400)
        ctx.cov["tlc_runs"].append({"name": "ParallelStepTrace[%d]" % off, "generated": res.generated, "distinct": res.distinct,
                                    "wall_s": round(res.wall, 1)})
        if os.environ.get("C02_DEBUG"):
            print("chunk", off, "wall", round(res.wall, 1), "distinct", res.distinct, "lens", [len(t) for t in chunk],
                  [l["model"] if isinstance(l, dict) else l for l in labels[off:off + B]], flush=True)
        ctx.cov["states"] += res.distinct
        ctx.cov["transitions"] += res.generated
        if res.violation and "Invariant" in res.violation:
            ctx.violation("trace:invariant:" + res.violation, "a recorded multithreaded run drives ParallelStep.tla into a state "
                          "violating " + res.violation, {"mode": "trace", "labels": labels[off:off + B][:10]})
            continue
        if len(verdicts) != len(chunk):
            raise Machinery("trace validation produced %d verdicts for %d traces: %s" % (len(verdicts), len(chunk),
                                                                                         (res.error or res.out[-800:])))
        for i, tr in enumerate(chunk):
            reached, ln = verdicts[i + 1]
            gi = off + i
            if ctrl is not None and gi == ctrl:
                ctx.control("reservation with a wrong previous top is rejected by the trace spec", reached < ln)
                continue
            if reached == ln:
                ctx.trace_ok()
            else:
                e = tr[reached]
                ctx.violation("trace:unexplained:%s/%s" % (e["op"], e["obj"]),
                              "event %d %s of run %s is not a step of ParallelStep.tla" % (reached, e, labels[gi]),
                              {"mode": "trace", "label": labels[gi]})
    # free-running OS threads on the plain build
    fcombos = []
    for (name, m, sets) in pool:
        for solver in solvers:
            for nth in ((2, 8) if ctx.quick else (1, 2, 3, 4, 6, 8)):
                fcombos.append((name, m, sets, solver, rng.choice([0, 1]), "step", nth, 0))

    def onef(c):
        p = subprocess.run([exef], input="\n".join(inp_of(c, reps=4 if ctx.quick else 25)) + "\n", capture_output=True,
                           text=True, timeout=600)
        return p.returncode, p.stdout

    with cf.ThreadPoolExecutor(4) as ex:
        fouts = list(ex.map(onef, fcombos))
    for c, (rc, out) in zip(fcombos, fouts):
        label = {"free": True, "model": c[0], "solver": c[3], "cone": c[4], "nthread": c[6]}
        reps = [l.split() for l in out.splitlines() if l.startswith("rep ")]
        ctx.case(label, nontrivial=True)
        if rc != 0 or not reps:
            ctx.violation("free:crash", "free-running pool run of %s died (rc %s)" % (label, rc), {"mode": "free", "input": inp_of(c, 4)})
            continue
        if c[0] == "tactile" and not any("lasts=1" in r for r in reps):
            raise Machinery("vacuity: the last taxel of the tactile model reads zero in the reference run")
        bad = [r for r in reps if r[2] != "eq"]
        if bad:
            ctx.violation("free:differs:%s" % bad[0][2], "free-running pool of %d threads: model %s solver %d differs from the "
                          "single-threaded run in %s at step %s (repetition %s)" % (c[6], c[0], c[3], bad[0][2], bad[0][3], bad[0][1]),
                          {"mode": "free", "input": inp_of(c, 25)})
        else:
            ctx.trace_ok()
    # data-race clause: the same free-running runs on a ThreadSanitizer build of engine + harness
    exet = h_tsan()
    tcombos = []
    for (name, m, sets) in pool:
        for solver in (solvers if not ctx.quick else solvers[:1]):
            for mode in (("step",) if ctx.quick else ("step", "inverse")):
                for nth in ((4,) if ctx.quick else (2, 4, 8)):
                    tcombos.append((name, m, sets, solver, rng.choice([0, 1]), mode, nth, 0))
    tenv = dict(os.environ, TSAN_OPTIONS="halt_on_error=0 exitcode=0 report_signal_unsafe=0 history_size=4")

    def onet(c, extra=()):
        p = subprocess.run([exet], input="\n".join(inp_of(c, reps=2 if ctx.quick else 6) + list(extra)) + "\n",
                           capture_output=True, text=True, timeout=900, env=tenv)
        return p.returncode, p.stdout, p.stderr

    with cf.ThreadPoolExecutor(4) as ex:
        touts = list(ex.map(onet, tcombos))
    for c, (rc, out, err) in zip(tcombos, touts):
        label = {"tsan": True, "model": c[0], "solver": c[3], "cone": c[4], "mode": c[5], "nthread": c[6]}
        ctx.case(label, nontrivial=True)
        reps = [l for l in out.splitlines() if l.startswith("rep ")]
        rs = tsan_reports(err)
        if rc != 0 or not reps:
            ctx.violation("tsan:crash", "ThreadSanitizer run of %s died (rc %s): %s" % (label, rc, err[-300:]),
                          {"mode": "tsan", "input": inp_of(c, 2)})
        elif rs:
            for kind, fn in sorted(set(rs)):
                ctx.violation("tsan:%s:%s" % (kind.replace(" ", "-"), fn),
                              "ThreadSanitizer reports a %s in %s during mj_%s with a pool of %d threads (model %s, solver %d)"
                              % (kind, fn, c[5], c[6], c[0], c[3]), {"mode": "tsan", "input": inp_of(c, 2)})
        else:
            ctx.trace_ok()
    rc, out, err = onet(tcombos[0], extra=("racy",))
    ctx.control("tsan: two OS threads calling mj_forward on one mjData are reported as a data race",
                any(k == "data race" for k, _ in tsan_reports(err)))
    ctx.assume("data-race clause: decided by ThreadSanitizer (clang 14) on the free-running harness for the OS schedules "
               "that occurred in %d runs; the controlled scheduler does not observe plain memory accesses" % len(tcombos))
    ctx.cov["rule"] = ("%d scheduled runs (model x solver x cone x mode x pool size x schedule seed) with %d multi-task "
                       "dispatches, each compared bytewise after every call and trace-validated; %d free-running configurations; "
                       "%d ThreadSanitizer runs; non-trivial = at least one dispatch with >= 2 tasks" % (len(combos), ndisp, len(fcombos), len(tcombos)))
    ctx.cov["exhaustive"] = False


def replay(ctx, rp):
    r = rp["replay"]
    if r.get("mode") == "tsan" and "input" in r:
        p = subprocess.run([h_tsan()], input="\n".join(r["input"]) + "\n", capture_output=True, text=True, timeout=900,
                           env=dict(os.environ, TSAN_OPTIONS="halt_on_error=0 exitcode=0 report_signal_unsafe=0"))
        rs = tsan_reports(p.stderr)
        print("rc", p.returncode, "reports:", sorted(set(rs))[:5])
        if p.returncode != 0 or rs:
            ctx.violation(rp["signature"], rp["what"], r)
    elif r.get("mode") in ("sched", "free") and "input" in r:
        exe = h_sched() if r["mode"] == "sched" else h_free()
        p = subprocess.run([exe], input="\n".join(r["input"]) + "\n", capture_output=True, text=True, timeout=600)
        bad = [l for l in p.stdout.splitlines() if ('"cmp"' in l and '"eq"' not in l) or (l.startswith("rep ") and " eq " not in l)]
        print("rc", p.returncode, "differences:", bad[:3])
        if p.returncode != 0 or bad or '"end":"done"' not in p.stdout and r["mode"] == "sched":
            ctx.violation(rp["signature"], rp["what"], r)
    else:
        ctx.violation(rp["signature"], rp["what"], r)
    ctx.case({"r": 1})
    ctx.case({"r": 2})
