"""C17 - constraint islands are the connected components of coupling: Islands.tla (union-find histories),
IslandsFlood.tla (mj_floodFill) and IslandsModel.tla (mj_island through mj_forward) decided by TLC, replayed into
src/engine/engine_island.c; the published index maps are validated by IslandsModelTrace.tla."""
import json
import os
import re

from vlib import build, tlc, drv
from vlib.check import Machinery, VERIF

TLA = os.path.join(VERIF, "tla")

META = dict(
    engine="tlc-replay",
    technique="TLA+ specs Islands.tla (histories of mj_dsuMerge/Root/Assign: coded union-find checked against the "
              "components of the merge history), IslandsFlood.tla (mj_floodFill step by step, stack bound) and "
              "IslandsModel.tla (constraint scenarios with run-time toggles; islands, dof and row membership, "
              "coded map construction) model-checked by TLC; behaviours replayed into the exported functions and "
              "into mj_forward on models realising each scenario (dense and sparse Jacobian, both cones); recorded "
              "mjData island arrays validated by IslandsModelTrace.tla",
    text="TLC decides on the specifications that the union-find keeps the smallest tree as root of every component, "
         "that assignment numbers components by smallest member, that flood fill labels exactly the components "
         "within nnz stack cells, and that the island maps are mutually inverse permutations grouped by island; "
         "every transition of the small state graphs and simulated longer histories are executed by the real "
         "functions and compared on roots, partitions, island ids, dof/row membership and counts, and every "
         "published map is accepted by TLC only if it satisfies the stated predicates.",
    note="Trusted: TLC, harness island_drv.cc (non-mutating root walk, guard cells), the realisation of a scenario "
         "as a model (checks/c17.py: realise) and the row -> constraint mapping by construction. Flex constraints "
         "and flex stiffness coupling are not covered (no flex support in the model description language); sleeping "
         "trees are C18's. The order of items inside an island is not compared (the property does not fix it).",
    ref="DESIGN.md section 4 C17")

ALL_TREE_DOFS = [1, 2, 1, 3, 2, 1, 2, 1]          # IslandsModel.tla: AllTreeDofs
TWO_BODY = ("connect", "connectsite", "weld", "con1", "con3")


def csv(xs):
    return ",".join(str(x) for x in xs) if len(xs) else "-"


def parse_emitted(out, tag="EV"):
    vals = []
    lines = out.split("\n")
    i = 0
    start = re.compile(r'^<<\s*"%s",' % tag)
    while i < len(lines):
        if not start.match(lines[i]):
            i += 1
            continue
        depth = 0
        buf = []
        while i < len(lines):
            ln = lines[i]
            buf.append(ln)
            depth += ln.count("<<") + ln.count("[") + ln.count("(") + ln.count("{")
            depth -= ln.count(">>") + ln.count("]") + ln.count(")") + ln.count("}")
            i += 1
            if depth <= 0:
                break
        vals.append(tlc.parse_value(" ".join(buf))[1])
    vals.sort(key=lambda v: (v["nr"], tuple(v["rownnz"]), tuple(v["colind"])))      # TLC's workers print in any order
    return vals


def canon_graph(nodes, edges, inits, keyvars):
    """TLC numbers states by fingerprint (random per run) and its workers write them in any order: relabel the graph
    by state content so that the edge cover, hence the whole run, is the same every time"""
    key = {i: json.dumps(tlc.to_py({k: st[k] for k in keyvars}), sort_keys=True) for i, st in nodes.items()}
    order = sorted(nodes, key=lambda i: key[i])
    new = {old: "%07d" % k for k, old in enumerate(order)}
    n2 = {new[i]: nodes[i] for i in order}
    e2 = sorted({(new[u], new[v], a) for (u, v, a) in edges if u in new and v in new})
    return n2, e2, sorted(new[i] for i in inits)


def fn0(v, n):
    """parsed 0-based TLA+ function (dict) or sequence -> python list"""
    if isinstance(v, dict):
        return [v[i] for i in range(n)]
    return list(v)


# =============================================================================================
# part 1: union-find histories
# =============================================================================================
def dsu_script(beh, n):
    """commands + expectations for one behaviour (list of states, first = initial)"""
    cmds = ["dnew %d" % n]
    exps = [("dnew", None, "ok")]
    for st in beh:
        ev = st["ev"]
        roots = csv(fn0(st["obs"], n))
        if ev["op"] == "init":
            continue
        if ev["op"] == "merge":
            cmds.append("dmerge %d %d" % (ev["a"], ev["b"]))
            exps.append(("merge", ev, roots))
        elif ev["op"] == "root":
            cmds.append("droot %d" % ev["t"])
            exps.append(("root", ev, "%d %s" % (ev["ret"], roots)))
        elif ev["op"] == "assign":
            cmds.append("dassign %s" % csv(ev["dofnum"]))
            exps.append(("assign", ev, "%d %d %s %s" % (ev["nisland"], ev["nidof"], csv(ev["island"]), roots)))
        else:
            raise Machinery("unknown DSU op %r" % (ev,))
    return cmds, exps


def first_mismatch(exps, got):
    for i, (kind, arg, want) in enumerate(exps):
        g = got[i] if i < len(got) else None
        if g != want:
            return i, kind, arg, want, g
    return None


def dsu_class(kind, want, got):
    if got is None:
        return "crash"
    if "cycle" in got or "range" in got:
        return "not-a-forest"
    w, g = want.split(), got.split()
    if kind == "merge":
        return "roots-after-merge"
    if kind == "root":
        return "return-value" if w[0] != g[0] else "roots-after-root"
    if w[0] != g[0]:
        return "nisland"
    if w[1] != g[1]:
        return "nidof"
    if w[2] != g[2]:
        return "island-ids"
    return "roots-after-assign"


def part_dsu(ctx, exe):
    spec = os.path.join(TLA, "Islands.tla")
    acts = ["Merge", "Root", "Assign"]
    if ctx.quick:
        # N = 5, 4 operations (design check; the 6-operation run is the thorough one)
        cfg = tlc.cfg_write(os.path.join(VERIF, ".cache", "c17-%d" % os.getpid(), "Islands_Mid.cfg"),
                            open(os.path.join(TLA, "Islands_Deep.cfg")).read().replace("MaxOps = 6", "MaxOps = 4"))
        res = tlc.run(spec, cfg, coverage=True, timeout=900)
        ctx.tlc_ok(res, "Islands_Mid(N=5,4 ops)", need_actions=acts)
    else:
        res = tlc.run(spec, os.path.join(TLA, "Islands_Deep.cfg"), coverage=True, timeout=3000)
        ctx.tlc_ok(res, "Islands_Deep(N=5,6 ops)", need_actions=acts)
    exhaustive = bool(res.finished)
    res, nodes, edges, inits = tlc.dump_graph(spec, os.path.join(TLA, "Islands_MC.cfg"), timeout=900)
    ctx.tlc_ok(res, "Islands_MC(graph)")
    nodes, edges, inits = canon_graph(nodes, edges, inits, ("parent", "edges", "nops", "ev"))
    paths = tlc.edge_cover_paths(nodes, edges, inits)
    behs = [(4, [nodes[i] for i in p]) for p in paths]
    nsim = 100 if ctx.quick else 1500
    res, sims = tlc.simulate(spec, os.path.join(TLA, "Islands_Sim.cfg"), num=nsim, depth=25, seed=ctx.seed + 17,
                             timeout=1800)
    ctx.tlc_ok(res, "Islands_Sim")
    if len(sims) < nsim // 2:
        raise Machinery("Islands_Sim produced %d behaviours" % len(sims))
    behs += [(8, [s for (_a, s) in b]) for b in sims]
    cmds, exps, index = [], [], []
    for n, beh in behs:
        c, e = dsu_script(beh, n)
        index.append((len(cmds), len(c)))
        cmds += c
        exps += e
    r = drv.run_script(exe, cmds, timeout=900)
    # negative control: a wrong expected root must be flagged
    bad = list(exps[:200])
    k = next(i for i, x in enumerate(bad) if x[0] == "merge")
    bad[k] = (bad[k][0], bad[k][1], bad[k][2].replace("0", "3", 1) if "0" in bad[k][2] else bad[k][2] + ",9")
    ctx.control("DSU: perturbed expected roots are flagged", first_mismatch(bad, r.lines[:200]) is not None)
    for (off, ln), (n, beh) in zip(index, behs):
        ops = [tlc.to_py(st["ev"]) for st in beh if st["ev"]["op"] != "init"]
        key = [(o["op"], o.get("a"), o.get("b"), o.get("t")) for o in ops]
        ctx.case({"dsu": n, "ops": key}, nontrivial=len(ops) >= 2, sample={"n": n, "ops": key[:6]})
        mm = first_mismatch(exps[off:off + ln], r.lines[off:off + ln])
        if mm is None:
            ctx.trace_ok()
            continue
        i, kind, arg, want, got = mm
        cls = dsu_class(kind, want, got)
        if got is None and r.crashed:
            got = "harness died: " + r.crash_text()
        ctx.violation("dsu:%s:%s" % (kind, cls),
                      "union-find over %d trees, history %s: %s answered %r, specification %r" % (n, key[:12], kind, got, want),
                      {"part": "dsu", "script": cmds[off:off + ln], "first_bad_line": i, "want": want})
    return exhaustive, len(edges), len(sims)


# =============================================================================================
# part 2: flood fill
# =============================================================================================
def part_flood(ctx, exe):
    spec = os.path.join(TLA, "IslandsFlood.tla")
    cfgs = ["IslandsFlood_MC.cfg"] + ([] if ctx.quick else ["IslandsFlood_Deep.cfg"])
    evs = []
    for c in cfgs:
        res = tlc.run(spec, os.path.join(TLA, c), coverage=True, timeout=3000)
        ctx.tlc_ok(res, c[:-4], need_actions=["Outer", "Pop", "IslandDone", "Return"])
        e = parse_emitted(res.out)
        if not e:
            raise Machinery("%s emitted no result" % c)
        evs += e
    cmds, exps = [], []
    for ev in evs:
        cmds.append("flood %d %s %s %s" % (ev["nr"], csv(ev["rownnz"]), csv(ev["rowadr"]), csv(ev["colind"])))
        exps.append("%d %s" % (ev["nisland"], csv(ev["island"])))
    r = drv.run_script(exe, cmds, timeout=900)
    k = next(i for i, e in enumerate(exps) if not e.startswith("0 "))
    ctx.control("flood fill: a perturbed expected island count is flagged",
                r.lines[k] != "%d %s" % (int(exps[k].split()[0]) + 1, exps[k].split()[1]) and r.lines[k] == exps[k])
    for i, (c, want) in enumerate(zip(cmds, exps)):
        got = r.lines[i] if i < len(r.lines) else None
        nnz = 0 if c.split()[4] == "-" else c.split()[4].count(",") + 1
        ctx.case(c, nontrivial=nnz >= 2, sample={"cmd": c, "spec": want})
        if got == want:
            ctx.trace_ok()
            continue
        if got is None:
            cls = "crash"
        elif got.startswith("bad"):
            cls = got.split()[1]
        elif got.split()[0] != want.split()[0]:
            cls = "nisland"
        else:
            cls = "labels"
        ctx.violation("floodfill:%s" % cls, "%s answered %r, specification %r" % (c, got, want),
                      {"part": "flood", "script": [c], "first_bad_line": 0, "want": want})
    return len(evs)


# =============================================================================================
# part 3: mj_island on models
# =============================================================================================
def realise(nt, cons, jac, cone):
    """model description realising the scenario + run-time switch commands per constraint.
    Returns (lines, info) with info[x] = dict(on=[cmds], off=[cmds], key=identity of its constraint rows)"""
    dofs = ALL_TREE_DOFS[:nt]
    first = lambda t: "j%d_0" % t
    last = lambda t: "j%d_%d" % (t, dofs[t] - 1)
    bname = lambda t: "world" if t < 0 else "t%d" % t
    jattr = {}                 # joint attributes required by limit / fric constraints
    body_extra, tail, info = [], [], []

    def sw(key, what, name, off, on):
        info.append(dict(key=key, off=["tog 0 %s %s %s" % (what, name, off)], on=["tog 0 %s %s %s" % (what, name, on)]))
    for x, c in enumerate(cons):
        kind, trees = c["kind"], list(c["trees"])
        if kind == "fric":
            jattr.setdefault(first(trees[0]), []).append("frictionloss=1")
            sw(("fricdof", first(trees[0])), "jfric", first(trees[0]), 0, 1)
        elif kind == "limit":
            jattr.setdefault(last(trees[0]), []).append("limited=1 range=0.5,1")
            sw(("limjnt", last(trees[0])), "jrange", last(trees[0]), -5, 0.5)
        elif kind in ("connect", "weld", "connectsite"):
            if kind == "connectsite":
                for side, t in (("a", trees[0]), ("b", trees[1])):
                    body_extra.append("site body=%s name=s%d%s pos=0,0,0.1" % (bname(t), x, side))
                tail.append("equality name=e%d type=0 objtype=6 name1=s%da name2=s%db" % (x, x, x))
            else:
                data = "0,0,0" if kind == "connect" else "0,0,0,0,0,0,1,0,0,0,1"
                tail.append("equality name=e%d type=%d objtype=1 name1=%s name2=%s data=%s" % (
                    x, 0 if kind == "connect" else 1, bname(trees[0]), bname(trees[1]), data))
            sw(("eq", "e%d" % x), "eq", "e%d" % x, 0, 1)
        elif kind == "jointeq":
            if len(trees) == 1:
                tail.append("equality name=e%d type=2 objtype=3 name1=%s data=0.5,1,0,0,0" % (x, last(trees[0])))
            else:
                tail.append("equality name=e%d type=2 objtype=3 name1=%s name2=%s data=0,1,0,0,0" % (x, last(trees[0]), first(trees[1])))
            sw(("eq", "e%d" % x), "eq", "e%d" % x, 0, 1)
        elif kind in ("con1", "con3"):
            for side, t in (("a", trees[0]), ("b", trees[1])):
                body_extra.append("geom body=%s name=c%d%s type=2 size=0.1 contype=0 conaffinity=0 pos=0,%s,0" % (
                    bname(t), x, side, "0.3" if side == "a" else "-0.3"))
            tail.append("pair name=p%d geomname1=c%da geomname2=c%db condim=%d margin=100" % (x, x, x, 1 if kind == "con1" else 3))
            sw(("con", x), "pair", "p%d" % x, -100, 100)
        elif kind in ("tfric", "tlimit"):
            tail.append("tendon name=tn%d %s" % (x, "frictionloss=1" if kind == "tfric" else "limited=1 range=1,2"))
            for t in trees:
                tail.append("wrapjoint tendon=tn%d joint=%s coef=1" % (x, last(t)))
            if kind == "tfric":
                sw(("frictend", "tn%d" % x), "tfric", "tn%d" % x, 0, 1)
            else:
                sw(("limtend", "tn%d" % x), "trange", "tn%d" % x, -5, 1)
        else:
            raise Machinery("unknown constraint kind %r" % kind)
    lines = ["model 0", "option jacobian=%d cone=%d disableflags=0" % (jac, cone)]
    for t in range(nt):
        par = None
        for i in range(dofs[t]):
            b = "t%d" % t if i == 0 else "t%d_%d" % (t, i)
            if i == 0:
                lines.append("body name=%s pos=0,0,%d" % (b, 5 * t))
            else:
                lines.append("body name=%s parent=%s pos=0,0.5,0" % (b, par))
            jn = "j%d_%d" % (t, i)
            lines.append("joint body=%s name=%s %s %s" % (b, jn, "type=2 axis=1,0,0" if i == 0 else "type=3 axis=0,0,1",
                                                          " ".join(jattr.get(jn, []))))
            lines.append("geom body=%s name=g%d_%d type=2 size=0.1 contype=0 conaffinity=0" % (b, t, i))
            par = b
    lines += body_extra + tail + ["end", "data 0 0"]
    return lines, info


ROWKIND = {0: "eq", 1: "fricdof", 2: "frictend", 3: "limjnt", 4: "limtend"}


def row_constraints(out, info):
    """constraint index (1-based) of every row, by construction (object names)"""
    keymap = {inf["key"]: x + 1 for x, inf in enumerate(info)}
    rows = []
    for ty, idd, nm, gg in zip(out["efc_type"], out["efc_id"], out["efc_obj"], out["efc_geoms"]):
        if ty in ROWKIND:
            key = (ROWKIND[ty], nm)
        else:
            m = re.match(r"c(\d+)[ab]$", gg[0]) if gg else None
            key = ("con", int(m.group(1))) if m else None
        if key not in keymap:
            raise Machinery("constraint row (type %d id %d %r %r) belongs to no constraint of the scenario" % (ty, idd, nm, gg))
        rows.append(keymap[key])
    return rows


MODEL_FIELDS = ("nisland", "nidof")
MODEL_ARRAYS = ("tree_island", "dof_island", "island_nv", "island_idofadr", "island_ntree", "island_itreeadr")


def compare_model(out, obs, rows, on):
    """first clause on which mjData differs from obs, or None"""
    for f in MODEL_FIELDS:
        if out[f] != obs[f]:
            return f, out[f], obs[f]
    if obs["nisland"] == 0:
        return None
    if not out["have"]:
        return "arrays-missing", 0, 1
    for f in MODEL_ARRAYS:
        if list(out[f]) != list(obs[f]):
            return f, out[f], list(obs[f])
    ci = list(obs["cons_island"])
    for r, x in enumerate(rows):
        if out["efc_island"][r] != ci[x - 1]:
            return "efc_island", (r, out["efc_island"][r]), ci[x - 1]
    return None


def model_behaviours(ctx, exe, nt, behs, label, combos):
    """replay behaviours (lists of states with cons/on/obs) as histories of one model/data pair each.
    Returns the traces (events with recorded outputs) for IslandsModelTrace"""
    cmds, plan = [], []          # plan: (behaviour index, state index, info, line index of the islands answer)
    for bi, beh in enumerate(behs):
        jac, cone = combos[bi % len(combos)]
        prev_cons, prev_on, info = (), (), []
        for si, st in enumerate(beh):
            cons, on = tuple(st["cons"]), tuple(st["on"])
            if si == 0:
                if cons:
                    raise Machinery("%s: behaviour does not start in the initial state" % label)
                continue
            if len(cons) != len(prev_cons):
                lines, info = realise(nt, [tlc.to_py(c) for c in cons], jac, cone)
                cmds += lines
                for x, o in enumerate(on):
                    if not o:
                        cmds += info[x]["off"]
                evd = {"op": "add", "kind": cons[-1]["kind"], "trees": list(cons[-1]["trees"])}
            else:
                diff = [x for x in range(len(on)) if on[x] != prev_on[x]]
                if len(diff) != 1:
                    raise Machinery("%s: consecutive states differ in %d switches" % (label, len(diff)))
                cmds += info[diff[0]]["on" if on[diff[0]] else "off"]
                evd = {"op": "toggle", "x": diff[0] + 1}
            cmds += ["forward 0", "islands 0"]
            plan.append((bi, si, info, len(cmds) - 1, evd))
            prev_cons, prev_on = cons, on
    # count lines: every command prints one line except the model description lines between "model" and "end"
    r = drv.run_script(exe, cmds, timeout=1800)
    out_index, k, inside = {}, 0, False
    for i, c in enumerate(cmds):
        if inside:
            if c == "end":
                inside = False
            continue
        if c.startswith("model "):
            inside = True
        out_index[i] = k
        k += 1
    traces = {}
    for bi, si, info, li, evd in plan:
        st = behs[bi][si]
        obs = st["obs"]
        cons = [tlc.to_py(c) for c in st["cons"]]
        on = list(st["on"])
        key = {"nt": nt, "cons": [(c["kind"], c["trees"]) for c in cons], "on": on, "combo": combos[bi % len(combos)]}
        ctx.case(key, nontrivial=sum(on) >= 1, sample=key)
        oi = out_index[li]
        line = r.lines[oi] if oi < len(r.lines) else None
        prevs = r.lines[max(0, oi - 3):oi]
        if line is None or not line.startswith("{"):
            what = ("harness died: %s (last output %r)" % (r.crash_text(), r.lines[-1][:200] if r.lines else None)
                    if r.crashed else "unexpected answer %r" % (line,))
            ctx.violation("model:crash", "scenario %s: %s" % (key, what), {"part": "model", "nt": nt, "cons": cons, "on": on,
                                                                           "combo": combos[bi % len(combos)]})
            break
        if prevs and prevs[-1].startswith("error"):
            # mj_forward raised an engine error on a legitimate scenario: island discovery failed
            msg = prevs[-1][6:]
            ctx.violation("model:forward-error:%s" % re.sub(r"[0-9]+", "N", msg)[:60],
                          "scenario %s: mj_forward raised %r" % (key, msg),
                          {"part": "model", "nt": nt, "cons": cons, "on": on, "combo": combos[bi % len(combos)], "obs": tlc.to_py(obs)})
            continue
        if any(p.startswith("error") or p.startswith("?") for p in prevs):
            raise Machinery("%s: scenario %s: harness reported %r" % (label, key, prevs))
        out = json.loads(line)
        rows = row_constraints(out, info)
        for x, o in enumerate(on):
            if o and (x + 1) not in rows:
                raise Machinery("%s: constraint %d of %s is switched on but produced no constraint row" % (label, x + 1, key))
            if not o and (x + 1) in rows:
                raise Machinery("%s: constraint %d of %s is switched off but produced a row" % (label, x + 1, key))
        mm = compare_model(out, obs, rows, on)
        if mm is None:
            ctx.trace_ok()
        else:
            kinds = "+".join(sorted({c["kind"] for c, o in zip(cons, on) if o}))
            ctx.violation("model:%s:%s" % (mm[0], kinds),
                          "scenario %s: mjData.%s = %r, specification %r" % (key, mm[0], mm[1], mm[2]),
                          {"part": "model", "nt": nt, "cons": cons, "on": on, "combo": combos[bi % len(combos)], "obs": tlc.to_py(obs)})
        if True:
            rec = dict(evd)
            o2 = {k2: out.get(k2, []) for k2 in (
                "tree_island", "dof_island", "island_nv", "island_idofadr", "island_ntree", "island_itreeadr",
                "map_itree2tree", "island_dofadr", "map_dof2idof", "map_idof2dof", "efc_island", "island_ne", "island_nf",
                "island_nefc", "island_iefcadr", "map_efc2iefc", "map_iefc2efc", "iefc_type", "iefc_id", "efc_type", "efc_id")}
            o2.update(nisland=out["nisland"], nidof=out["nidof"], ntree=out["ntree"], nv=out["nv"], have=out["have"],
                      rowcons=rows)
            rec["out"] = o2
            traces.setdefault(bi, []).append(rec)
    return [traces[b] for b in sorted(traces)]


def validate_model_traces(ctx, nt, traces, label):
    """IslandsModelTrace: all traces must be accepted; two perturbed copies must be rejected"""
    if not traces:
        if ctx.violations:
            return
        raise Machinery("%s: no traces recorded" % label)
    ctl = []
    for tr in traces:
        for k, evd in enumerate(tr):
            o = evd["out"]
            if o["nisland"] >= 1 and len(o["map_dof2idof"]) >= 2 and not ctl:
                o2 = json.loads(json.dumps(o))
                o2["map_idof2dof"][0], o2["map_idof2dof"][1] = o2["map_idof2dof"][1], o2["map_idof2dof"][0]
                ctl.append(tr[:k] + [dict(evd, out=o2)])
            elif o["nisland"] >= 2 and len(ctl) == 1:
                o2 = json.loads(json.dumps(o))
                o2["efc_island"][0] = (o2["efc_island"][0] + 1) % o["nisland"]
                ctl.append(tr[:k] + [dict(evd, out=o2)])
        if len(ctl) == 2:
            break
    res, verd = tlc.validate_traces(os.path.join(TLA, "IslandsModelTrace.tla"),
                                    os.path.join(TLA, "IslandsModelTrace%d.cfg" % nt), traces + ctl, timeout=3000)
    if res.error and "Postcondition Report" in res.error and len(verd) == len(traces) + len(ctl):
        res.error = None
        res.finished = True
    ctx.tlc_ok(res, label)
    if len(verd) != len(traces) + len(ctl):
        raise Machinery("%s: %d verdicts for %d traces" % (label, len(verd), len(traces) + len(ctl)))
    ctx.control("%s rejects a recorded map with two entries swapped / a row put in another island" % label,
                len(ctl) >= 1 and all(verd[len(traces) + j + 1][0] < verd[len(traces) + j + 1][1] for j in range(len(ctl))))
    for j, tr in enumerate(traces):
        reached, ln = verd[j + 1]
        if reached == ln:
            ctx.trace_ok()
            continue
        evd = tr[reached]
        hist = [(e["op"], e.get("kind"), e.get("trees"), e.get("x")) for e in tr[:reached + 1]]
        ctx.violation("model:maps-rejected:%s" % evd["op"],
                      "history %s: the island arrays published after the last event are not accepted by "
                      "IslandsModelTrace.tla (recorded: %s)" % (hist, json.dumps(evd["out"])[:600]),
                      {"part": "trace", "nt": nt, "trace": tr[:reached + 1]})


def part_model(ctx, exe):
    spec = os.path.join(TLA, "IslandsModel.tla")
    combos = [(0, 0), (1, 1), (1, 0), (0, 1)]            # (jacobian dense/sparse, cone pyramidal/elliptic)
    cfg = "IslandsModel_MC.cfg" if ctx.quick else "IslandsModel_Deep.cfg"
    res, nodes, edges, inits = tlc.dump_graph(spec, os.path.join(TLA, cfg), timeout=3000)
    ctx.tlc_ok(res, cfg[:-4] + "(graph)")
    nodes, edges, inits = canon_graph(nodes, edges, inits, ("cons", "on", "ntog"))
    paths = tlc.edge_cover_paths(nodes, edges, inits)
    behs = [[nodes[i] for i in p] for p in paths]
    tr = model_behaviours(ctx, exe, 3, behs, cfg[:-4], combos)
    validate_model_traces(ctx, 3, tr, "IslandsModelTrace(NT=3)")
    nsim = 80 if ctx.quick else 1000
    res, sims = tlc.simulate(spec, os.path.join(TLA, "IslandsModel_Sim.cfg"), num=nsim, depth=12, seed=ctx.seed + 5,
                             timeout=3000)
    ctx.tlc_ok(res, "IslandsModel_Sim")
    if len(sims) < nsim // 2:
        raise Machinery("IslandsModel_Sim produced %d behaviours" % len(sims))
    sb = [[s for (_a, s) in b] for b in sims]
    tr = model_behaviours(ctx, exe, 6, sb, "IslandsModel_Sim", combos)
    validate_model_traces(ctx, 6, tr, "IslandsModelTrace(NT=6)")
    return len(edges), len(sims)


def run(ctx):
    exe = build.build_harness("island_drv", [os.path.join(VERIF, "harness", "island_drv.cc")])
    ctx.assume("union-find: histories over at most 5 trees exhaustively (4 / 6 operations) and 8 trees by simulation",
               "flood fill: all symmetric adjacency structures on 4 vertices with self loops (5 without, thorough), "
               "three CSR layouts (ascending, descending, duplicated entries)",
               "models: trees are chains of slide/hinge joints; constraints are connect/weld equalities (bodies, sites, "
               "world), joint equalities, joint limits, dof and tendon friction loss, tendon limits, sphere contacts "
               "(condim 1 and 3) made active through the pair margin; no flex, no sleeping")
    scratch = os.path.join(VERIF, ".cache", "c17-%d" % os.getpid())
    def guarded(fn, dflt):
        """a machinery failure after the implementation was already caught misbehaving must not hide the violations"""
        try:
            return fn(ctx, exe)
        except Machinery as e:
            if not ctx.violations:
                raise
            ctx.notes.append("machinery failure after violations: %s" % str(e)[:300])
            return dflt
    try:
        exh, nedges, nsim = guarded(part_dsu, (False, 0, 0))
        nflood = guarded(part_flood, 0)
        medges, msim = guarded(part_model, (0, 0))
    finally:
        import shutil
        shutil.rmtree(scratch, ignore_errors=True)
    ctx.cov["exhaustive"] = exh
    ctx.cov["rule"] = ("union-find: edge cover of the exhaustive 3-operation graph over 4 trees (%d transitions) + %d simulated "
                       "24-operation histories over 8 trees, roots of all trees compared after every call; flood fill: "
                       "%d adjacency structures; models: every transition of the scenario graph over 3 trees (%d) and "
                       "%d simulated histories over 6 trees (up to 7 constraints, 4 run-time switches), each executed "
                       "by mj_forward with dense/sparse Jacobian and both cones, all published island arrays compared or "
                       "validated by IslandsModelTrace.tla; non-trivial = at least two operations / two matrix entries / "
                       "one active constraint" % (nedges, nsim, nflood, medges, msim))


def replay(ctx, rp):
    exe = build.build_harness("island_drv", [os.path.join(VERIF, "harness", "island_drv.cc")])
    q = rp["replay"]
    ctx.case({"replay": rp["signature"]})
    ctx.case({"replay": rp["signature"], "x": 1})
    if q["part"] in ("dsu", "flood"):
        r = drv.run_script(exe, q["script"])
        i = q["first_bad_line"]
        got = r.lines[i] if i < len(r.lines) else None
        print("line %d: specification %r, implementation %r" % (i, q["want"], got))
        if got != q["want"]:
            ctx.violation(rp["signature"], rp["what"], q)
        return
    if q["part"] == "trace":
        res, verd = tlc.validate_traces(os.path.join(TLA, "IslandsModelTrace.tla"),
                                        os.path.join(TLA, "IslandsModelTrace%d.cfg" % q["nt"]), [q["trace"]], timeout=600)
        print("IslandsModelTrace verdict:", verd)
        if verd.get(1, (0, 1))[0] != verd.get(1, (0, 1))[1]:
            ctx.violation(rp["signature"], rp["what"], q)
        return
    lines, info = realise(q["nt"], q["cons"], q["combo"][0], q["combo"][1])
    for x, o in enumerate(q["on"]):
        if not o:
            lines += info[x]["off"]
    lines += ["forward 0", "islands 0"]
    r = drv.run_script(exe, lines)
    last = r.lines[-1] if r.lines else None
    fwd = r.lines[-2] if len(r.lines) >= 2 else None
    print("scenario %s on=%s" % (q["cons"], q["on"]))
    if r.crashed or last is None or not last.startswith("{") or (fwd or "").startswith("error"):
        print("forward: %r islands: %r %s" % (fwd, (last or "")[:300], r.crash_text() if r.crashed else ""))
        ctx.violation(rp["signature"], rp["what"], q)
        return
    out = json.loads(last)
    mm = compare_model(out, q["obs"], row_constraints(out, info), q["on"])
    print("specification:", {k: q["obs"][k] for k in ("nisland", "tree_island", "dof_island", "nidof", "cons_island")})
    print("mjData       :", {k: out.get(k) for k in ("nisland", "tree_island", "dof_island", "nidof", "efc_island")})
    if mm is not None:
        print("first difference: %s = %r, specification %r" % mm)
        ctx.violation(rp["signature"], rp["what"], q)
