"""C32 - saved MJCF recompiles to the same model.

XmlRoundTrip.tla (default-class tree, body/frame tree with childclass contexts, element order, keyframes, number
printing) is model-checked by TLC; every model TLC generates is built through the mjSpec API, saved with
mj_saveXMLString, parsed with mj_parseXMLString, compiled, and the compiled model is compared (a) with the original
in every compiled array and (b) with what the specification says the reader must return (ev.model) and what the
named deviations of the code predict (ev.code).  The XML tokenizer / printer underneath src/xml/*.cc is the
stand-in /verif/shim/fullxml/tinyxml2.h, NOT tinyxml2.
"""
import glob
import os
import shutil
import tempfile

from vlib import build, tlc, drv
from vlib.check import Machinery, VERIF
from checks import tladump

TLA = os.path.join(VERIF, "tla")
SPEC = os.path.join(TLA, "XmlRoundTrip.tla")

META = dict(
    engine="tlc-replay",
    technique="TLA+ spec XmlRoundTrip.tla (abstract Write / Read of MJCF: default-class tree, childclass contexts of "
              "bodies and frames, emission order, keyframes, printed precision) model-checked by TLC; every generated "
              "model replayed through mjSpec -> mj_saveXMLString -> mj_parseXMLString -> mj_compile and compared with "
              "the original in every compiled array and with the specification's expected / code-predicted result",
    text="TLC decides Read(Write(m)) = m for the intended writer on all models within the bounds (exhaustively for "
         "<= 3 tree nodes, simulated up to 8 nodes with 2 classes, 4 leaf kinds, 4 kinds outside the tree, keyframes "
         "and 31 optional feature groups covering the other element kinds, default classes of every kind, assets and "
         "compiler settings) and computes what the code's named deviations return; the real writer and reader are run "
         "on every such model (strings and, for every 8th, files) and on the shipped example models.",
    note="The XML tokenizer/printer is the /verif shim (shim/fullxml/tinyxml2.h), not tinyxml2: character-level "
         "behaviour of tinyxml2 is not covered. Meshes needing qhull, PNG/OBJ/STL decoders and the plugin library "
         "are unavailable offline, so example models using them are skipped. Abstract attributes a/b/i are bound to "
         "a rotating choice of concrete double/int attributes per kind (float-typed attributes only through the "
         "feature groups and the example models). Trusted: TLC, the shim, harness/xmlrt_drv.cc, the attribute table "
         "below.",
    ref="DESIGN.md section 4 C32")

OBJ = dict(body=1, joint=3, geom=5, site=6, camera=7, light=8, pair=15, equality=17, tendon=18, general=19, key=24)
LINEKIND = dict(geom="geom", joint="joint", site="site", camera="camera", pair="pair", equality="equality",
                tendon="tendon", general="actuator")


def A(key, dflt, field, per=1, off=0, via=None, vec=None, idx=0):
    return dict(key=key, dflt=dflt, field=field, per=per, off=off, via=via, vec=vec, idx=idx)


# concrete attributes the abstract ones stand for (double-typed for a/b, int-typed for i)
REAL = {
    "geom": [A("friction", 1.0, "geom_friction", 3, 0), A("solmix", 1.0, "geom_solmix"), A("margin", 0.0, "geom_margin"),
             A("gap", 0.0, "geom_gap"), A("solref", 0.02, "geom_solref", 2, 0)],
    "joint": [A("damping", 0.0, "dof_damping", 1, 0, "jnt_dofadr"), A("armature", 0.0, "dof_armature", 1, 0, "jnt_dofadr"),
              A("stiffness", 0.0, "jnt_stiffness"), A("frictionloss", 0.0, "dof_frictionloss", 1, 0, "jnt_dofadr"),
              A("margin", 0.0, "jnt_margin"), A("ref", 0.0, "qpos0", 1, 0, "jnt_qposadr"),
              A("springref", 0.0, "qpos_spring", 1, 0, "jnt_qposadr")],
    "site": [A("size", 0.005, "site_size", 3, 0, vec=(0.005, 0.005, 0.005), idx=0),
             A("size", 0.005, "site_size", 3, 1, vec=(0.005, 0.005, 0.005), idx=1),
             A("size", 0.005, "site_size", 3, 2, vec=(0.005, 0.005, 0.005), idx=2)],
    "camera": [A("fovy", 45.0, "cam_fovy"), A("ipd", 0.068, "cam_ipd")],
    "body": [A("gravcomp", 0.0, "body_gravcomp"), A("ipos", 0.0, "body_ipos", 3, 0, vec=(0.0, 0.0, 0.0), idx=0)],
    "pair": [A("margin", 0.0, "pair_margin"), A("gap", 0.0, "pair_gap"), A("solref", 0.02, "pair_solref", 2, 0),
             A("friction", 1.0, "pair_friction", 5, 0)],
    "general": [A("gear", 1.0, "actuator_gear", 6, 0), A("gainprm", 1.0, "actuator_gainprm", 10, 0),
                A("biasprm", 0.0, "actuator_biasprm", 10, 1, vec=(0.0, 0.0), idx=1)],
    "tendon": [A("stiffness", 0.0, "tendon_stiffness"), A("damping", 0.0, "tendon_damping"),
               A("frictionloss", 0.0, "tendon_frictionloss"), A("margin", 0.0, "tendon_margin"),
               A("armature", 0.0, "tendon_armature")],
    "equality": [A("solref", 0.02, "eq_solref", 2, 0, vec=(0.02, 1.0), idx=0), A("solref", 1.0, "eq_solref", 2, 1, vec=(0.02, 1.0), idx=1)],
}
INT = {
    "geom": [A("contype", 1, "geom_contype"), A("conaffinity", 1, "geom_conaffinity"), A("condim", 3, "geom_condim"),
             A("group", 0, "geom_group"), A("priority", 0, "geom_priority")],
    "joint": [A("group", 0, "jnt_group")],
    "site": [A("group", 0, "site_group")],
    "camera": [A("mode", 0, "cam_mode")],
    "body": [],
    "pair": [A("condim", 3, "pair_dim")],
    "general": [A("group", 0, "actuator_group")],
    "tendon": [A("group", 0, "tendon_group")],
    "equality": [],
}
INTVALS = {"condim": (4, 6), "contype": (2, 3), "conaffinity": (2, 3)}
REALVAL = {"s1": 0.5, "s2": 0.25, "L": 0.123456789012, "N": 2.0000000000000004}
REALVAL["Lt"] = float("%.6g" % REALVAL["L"])
REALVAL["I"] = 2.0

# optional feature groups: model lines on the substrate (bodies xb / xc, joints xj / xk, geoms xg xh xi, sites xs xt)
SUBSTRATE = [
    "cbody name=xb pos=0,0,4", "cjoint body=xb name=xj type=3 axis=0,1,0", "cgeom body=xb name=xg type=2 size=0.25",
    "csite body=xb name=xs pos=0,0,0.5",
    "cbody name=xc parent=xb pos=1,0,0", "cjoint body=xc name=xk type=2 axis=1,0,0",
    "cgeom body=xc name=xh type=6 size=0.25,0.25,0.25", "cgeom body=xc name=xi type=2 size=0.125 pos=0,1,0", "csite body=xc name=xt"]
FEATURES = {
    "pair": ["cpair name=fp geomname1=xg geomname2=xh condim=4 friction=0.5,0.5,0.25,0.125,0.125 margin=0.5 gap=0.25 "
             "solref=0.5,2 solimp=0.5,0.75,0.25,0.5,1 solreffriction=0.25,1"],
    "exclude": ["exclude name=fe bodyname1=xb bodyname2=xc"],
    "equality": ["cequality name=fq1 type=0 objtype=1 name1=xb name2=xc data=0.5,0,0",
                 "cequality name=fq2 type=1 objtype=6 name1=xs name2=xt",
                 "cequality name=fq3 type=2 name1=xj name2=xk data=0.5,2,0,0,0 active=0 solref=0.5,2"],
    "tendon": ["ctendon name=ft1 stiffness=2 damping=0.5 range=0,1 limited=1 margin=0.25", "wrapjoint tendon=ft1 joint=xj coef=2",
               "wrapjoint tendon=ft1 joint=xk coef=0.5",
               "ctendon name=ft2 springlength=0.5,0.75 frictionloss=0.5 armature=0.25", "wrapsite tendon=ft2 site=xs",
               "wrapsite tendon=ft2 site=xt"],
    "actuator": ["cactuator name=fa1 trntype=0 target=xj gear=2 ctrllimited=1 ctrlrange=-1,1 forcelimited=1 forcerange=-2,2",
                 "cactuator name=fa2 trntype=0 target=xk gaintype=0 gainprm=2 biastype=1 biasprm=0,-2,-0.5",
                 "cactuator name=fa3 trntype=0 target=xj dyntype=2 dynprm=0.5 actlimited=1 actrange=-1,1 actearly=1",
                 "cactuator name=fa4 trntype=4 target=xs refsite=xt gear=1,0,0,0,0,0", "cactuator name=fa5 trntype=5 target=xb"],
    "sensor": ["sensor name=fs1 type=9 objtype=3 objname=xj", "sensor name=fs2 type=0 objtype=6 objname=xs cutoff=0.5",
               "sensor name=fs3 type=28 objtype=6 objname=xs reftype=1 refname=xc noise=0.5",
               "sensor name=fs4 type=3 objtype=6 objname=xs"],
    "custom": ["numeric name=fn size=3 data=1,2,3", "text name=ft data=abc",
               "tuple name=fu objtype=1,6 objname=xb,xs objprm=0.5,0"],
    "asset": ["texture name=ftx type=0 builtin=2 width=4 height=4 rgb1=0.5,0.5,0.5",
              "cmaterial name=fm rgba=0.5,0.25,0.125,1 emission=0.5 specular=0.25 shininess=0.75 reflectance=0.25",
              "cgeom body=xb name=fmg type=2 size=0.125 material=fm",
              "hfield name=fh nrow=2 ncol=3 size=1,1,1,0.5 userdata=0,0.5,1,0.25,0.75,0.5",
              "cbody name=fhb pos=0,0,-8", "cgeom body=fhb name=fhg type=1 hfieldname=fh"],
    "mocap": ["cbody name=fmb mocap=1 pos=1,2,3 quat=0,0,1,0", "cgeom body=fmb name=fmbg type=2 size=0.25 contype=0 conaffinity=0"],
    "option": ["option timestep=0.25 integrator=1 cone=1 jacobian=1 solver=1 iterations=50 tolerance=0.5 impratio=2 "
               "gravity=0,0,-1 wind=1,0,0 density=0.5 viscosity=0.25 disableflags=5 enableflags=3 noslip_iterations=2"],
    "size": ["size memory=65536 nuserdata=3 nuser_body=2 nuser_geom=1", "cbody name=fub userdata=1,2"],
    "camlight": ["ccamera body=xb name=fc1 pos=0,0,2 fovy=30 ipd=0.125 resolution=64,32",
                 "clight body=xb name=fl1 pos=0,0,3 dir=0,0,-1 castshadow=0 attenuation=0.5,0.25,0.125 cutoff=30 exponent=5 "
                 "diffuse=0.5,0.5,0.25 specular=0.25,0.25,0.25 ambient=0.125,0,0",
                 "ccamera body=xc name=fc2 mode=3 targetbody=xb"],
    "inertial": ["cbody name=fib pos=0,1,4 mass=2 ipos=0.5,0,0 inertia=1,2,2.5 explicitinertial=1", "cjoint body=fib name=fij type=3",
                 "cbody name=fgb pos=0,2,4 gravcomp=0.5", "cgeom body=fgb name=fgg type=2 size=0.25", "freejoint body=fgb name=ffj"],
    "deform": ["skin name=fsk body=xb", "cbody name=ff1 pos=0,0,6", "cbody name=ff2 pos=1,0,6", "cjoint body=ff1 name=ffj1 type=2",
               "cjoint body=ff2 name=ffj2 type=2", "cgeom body=ff1 name=ffg1 type=2 size=0.25", "cgeom body=ff2 name=ffg2 type=2 size=0.25",
               "flex name=ffx bodies=ff1,ff2 dim=1"],
    "plugin": ["activate plugin=verif.state", "bodyplugin body=xb plugin=verif.state"],
    # default classes of every kind carrying (nearly) every attribute the harness can set, and an element using them
    "dgeom": ["default name=fdg parent=main",
              "dgeom class=fdg type=6 size=0.25,0.125,0.5 contype=2 conaffinity=3 condim=4 priority=1 friction=0.5,0.25,0.125 "
              "solmix=2 solref=0.5,2 solimp=0.5,0.75,0.25,0.5,1 margin=0.5 gap=0.25 density=500 rgba=0.5,0.25,0.125,1 group=2 fitscale=2",
              "cgeom body=xc name=fdge class=fdg pos=0,2,0"],
    "djoint": ["default name=fdj parent=main",
               "djoint class=fdj type=3 axis=1,0,0 pos=0.5,0,0 ref=0.5 springref=0.25 stiffness=2 armature=0.5 damping=0.25 frictionloss=0.25 "
               "margin=0.125 range=-1,1 limited=1 actfrclimited=1 actfrcrange=-1,1 group=2 solref_limit=0.5,2 "
               "solimp_limit=0.5,0.75,0.25,0.5,1 solref_friction=0.25,1 solimp_friction=0.5,0.75,0.25,0.5,1 actgravcomp=1",
               "cjoint body=xc name=fdje class=fdj"],
    "dsite": ["default name=fds parent=main", "dsite class=fds type=6 size=0.125,0.25,0.5 group=3 rgba=1,0,0,0.5",
              "csite body=xc name=fdse class=fds pos=0,0,1"],
    "dcamlight": ["default name=fdc parent=main", "dcamera class=fdc fovy=30 ipd=0.125 resolution=64,32 mode=1",
                  "dlight class=fdc castshadow=0 attenuation=0.5,0.25,0.125 cutoff=30 exponent=5 diffuse=0.5,0.5,0.25 specular=0.25,0.25,0.25 "
                  "ambient=0.125,0,0 bulbradius=0.25 intensity=2 range=5 active=0",
                  "ccamera body=xc name=fdce class=fdc pos=0,0,2", "clight body=xc name=fdle class=fdc pos=0,0,3"],
    "dpair": ["default name=fdp parent=main",
              "dpair class=fdp condim=4 friction=0.5,0.5,0.25,0.125,0.125 margin=0.5 gap=0.25 solref=0.5,2 solimp=0.5,0.75,0.25,0.5,1 solreffriction=0.25,1",
              "cpair name=fdpe class=fdp geomname1=xg geomname2=xi"],
    "dequality": ["default name=fdq parent=main", "dequality class=fdq solref=0.5,2 solimp=0.5,0.75,0.25,0.5,1 active=0",
                  "cequality name=fdqe class=fdq type=0 objtype=1 name1=xb name2=xc data=0.25,0,0"],
    "dtendon": ["default name=fdt parent=main",
                "dtendon class=fdt stiffness=2 damping=0.5 frictionloss=0.25 margin=0.25 range=0,1 limited=1 group=2 springlength=0.5,0.75 "
                "solref_limit=0.5,2 solimp_limit=0.5,0.75,0.25,0.5,1",
                "ctendon name=fdte class=fdt", "wrapjoint tendon=fdte joint=xk coef=2"],
    "dtendon2": ["default name=fdu parent=main", "dtendon class=fdu actfrclimited=1 actfrcrange=-1,1",
                 "ctendon name=fdue class=fdu", "wrapjoint tendon=fdue joint=xk coef=2"],
    "dgeneral": ["default name=fda parent=main",
                 "dactuator class=fda gear=2 gainprm=2 biastype=1 biasprm=0,-2,-0.5 dyntype=2 dynprm=0.5 ctrllimited=1 ctrlrange=-1,1 "
                 "forcelimited=1 forcerange=-2,2 actlimited=1 actrange=-1,1 group=2 cranklength=0.5 actearly=1",
                 "cactuator name=fdae class=fda trntype=0 target=xk"],
    "dmaterial": ["default name=fdm parent=main",
                  "dmaterial class=fdm rgba=0.5,0.25,0.125,1 emission=0.5 specular=0.25 shininess=0.75 reflectance=0.25 metallic=0.5 roughness=0.25 "
                  "texrepeat=2,2 texuniform=1",
                  "cmaterial name=fdme class=fdm", "cgeom body=xc name=fdmg type=2 size=0.125 pos=0,3,0 material=fdme"],
}
FEATURES["meshlong"] = [
    "cmesh name=fml uservert=0,0,0,1,0,0,0,1,0,0,0,1.123456789 userface=0,2,1,0,1,3,0,3,2,1,2,3 inertia=1",
    "cgeom body=xc name=fmlg type=7 meshname=fml contype=0 conaffinity=0 pos=0,4,0"]
FEATURES["hfieldlong"] = ["hfield name=fhl nrow=2 ncol=3 size=1,1,1,0.5 userdata=0,0.5,1,0.25,0.75,0.123456789",
                          "cbody name=fhlb pos=0,0,-16", "cgeom body=fhlb name=fhlg type=1 hfieldname=fhl"]
FEATURES["settotalmass"] = ["compiler settotalmass=8"]
FEATURES["lengthrange"] = ["compiler lr_uselimit=1",
                           "cbody name=flb pos=0,6,4 mass=1 inertia=1,1,1 explicitinertial=1",
                           "cjoint body=flb name=flj type=2 range=-1,1 limited=1",
                           "cactuator name=flra trntype=0 target=flj gear=2 gaintype=2 biastype=2 dyntype=4 dynprm=0.01,0.04 "
                           "gainprm=0.75,1.05,-1,200,0.5,1.6,1.5,1.3,1.2 biasprm=0.75,1.05,-1,200,0.5,1.6,1.5,1.3,1.2"]
FEATURES["inertiagroup"] = ["compiler inertiagrouprange=0,2", "cgeom body=xc name=figg type=2 size=0.125 pos=0,5,0 group=4"]
FEATURES["balance"] = ["compiler balanceinertia=1",
                       "cbody name=fbb pos=0,3,4 mass=2 inertia=1,1,4 explicitinertial=1", "cjoint body=fbb name=fbj type=3"]
# lengthrange mode "all" needs every actuator to have a bounded length: used only when the feature's own actuator
# is the only one in the model, otherwise the muscle variant above (default mode) is rendered
LENGTHRANGE_ALL = ["compiler lr_mode=3 lr_uselimit=1",
                   "cbody name=flb pos=0,6,4 mass=1 inertia=1,1,1 explicitinertial=1",
                   "cjoint body=flb name=flj type=2 range=-1,1 limited=1", "cactuator name=flra trntype=0 target=flj gear=2"]
FEATSEQ = ["pair", "exclude", "equality", "tendon", "actuator", "sensor", "custom", "asset", "mocap", "option", "size",
           "camlight", "inertial", "deform", "plugin", "dgeom", "djoint", "dsite", "dcamlight", "dpair", "dequality",
           "dtendon", "dtendon2", "dgeneral", "dmaterial", "meshlong", "hfieldlong", "settotalmass", "lengthrange", "inertiagroup",
           "balance"]
# features whose compiled numbers involve arithmetic in the writer (mesh frames are inverted): compared to 1e-9
INEXACT = {"meshlong"}
FRAMEQUAT = ["0,1,0,0", "0,0,1,0", "0,0,0,1"]
AXES = ["1,0,0", "0,1,0", "0,0,1"]


def harness():
    srcs = [os.path.join(VERIF, "harness", "xmlrt_drv.cc")] + sorted(glob.glob(os.path.join(build.REPO, "src", "xml", "*.cc")))
    return build.build_harness("xmlrt_drv", srcs, extra=["-I" + os.path.join(VERIF, "shim", "fullxml")],
                               ldflags=["-rdynamic"])


def fnum(x):
    return repr(float(x)) if not float(x).is_integer() else str(int(x))


class Binding:
    """concrete attributes for the abstract ones, rotating with the case number"""

    def __init__(self, n):
        self.n = n

    def spec(self, kind, a):
        if a == "i":
            tab = INT.get(kind, [])
            return tab[self.n % len(tab)] if tab else None
        tab = REAL.get(kind, [])
        if not tab:
            return None
        j = {"a": 0, "b": 1}.get(a, 2)
        if j >= len(tab):
            return None
        return tab[(self.n + j) % len(tab)]

    def value(self, kind, a, tok):
        """concrete number for an abstract value token (None: attribute not bound for this kind)"""
        sp = self.spec(kind, a)
        if sp is None:
            return None
        if tok == "d":
            return float(sp["dflt"])
        if a == "i":
            lo, hi = INTVALS.get(sp["key"], (1, 2))
            return float({"s1": lo, "s2": hi}[tok])
        return REALVAL[tok]

    def assigns(self, kind, vals, base):
        """'key=value' tokens that turn an element created with the abstract values `base` into one with `vals`
        (a vector attribute is written in full, from the effective values of all its bound components)"""
        out, done = [], set()
        for a in sorted(vals):
            sp = self.spec(kind, a)
            if sp is None or vals[a] == base[a] or sp["key"] in done:
                continue
            done.add(sp["key"])
            if sp["vec"] is None:
                out.append("%s=%s" % (sp["key"], fnum(self.value(kind, a, vals[a]))))
                continue
            v = list(sp["vec"])
            for b in sorted(vals):
                sb = self.spec(kind, b)
                if sb is not None and sb["key"] == sp["key"]:
                    v[sb["idx"]] = self.value(kind, b, vals[b])
            out.append("%s=%s" % (sp["key"], ",".join(fnum(y) for y in v)))
        return out


def as_dict(x):
    return x if isinstance(x, dict) else {}


def model_lines(st, bind):
    """mjSpec description (harness language) of a TLC model"""
    defs, nodes, tops, keys = st["defs"], st["nodes"], st["tops"], st["keys"]
    L = ["size modelname=rt"]
    for c in st["dorder"]:
        L.append("default name=%s parent=%s" % (c, defs[c]["parent"]))
    # every class is created before any default is edited, so each starts as a copy of the built-in table
    for c in ["main"] + list(st["dorder"]):
        for k in sorted(defs[c]["v"]):
            tab = defs[c]["v"][k]
            parts = bind.assigns(k, tab, {a: "d" for a in tab})
            if parts:
                L.append("d%s class=%s %s" % (LINEKIND[k], c, " ".join(parts)))

    def owner(i):
        c = nodes[i - 1]["up"]
        while c != 0 and nodes[c - 1]["t"] != "body":
            c = nodes[c - 1]["up"]
        return c

    def bname(b):
        return "world" if b == 0 else "n%d" % b

    njoint = {}
    for i, n in enumerate(nodes, 1):
        up = n["up"]
        fr = " frame=n%d" % up if up != 0 and nodes[up - 1]["t"] == "frame" else ""
        b = owner(i)
        if n["t"] == "body":
            parts = bind.assigns("body", n["v"], {a: "d" for a in n["v"]})
            base = "cbody name=n%d parent=%s%s class=%s pos=%s,0,0.5 mass=1 inertia=1,1,1 ipos=0,0,0 explicitinertial=1" % (
                i, bname(b), fr, n["cls"], fnum(0.25 * i))
            L.append(" ".join([base] + parts))
        elif n["t"] == "frame":
            L.append("cframe name=n%d body=%s%s%s%s pos=0,0.5,0 quat=%s" % (
                i, bname(b), fr, " class=%s" % n["cls"] if n["cls"] else "", "" if n["named"] else " anon=1",
                FRAMEQUAT[i % 3]))
        else:
            k = n["t"]
            parts = bind.assigns(k, n["v"], defs[n["cls"]]["v"][k])
            fixed = {"geom": "type=2 size=0.25 pos=%s,0,0" % fnum(0.125 * i),
                     "site": "type=6 pos=0,%s,0" % fnum(0.125 * i),
                     "camera": "pos=0,0,%s" % fnum(0.125 * i)}.get(k)
            if k == "joint":
                j = njoint.get(b, 0)
                njoint[b] = j + 1
                fixed = "type=2 axis=%s" % AXES[j % 3] if j < 3 else "type=3 axis=%s pos=0,0,%s" % (AXES[j % 3], fnum(0.125 * j))
            L.append(" ".join(["c%s name=n%d body=%s%s class=%s %s" % (LINEKIND[k], i, bname(b), fr, n["cls"], fixed)] + parts))
    feats = [FEATSEQ[f - 1] for f in sorted(st["feats"])]
    if tops or feats:
        L += SUBSTRATE
    pairs = [("xg", "xh"), ("xg", "xi"), ("xh", "xi")]
    npair = 0
    for j, e in enumerate(tops, 1):
        k = e["k"]
        parts = bind.assigns(k, e["v"], defs[e["cls"]]["v"][k])
        head = "c%s name=t%d class=%s" % (LINEKIND[k], j, e["cls"])
        if k == "pair":
            g = pairs[npair % 3]
            npair += 1
            head += " geomname1=%s geomname2=%s" % g
        elif k == "general":
            head += " trntype=0 target=xj"
        elif k == "equality":
            head += " type=0 objtype=1 name1=xb name2=xc data=0,0,0"
        L.append(" ".join([head] + parts))
        if k == "tendon":
            L.append("wrapjoint tendon=t%d joint=xj coef=1" % j)
    for x, ky in enumerate(keys, 1):
        L.append("key%s%s" % (" name=k%d" % ky["name"] if ky["name"] else "", " time=0.5" if ky["t"] != "d" else ""))
    others = any(e["k"] == "general" for e in tops) or any(f in ("actuator", "dgeneral") for f in feats)
    for f in feats:
        L += LENGTHRANGE_ALL if f == "lengthrange" and not others else FEATURES[f]
    return L


def view_checks(view, st, bind, keytime):
    """what a compiled model must show for an abstract compiled view: {query line suffix: expected output}"""
    exp = {}
    nm = lambda x: "world" if x == 0 else "n%d" % x
    exp["names %d" % OBJ["body"]] = ["n%d:%s" % (b["name"], nm(b["parent"])) for b in view["bodies"]]
    for b in view["bodies"]:
        for a, tok in sorted(b["v"].items()):
            sp = bind.spec("body", a)
            if sp:
                exp[fld_query("body", "n%d" % b["name"], sp)] = bind.value("body", a, tok)
    for k, seq in sorted(as_dict(view["leaves"]).items()):
        exp["names %d" % OBJ[k]] = ["n%d:%s" % (e["name"], nm(e["body"])) for e in seq]
        for e in seq:
            for a, tok in sorted(e["v"].items()):
                sp = bind.spec(k, a)
                if sp:
                    exp[fld_query(k, "n%d" % e["name"], sp)] = bind.value(k, a, tok)
    bykind = {}
    for j, e in enumerate(view["tops"], 1):
        bykind.setdefault(e["k"], []).append("t%d" % j)
        for a, tok in sorted(e["v"].items()):
            sp = bind.spec(e["k"], a)
            if sp:
                exp[fld_query(e["k"], "t%d" % j, sp)] = bind.value(e["k"], a, tok)
    for k, names in bykind.items():
        exp["names %d" % OBJ[k]] = names
    exp["names %d" % OBJ["key"]] = ["k%d" % ky["name"] if ky["name"] else "-" for ky in view["keys"]]
    exp["mget key_time"] = [keytime[ky["t"]] for ky in view["keys"]]
    return exp


def fld_query(kind, name, sp):
    q = "fld %d %s %s %d %d" % (OBJ[kind], drv.hx(name), sp["field"], sp["per"], sp["off"])
    if sp["via"]:
        q += " " + sp["via"]
    return q


def filter_names(line):
    """'n a:b c:d ...' -> names without the substrate / feature elements and the world body"""
    t = line.split()
    out = []
    for x in t[1:]:
        n = x.split(":")[0]
        if n == "world" or n[0] in "xf":
            continue
        out.append(x)
    return out


KEYTIME = {"d": 0.0, "s1": 0.5}
NOUT = 6      # outputs of the fixed part of a case: precision, rtmodel block, rt, mcmp, traj, traj


def case_script(st, bind, tmpfile=None):
    """harness lines of one case, the queries whose answers are compared, and the two expectations;
    tmpfile: go through mj_saveXML / mj_parseXML and a file instead of the string functions"""
    ev = st["ev"]
    p = ev["prec"]
    mlines = model_lines(st, bind)
    inexact = any(FEATSEQ[f - 1] in INEXACT for f in st["feats"])
    lines = ["precision %d" % p, "rtmodel 1"] + mlines + ["end", "rtfile 1 2 " + drv.hx(tmpfile) if tmpfile else "rt 1 2",
             "mcmp 1 2" + (" 1e-5" if p == 6 else " 1e-9" if inexact else ""), "traj 1 3", "traj 2 3"]
    want_model = view_checks(ev["model"], st, bind, KEYTIME)
    want_code = view_checks(ev["code"], st, bind, KEYTIME)
    queries = sorted(set(want_model) | set(want_code))
    for q in queries:
        for m in (1, 2):
            t = q.split(" ", 1)
            lines.append("%s %d %s" % (t[0], m, t[1]))
    return lines, mlines, queries, want_model, want_code


def answer(q, line):
    if line == "nomodel":
        return line
    if q.startswith("names"):
        return filter_names(line)
    if q.startswith("mget"):
        return [float(x) for x in line.split()[1:]]
    if line in ("noid", "range"):
        return line
    return float(line)


def same(want, got, p6):
    if isinstance(want, list):
        if not isinstance(got, list) or len(want) != len(got):
            return False
        return all(same(w, g, p6) for w, g in zip(want, got))
    if isinstance(want, float) and isinstance(got, float):
        return want == got or (p6 and abs(want - got) <= 2e-6 * (1 + abs(want)))
    return want == got


def mismatch(want, got, p6):
    for q in sorted(want):
        if not same(want[q], got.get(q), p6):
            return q
    return None


def fail_class(msg):
    """class of a save / parse / compile failure (for signatures)"""
    import re
    m = re.search(r"unrecognized attribute: '(\w+)'\|Element '(\w+)'", msg)
    if m:
        return ":unrecognized-attribute:%s.%s" % (m.group(2), m.group(1))
    m = re.search(r"(Schema violation: [a-z ]+)", msg)
    if m:
        return ":" + m.group(1).replace(" ", "-")
    return ""


def classify_arrays(diffline):
    """'ne field idx a b ...' -> class of the array mismatch (for signatures)"""
    t = diffline.split()[1:]
    items = [(t[i], float(t[i + 2]), float(t[i + 3])) for i in range(0, len(t) - 3, 4)]
    near = [f for f, a, b in items if b == round(b) and a != b and abs(a - b) <= 1e-12]
    if near and all(abs(a - b) <= 1e-9 * (1 + abs(a)) for f, a, b in items):
        return "nearint"
    return "field-" + items[0][0] if items else "unknown"


SELECT = {"defs", "dorder", "nodes", "tops", "keys", "feats", "ev"}


def read_states(cfg, timeout):
    sel = lambda blk: SELECT if '/\\ phase = "read"' in blk else None
    res, states, cleanup = tladump.run_dump(SPEC, os.path.join(TLA, cfg), timeout=timeout, coverage=True, select=sel)
    try:
        sts = list(states())
    finally:
        cleanup()
    # TLC's workers dump states in a varying order: fix the order (case numbers select the concrete attributes)
    sts.sort(key=lambda st: repr(key_of(st)))
    return res, sts


def sim_states(cfg, num, depth, seed, timeout):
    sel = lambda act, blk: SELECT if '/\\ phase = "read"' in blk else None
    res, behs = tladump.simulate(SPEC, os.path.join(TLA, cfg), num=num, depth=depth, seed=seed, timeout=timeout, select=sel)
    return res, [b[-1][1] for b in behs if b]


def key_of(st):
    return tlc.to_py({k: st[k] for k in ("defs", "dorder", "nodes", "tops", "keys", "feats")}), st["ev"]["prec"]


def structure(st):
    """coarse structural class of a model (for violation texts)"""
    t = [n["t"] for n in st["nodes"]]
    return "classes=%d bodies=%d frames=%d leaves=%d tops=%d keys=%d" % (
        len(st["dorder"]), t.count("body"), t.count("frame"), len(t) - t.count("body") - t.count("frame"),
        len(st["tops"]), len(st["keys"]))


def run_cases(ctx, exe, states, label, first_case=0):
    """replay TLC models into the implementation; returns number of cases"""
    lines, index, nout = [], [], 0
    tmpdir = tempfile.mkdtemp(prefix="c32", dir=os.path.join(VERIF, ".cache"))
    for n, st in enumerate(states):
        bind = Binding(first_case + n)
        # every 8th case travels through a file (mj_saveXML / mj_parseXML), the others through strings
        l, mlines, queries, wm, wc = case_script(st, bind, os.path.join(tmpdir, "m.xml") if n % 8 == 3 else None)
        index.append((nout, l, mlines, queries, wm, wc, st, first_case + n))
        nout += NOUT + 2 * len(queries)
        lines += l
    if not lines:
        shutil.rmtree(tmpdir, ignore_errors=True)
        return 0
    try:
        r = drv.run_script(exe, lines, timeout=3000)
    finally:
        shutil.rmtree(tmpdir, ignore_errors=True)
    if r.crashed or len(r.lines) != nout:
        k = len(r.lines)
        bad = next((ix for ix in index if ix[0] <= k < ix[0] + NOUT + 2 * len(ix[3])), index[-1])
        what = "harness died (%s) in %s case: %s | outputs of the case %r" % (
            r.crash_text(), label, " ; ".join(bad[1][:60]), [x[:200] for x in r.lines[bad[0]:bad[0] + 4]])
        if any(x.startswith("MKMODEL-ERROR") for x in r.lines[-2:]) or not r.crashed:
            raise Machinery(what)
        ctx.violation("crash", what, {"script": bad[1], "queries": bad[3], "want": bad[4], "prec": bad[6]["ev"]["prec"]})
        return 0
    ctrl = False
    for off, script, mlines, queries, wm, wc, st, bind_n in index:
        ev = st["ev"]
        p6 = ev["prec"] == 6
        out = r.lines[off:off + NOUT + 2 * len(queries)]
        built, rt, cmpres, tr1, tr2 = out[1:6]
        nontrivial = len(st["nodes"]) + len(st["tops"]) + len(st["keys"]) > 0
        ctx.case(key_of(st), nontrivial=nontrivial,
                 sample={"model": mlines[:12], "prec": ev["prec"], "lost": sorted(ev["lost"])})
        desc = " ; ".join(mlines[1:])
        if built != "ok":
            raise Machinery("model of TLC state does not compile (%s): %s" % (built, desc))
        rep = {"script": script, "queries": queries, "want": wm, "prec": ev["prec"]}
        if rt != "ok":
            ctx.violation("rt:%s-fails%s" % (rt.split()[1].rstrip(":"), fail_class(rt)), "round trip fails (%s) for %s: %s" % (rt, structure(st), desc), rep)
            continue
        got1, got2 = {}, {}
        for j, q in enumerate(queries):
            got1[q] = answer(q, out[NOUT + 2 * j])
            got2[q] = answer(q, out[NOUT + 2 * j + 1])
        m1 = mismatch(wm, got1, False)
        if m1 is not None:
            raise Machinery("binding: the original model does not show the specification's view at %r: want %r got %r | %s"
                            % (m1, wm[m1], got1.get(m1), desc))
        if not ctrl:
            bad = dict(wm)
            q0 = next(q for q in sorted(bad) if q.startswith("names"))
            bad[q0] = list(bad[q0]) + ["n99:world"]
            ctx.control("comparer flags a perturbed expected view", mismatch(bad, got2, p6) is not None)
            ctrl = True
        mm = mismatch(wm, got2, p6)
        if mm is None:
            if cmpres != "eq":
                cls = classify_arrays(cmpres)
                only = [FEATSEQ[f - 1] for f in st["feats"]]
                if len(only) == 1 and not st["nodes"] and not st["tops"] and not st["keys"] and cls != "nearint":
                    cls = "feature-" + only[0]
                ctx.violation("rt:nearint" if cls == "nearint" else "rt:arrays:" + cls, "reloaded model differs from the original in compiled arrays although the "
                              "projected view agrees (%s): %s | %s" % (structure(st), cmpres[:300], desc), rep)
                continue
            if tr1 != tr2 and not p6 and not any(FEATSEQ[f - 1] in INEXACT for f in st["feats"]):
                ctx.violation("rt:trajectory", "equal compiled arrays but different 3-step trajectory: %s" % desc, rep)
                continue
            ctx.trace_ok()
            continue
        mc = mismatch(wc, got2, p6)
        lost = sorted(ev["lost"])
        if mc is None and (lost or not ev["contiguous"]):
            # the implementation returns exactly what the named deviations predict: one finding per deviation
            what = ("saved MJCF compiles to a different model, as the writer deviation(s) %s predict: %s is %r in the original "
                    "and %r after the round trip (%s); model: %s" % (lost or ["non-contiguous frame"], mm, wm[mm], got2.get(mm),
                                                                      structure(st), desc))
            for d in (lost or ["noncontiguous-frames"]):
                ctx.violation("rt:" + d, what, rep)
        elif any(mismatch(view_checks(v, st, Binding(bind_n), KEYTIME), got2, p6) is None for v in as_dict(ev["single"]).values()):
            # the implementation shows exactly one of the deviations (others are absent from this tree)
            keytime = KEYTIME
            for d, v in sorted(as_dict(ev["single"]).items()):
                if mismatch(view_checks(v, st, Binding(bind_n), keytime), got2, p6) is None:
                    ctx.violation("rt:" + d, "saved MJCF compiles to a different model, as the writer deviation %r alone predicts: "
                                  "%s is %r in the original and %r after the round trip (%s); model: %s" % (
                                      d, mm, wm[mm], got2.get(mm), structure(st), desc), rep)
                    break
        else:
            sig = "rt:unpredicted:" + mm.split()[0] + (":" + mm.split()[3] if mm.startswith("fld") else "")
            what = ("saved MJCF compiles to a different model: %s is %r in the original and %r after the round trip "
                    "(specification's code prediction: %r; %s); model: %s" % (
                        mm, wm[mm], got2.get(mm), wc.get(mm), structure(st), desc))
            ctx.violation(sig, what, rep)
    return len(index)


def example_files(quick):
    root = build.REPO
    fs = sorted(glob.glob(os.path.join(root, "model", "**", "*.xml"), recursive=True))
    if quick:
        fs = [f for f in fs if os.path.getsize(f) < 6000][:40]
    else:
        fs += sorted(glob.glob(os.path.join(root, "test", "**", "*.xml"), recursive=True))
    return fs


def run_examples(ctx, exe, quick):
    """shipped example models: parse, compile, save at full precision, parse the saved text, compile, compare"""
    files = example_files(quick)
    first = ["precision 17"]
    for f in files:
        first += ["parsefile 1 " + drv.hx(f), "compile 1 1", "savexml 1"]
    r = drv.run_script(exe, first, timeout=3000)
    if r.crashed or len(r.lines) != len(first):
        raise Machinery("example pass 1 died: %s" % r.crash_text())
    usable = []
    for i, f in enumerate(files):
        p, c, s = r.lines[1 + 3 * i: 4 + 3 * i]
        if p == "ok" and c == "ok" and not s.startswith("error") and len(s) > 20:
            usable.append((f, s))
        elif p == "ok" and c == "ok":
            ctx.violation("rt:example-save-fails", "%s compiles but cannot be saved: %s" % (os.path.relpath(f, build.REPO), s[:200]),
                          {"file": os.path.relpath(f, build.REPO)})
    second = ["precision 17"]
    for f, s in usable:
        second += ["parsefile 1 " + drv.hx(f), "compile 1 1", "parsexml 2 " + s, "setdir 2 " + drv.hx(os.path.dirname(f) + "/"),
                   "compile 2 2", "mdiff 1 2 1e-9"]
    r = drv.run_script(exe, second, timeout=3000)
    outs = {}
    if r.crashed or len(r.lines) != len(second):
        # the harness died inside the reader or compiler: find the file(s), one process per file
        for i, (f, s) in enumerate(usable):
            ri = drv.run_script(exe, ["precision 17"] + second[1 + 6 * i: 7 + 6 * i], timeout=600)
            if ri.crashed or len(ri.lines) != 7:
                ctx.case({"example": os.path.relpath(f, build.REPO)}, nontrivial=True)
                ctx.violation("rt:example-crash", "%s: the harness dies (%s) while loading the saved MJCF" % (
                    os.path.relpath(f, build.REPO), ri.crash_text()), {"file": os.path.relpath(f, build.REPO)})
            else:
                outs[i] = ri.lines[1:7]
    else:
        outs = {i: r.lines[1 + 6 * i: 7 + 6 * i] for i in range(len(usable))}
    nok = 0
    for i, (f, s) in enumerate(usable):
        if i not in outs:
            continue
        o = outs[i]
        rel = os.path.relpath(f, build.REPO)
        ctx.case({"example": rel}, nontrivial=True)
        rep = {"file": rel}
        if o[2] != "ok" or o[4] != "ok":
            ctx.violation("rt:example-reload-fails", "%s: saved MJCF does not load: %s" % (rel, (o[2] + " " + o[4])[:300]), rep)
        elif o[5] != "eq":
            cls = classify_arrays(o[5])
            fields = o[5].split()[1::4]
            if any(x.endswith(("_type", "_bodyid", "_parentid")) for x in fields):
                cls = "order"        # same sizes, elements permuted: the frame-emission order of the writer
            ctx.violation("rt:nearint" if cls == "nearint" else "rt:order" if cls == "order" else "rt:example:" + cls, "%s: compiled arrays differ after the round trip: %s" % (rel, o[5][:300]), rep)
        else:
            nok += 1
            ctx.trace_ok()
    ctx.cov["examples"] = {"files": len(files), "compiled_offline": len(usable), "identical": nok}
    return len(usable)


def run(ctx):
    exe = harness()
    ctx.assume("the XML tokenizer / printer is the /verif stand-in shim/fullxml/tinyxml2.h, not tinyxml2",
               "models: <= 3 tree nodes exhaustively, <= 8 nodes + 2 classes + elements outside the tree + keyframes + "
               "feature groups by simulation; frame rotations are half turns and positions dyadic so that every compiled "
               "number of the lattice models is exactly representable",
               "abstract attributes stand for a rotating choice of concrete double / int attributes per kind",
               "example models that need qhull, PNG/OBJ/STL decoders or the plugin library do not compile offline and are skipped",
               "joint/tendon equalities are given the default objtype (the compiler ignores the field, the reader never sets it)",
               "lattice models are compared bit for bit at full precision (every number is representable and no arithmetic is "
               "involved); example models and mesh geoms (the writer inverts the mesh frame, free-body alignment is re-applied) "
               "are compared to 1e-9 relative, integer arrays exactly")
    quick = ctx.quick
    to = 900 if quick else 3000
    # 1. spec-level negative control: TLC refutes 'the code's writer round-trips'
    res = tlc.run(SPEC, os.path.join(TLA, "XmlRoundTrip_AsIs.cfg"), timeout=to)
    ctx.tlc_ok(res, "XmlRoundTrip_AsIs", allow_violation=True)
    ctx.control("TLC refutes CodeRoundTrips (the named deviations of the writer break the round trip)",
                res.violation is not None and "CodeRoundTrips" in res.violation)
    # 2. exhaustive configurations: every model replayed
    total = 0
    cfgs = ["XmlRoundTrip_MC.cfg", "XmlRoundTrip_FramesQ.cfg", "XmlRoundTrip_Vals.cfg", "XmlRoundTrip_Parts.cfg"] if quick else \
           ["XmlRoundTrip_MC.cfg", "XmlRoundTrip_Deep.cfg", "XmlRoundTrip_Two.cfg", "XmlRoundTrip_Vals.cfg", "XmlRoundTrip_Parts2.cfg"]
    nstates = 0
    for cfg in cfgs:
        res, sts = read_states(cfg, to)
        ctx.tlc_ok(res, cfg[:-4], need_actions=["Read"])
        if not sts:
            raise Machinery("no terminal states from " + cfg)
        nstates += len(sts)
        total += run_cases(ctx, exe, sts, cfg, first_case=total)
    # 3. simulation of the full configuration
    nsim = 80 if quick else 1000
    res, sts = sim_states("XmlRoundTrip_Sim.cfg", nsim, 40, ctx.seed + 1, to)
    ctx.tlc_ok(res, "XmlRoundTrip_Sim")
    seen, uniq = set(), []
    for st in sts:
        k = repr(key_of(st))
        if k not in seen:
            seen.add(k)
            uniq.append(st)
    if not uniq:
        raise Machinery("simulation produced no finished round trips")
    total += run_cases(ctx, exe, uniq, "sim", first_case=total)
    # 4. implementation-level control: two models that differ in one attribute are told apart
    r = drv.run_script(exe, ["rtmodel 1", "cgeom name=g type=2 size=0.25 friction=0.5", "end", "rtmodel 2",
                             "cgeom name=g type=2 size=0.25 friction=0.25", "end", "mcmp 1 2", "copymodel 3 1", "mcmp 1 3"])
    ctx.control("array comparer tells two different models apart and accepts a copy",
                len(r.lines) == 5 and r.lines[2].startswith("ne geom_friction") and r.lines[4] == "eq")
    # 5. shipped example models
    nex = run_examples(ctx, exe, quick)
    ctx.cov["exhaustive"] = True
    ctx.cov["rule"] = ("every terminal state of the exhaustive configurations (%d models) + %d distinct simulated models, each "
                       "built through mjSpec, saved, parsed, compiled and compared (all compiled arrays, projected view "
                       "against the specification, 3-step trajectory); + %d example models round-tripped at full precision; "
                       "non-trivial = at least one element; distinct = distinct (model, precision)" % (nstates, len(uniq), nex))


def replay(ctx, rp):
    exe = harness()
    d = rp["replay"]
    if "file" in d:
        f = os.path.join(build.REPO, d["file"])
        r = drv.run_script(exe, ["precision 17", "parsefile 1 " + drv.hx(f), "compile 1 1", "savexml 1"])
        s = r.lines[3]
        r = drv.run_script(exe, ["precision 17", "parsefile 1 " + drv.hx(f), "compile 1 1", "parsexml 2 " + s,
                                 "setdir 2 " + drv.hx(os.path.dirname(f) + "/"), "compile 2 2", "mdiff 1 2 1e-9"])
        print(d["file"], "->", r.lines[-1][:400])
        if r.lines[-1] != "eq":
            ctx.violation(rp["signature"], rp["what"], d)
    else:
        # (a case that travelled through a temporary file is replayed through the string functions)
        r = drv.run_script(exe, [("rt 1 2" if l.startswith("rtfile ") else l) for l in d["script"]] + ["savexml 1"])
        nq = len(d["queries"])
        print("round trip:", r.lines[2], "| arrays:", r.lines[3][:300])
        got2 = {q: answer(q, r.lines[NOUT + 2 * j + 1]) for j, q in enumerate(d["queries"])}
        want = d["want"]
        mm = mismatch(want, got2, d["prec"] == 6)
        print("first view mismatch:", mm, "want", want.get(mm), "got", got2.get(mm))
        try:
            print(bytes.fromhex(r.lines[NOUT + 2 * nq]).decode()[:3000])
        except (ValueError, IndexError):
            print(r.lines[-1][:300])
        if mm is not None or r.lines[2] != "ok" or r.lines[3] != "eq":
            ctx.violation(rp["signature"], rp["what"], d)
    res = tlc.run(SPEC, os.path.join(TLA, "XmlRoundTrip_MC.cfg"), timeout=900)
    ctx.tlc_ok(res, "XmlRoundTrip_MC")
    ctx.case({"replay": rp["signature"]})
    ctx.case({"replay": rp["signature"], "x": 1})
    ctx.trace_ok()
