"""C05 - time integration follows the documented schemes: Integrators.tla decided by TLC over exact rationals,
every completed step of the specification replayed through the real mj_step."""
import concurrent.futures as cf
import os

from checks import _lawlib as L
from vlib.check import Machinery

META = dict(
    engine="tlc-replay",
    technique="TLA+ spec Integrators.tla (phases SetCtrl / Forward / Euler | Implicit | RKStage x3 + RKFinish over exact "
              "rationals) model-checked by TLC: the closed forms satisfy the documented update equations (implicit "
              "update, implicit damping, RK4 = 4th-order Taylor flow on linear systems, time, actrange); every completed "
              "step TLC reaches (exhaustive lattices + simulated multi-step behaviours) is replayed through mj_step on a "
              "model built from the step's parameters and compared with the state the specification computed "
              "(exactly where all intermediates are short dyadics, 1e-10 relative otherwise). Free/ball joints: "
              "QuatStep behaviours replayed, unit norm and the exact translational update required.",
    text="For 1-dof slide-joint systems (mass, spring, linear / quadratic / cubic joint damping, applied force, one actuator with affine gain/bias, "
         "none/integrator/filter/filterexact dynamics, actrange, ctrlrange, actearly, gear, reflected damping/armature) and every "
         "integrator x eulerdamp/damper/spring/actuation/disabled-group flag combination on the lattice, mj_step "
         "produces exactly the qpos, qvel, act, time (and qacc, act_dot, actuator_force, qfrc_actuator, qfrc_passive) "
         "of Integrators.tla; free and ball joint quaternions stay unit-norm under all four integrators.",
    note="Trusted: TLC, harness law_drv.cc, the model description generated from the step's parameters, the reading of "
         "doc/computation 'Numerical integration' in Integrators.tla. Coupled multi-dof trees, constraints, muscles, "
         "dcmotor activation slots and the accuracy of quaternion integration are not decided; the filterexact activation away "
         "from its clamp is compared against a rational enclosure of exp (width <= 1e-5), on the clamp exactly.",
    ref="DESIGN.md section 4 C05")

INTEG = {"Euler": 0, "RK4": 1, "implicit": 2, "implicitfast": 3}
DYN = {"none": 0, "integrator": 1, "filter": 2, "filterexact": 3}
STATEFUL = ("integrator", "filter", "filterexact")
OBS = "time,qpos,qvel,act,qacc,act_dot,actuator_force,qfrc_actuator,qfrc_passive"


def model_lines(p, a):
    """mkmodel.h description of the system of one step (timestep / integrator / flags are set per case with optset)"""
    ls = ["option timestep=%s gravity=0,0,0" % L.num(p["h"]),
          "body name=b1 mass=%s inertia=1,1,1 explicitinertial=1" % L.num(p["m"]),
          "joint body=b1 name=j1 type=2 axis=1,0,0 stiffness=%s damping=%s,%s,%s" % (
              L.num(p["k"]), L.num(p["b"]), L.num(p["bq"]), L.num(p["bc"]))]
    if a["dyn"] != "off":
        affg = a["g1"][0] != 0 or a["g2"][0] != 0
        affb = a["b0"][0] != 0 or a["b1"][0] != 0 or a["b2"][0] != 0
        s = "actuator name=a1 trntype=0 target=j1 group=1 gear=%s" % L.num(a["gear"])
        s += " gaintype=%d gainprm=%s,%s,%s" % (1 if affg else 0, L.num(a["g0"]), L.num(a["g1"]), L.num(a["g2"]))
        s += " biastype=%d biasprm=%s,%s,%s" % (1 if affb else 0, L.num(a["b0"]), L.num(a["b1"]), L.num(a["b2"]))
        s += " dyntype=%d dynprm=%s" % (DYN[a["dyn"]], L.num(a["tau"]))
        s += " ctrllimited=%d" % (1 if a["clim"] else 0)
        if a["clim"]:
            s += " ctrlrange=%s,%s" % (L.num(a["clo"]), L.num(a["chi"]))
        s += " actlimited=%d" % (1 if a["alim"] else 0)
        if a["alim"]:
            s += " actrange=%s,%s" % (L.num(a["alo"]), L.num(a["ahi"]))
        s += " actearly=%d damping=%s armature=%s" % (1 if a["early"] else 0, L.num(a["adamp"]), L.num(a["aarm"]))
        ls.append(s)
    return ls


def mkey(p):
    return (p["m"], p["k"], p["b"], p["bq"], p["bc"], p["act"])


def flags(p):
    return (0 if p["spring"] else 32) | (0 if p["damper"] else 64) | (0 if p["actuation"] else 2048) | \
           (0 if p["edamp"] else 32768)


def feature(p, a, u=None, field=None):
    """input class of a step for signatures: integrator, actuator kind and the options / actuator features in play"""
    f = [p["integ"], "act=" + a["dyn"]]
    # (the passive flags eulerdamp / damper / spring are named in the description only: a failure caused by the
    #  actuator shows up under every combination of them and must keep one signature)
    if a["dyn"] == "off":
        for k in ("edamp", "damper", "spring"):
            if not p[k]:
                f.append("no" + k)
    for k in ("actuation", "groupon"):
        if not p[k]:
            f.append("no" + k)
    if a["dyn"] != "off":
        if a["early"]:
            f.append("actearly")
        if a["clim"] and u is not None and not (L.fr(a["clo"]) <= L.fr(u) <= L.fr(a["chi"])):
            f.append("ctrl-outside-ctrlrange")
        if a["alim"]:
            f.append("actlimited")
        if a["g2"][0]:
            f.append("gain-kv")
        if a["b2"][0]:
            f.append("bias-kv")
        if a["adamp"][0] or a["aarm"][0]:
            f.append("reflected")
    # the damping class only for the fields the damper can influence (an activation failure keeps one signature)
    if (p["bq"][0] or p["bc"][0]) and field in ("qvel", "qpos", "qacc", "qfrc_passive"):
        f.append("polydamping" if p["beff"][0] else "polydamping-only")
    return ":".join(f)


class Replayer:
    """builds one harness script for many behaviours (lists of step events) and compares afterwards"""

    def __init__(self):
        self.sc = L.Script()
        self.slots = {}          # model key -> slot
        self.opt = {}            # slot -> last option tuple
        self.cases = []          # (behaviour index, step index, ev, output line, lines of this case)

    def _slot(self, p, a):
        key = mkey(p)
        if key not in self.slots:
            slot = len(self.slots)
            self.slots[key] = slot
            i = self.sc.block("lmodel %d" % slot, model_lines(p, a))
            j = self.sc.op("ldata %d %d" % (slot, slot))
            self.cases.append(("setup", slot, (i, j), model_lines(p, a)))
        return self.slots[key]

    def add(self, bi, beh):
        p, a = beh[0]["p"], beh[0]["act"]
        slot = self._slot(p, a)
        opt = (p["h"], p["integ"], flags(p), 0 if p["groupon"] else 2)
        mine = []
        if self.opt.get(slot) != opt:
            for ln in ("optset %d timestep %s" % (slot, L.num(p["h"])),
                       "optset %d integrator %d" % (slot, INTEG[p["integ"]]),
                       "optset %d disableflags %d" % (slot, opt[2]),
                       "optset %d disableactuator %d" % (slot, opt[3])):
                self.sc.op(ln)
            self.opt[slot] = opt
        optlines = ["optset 0 timestep %s" % L.num(p["h"]), "optset 0 integrator %d" % INTEG[p["integ"]],
                    "optset 0 disableflags %d" % opt[2], "optset 0 disableactuator %d" % opt[3]]
        has_u = a["dyn"] != "off"
        has_w = a["dyn"] in STATEFUL
        for si, ev in enumerate(beh):
            if si == 0:
                s = ev["pre"]
                ln = "st %d time=%s qpos=%s qvel=%s qfrc_applied=%s" % (slot, L.num(s["t"]), L.num(s["q"]), L.num(s["v"]),
                                                                      L.num(p["f"]))
                if has_w:
                    ln += " act=" + L.num(s["w"])
            else:
                ln = "stk %d" % slot
            if has_u:
                ln += " ctrl=" + L.num(ev["u"])
            self.sc.op(ln)
            mine.append(ln)
            o = self.sc.op("sobs %d 1 %s" % (slot, OBS))
            mine.append("sobs %d 1 %s" % (slot, OBS))
            self.cases.append(("step", bi, si, ev, o, optlines, list(mine)))

    def run(self, exe, timeout=900):
        r = L.run_lines(exe, self.sc.lines, timeout=timeout)
        if len(r.lines) < self.sc.nout and not r.crashed:
            raise Machinery("harness produced %d of %d lines" % (len(r.lines), self.sc.nout))
        return r


def expectations(ev):
    """(field, expected Fraction, upper end of the expected enclosure) of one completed step, in comparison order;
    the two ends differ only for the activation of a filterexact actuator away from its clamp (the specification
    carries exp(-h/tau) as a rational enclosure)"""
    a, post, fw = ev["act"], ev["post"], ev["fw"]
    ex = [("time", post["t"], post["t"]), ("qvel", post["v"], post["v"]), ("qpos", post["q"], post["q"])]
    if a["dyn"] in STATEFUL:
        ex.append(("act", post["w"], post["wh"]))
        ex.append(("act_dot", fw["wdot"], fw["wdot"]))
    ex += [("qacc", fw["qacc"], fw["qacc"]), ("qfrc_passive", fw["pas"], fw["pas"])]
    if a["dyn"] != "off":
        ex += [("actuator_force", fw["af"], fw["af"]), ("qfrc_actuator", fw["qa"], fw["qa"])]
    return [(f, L.fr(v), L.fr(vh)) for f, v, vh in ex]


def inside(got, lo, hi):
    """implementation double inside the enclosure [lo, hi] of the specification (1e-10 slack)"""
    if got != got or got in (float("inf"), float("-inf")):
        return False
    g = L.Fraction(got)
    return lo - L.REL_TOL * max(1, abs(lo)) <= g <= hi + L.REL_TOL * max(1, abs(hi))


def first_mismatch(ev, obs, perturb=None):
    for f, want, hi in expectations(ev):
        if perturb and f == perturb[0]:
            want, hi = want + perturb[1], hi + perturb[1]
        got = obs.get(f)
        ok = bool(got) and len(got) == 1 and (L.close(got[0], want, ev["exact"]) if hi == want else inside(got[0], want, hi))
        if not ok:
            return f, want, (got[0] if got else None), hi
    return None


def judge(ctx, rp, r, setup_models):
    """compare all cases; returns number of behaviours fully matched"""
    bad_beh = set()
    nstep = 0
    for c in rp.cases:
        if c[0] == "setup":
            _, slot, (i, j), ml = c
            for k in (i, j):
                if k >= len(r.lines) or not r.lines[k].startswith("ok"):
                    raise Machinery("model setup failed: %s\n%s" % (r.lines[k] if k < len(r.lines) else r.crash_text(),
                                                                    "\n".join(ml)))
            continue
        _, bi, si, ev, o, optlines, mine = c
        p, a = ev["p"], ev["act"]
        nstep += 1
        line = r.lines[o] if o < len(r.lines) else None
        obs = L.parse_obs(line)
        key = {"p": p, "pre": ev["pre"], "u": ev["u"], "n": si}
        ctx.case(key, nontrivial=True,
                 sample={"integ": p["integ"], "act": p["act"], "h": list(p["h"]), "pre": {k: list(v) for k, v in ev["pre"].items()},
                         "u": list(ev["u"]), "post": {k: list(v) for k, v in ev["post"].items()}, "exact": ev["exact"]})
        if bi in bad_beh:
            continue
        mm = None
        if obs is None:
            mm = ("harness", L.Fraction(0), line if line is not None else r.crash_text(), L.Fraction(0))
        else:
            mm = first_mismatch(ev, obs)
        if mm is None:
            continue
        bad_beh.add(bi)
        f, want, got, whi = mm
        sig = "step:%s:%s" % (f, feature(p, a, ev["u"], f))
        what = ("mj_step with %s (h=%s m=%s k=%s b=%s f=%s act=%s flags=%d) from q=%s v=%s act=%s ctrl=%s, step %d of the "
                "behaviour: %s = %r, Integrators.tla says %s (%s comparison)" % (
                    p["integ"], L.fr(p["h"]), L.fr(p["m"]), L.fr(p["k"]),
                    "%s,%s,%s" % (L.fr(p["b"]), L.fr(p["bq"]), L.fr(p["bc"])), L.fr(p["f"]), p["act"], flags(p),
                    L.fr(ev["pre"]["q"]), L.fr(ev["pre"]["v"]), L.fr(ev["pre"]["w"]), L.fr(ev["u"]), si + 1, f, got,
                    want if whi == want else "[%s, %s] (enclosure of exp)" % (float(want), float(whi)),
                    "enclosure" if whi != want else "exact" if ev["exact"] else "1e-10"))
        script = ["lmodel 0"] + model_lines(p, a) + ["end", "ldata 0 0"] + optlines + \
                 [x.replace("st %d " % rp.slots[mkey(p)], "st 0 ", 1)
                   .replace("stk %d" % rp.slots[mkey(p)], "stk 0", 1)
                   .replace("sobs %d " % rp.slots[mkey(p)], "sobs 0 ", 1) for x in mine]
        ctx.violation(sig, what, {"script": script, "field": f, "want": [want.numerator, want.denominator],
                                  "want_hi": [whi.numerator, whi.denominator], "exact": ev["exact"]})
    return nstep, bad_beh


# ---- free / ball joints (unit-norm clause) ------------------------------------------------------------------------
def quat_lines(ev):
    p = ev["p"]
    ls = ["option timestep=%s gravity=0,0,0 integrator=%d" % (L.num(p["h"]), INTEG[p["integ"]]),
          "body name=b1 mass=%s inertia=%s,%s,%s explicitinertial=1 pos=0,0,0" % (
              L.num(p["m"]), L.num(p["i1"]), L.num(p["i2"]), L.num(p["i3"])),
          "joint body=b1 name=j1 type=%d damping=%s" % (0 if p["jt"] == "free" else 1, L.num(p["b"]))]
    return ls


def run_quat(ctx, exe, evs):
    """QuatStep events: free/ball joint stepped n times; unit norm (and exact translation for free joints)"""
    sc = L.Script()
    outs = []
    for ev in evs:
        p = ev["p"]
        i = sc.block("lmodel 0", quat_lines(ev))
        j = sc.op("ldata 0 0")
        w = ",".join(L.num(z) for z in ev["w"])
        if p["jt"] == "free":
            qp = ",".join(L.num(z) for z in ev["pos"]) + ",1,0,0,0"
            qv = ",".join(L.num(z) for z in ev["lin"]) + "," + w
            fa = ",".join(L.num(z) for z in ev["f"]) + ",0,0,0"
        else:
            qp, qv, fa = "1,0,0,0", w, "0,0,0"
        sc.op("st 0 qpos=%s qvel=%s qfrc_applied=%s" % (qp, qv, fa))
        o = sc.op("sobs 0 %d qpos,qvel,time" % ev["nsteps"])
        outs.append((ev, i, j, o, list(sc.lines[-(len(quat_lines(ev)) + 5):])))
    r = L.run_lines(exe, sc.lines)
    nbad = 0
    for ev, i, j, o, script in outs:
        p = ev["p"]
        if o >= len(r.lines) or not r.lines[i].startswith("ok"):
            raise Machinery("quaternion model failed: %s" % (r.lines[i] if i < len(r.lines) else r.crash_text()))
        obs = L.parse_obs(r.lines[o])
        ctx.case({"quat": ev}, nontrivial=any(z[0] for z in ev["w"]))
        bad = None
        if obs is None:
            bad = ("harness", r.lines[o])
        else:
            q = obs["qpos"][3:7] if p["jt"] == "free" else obs["qpos"][0:4]
            nrm = sum(z * z for z in q) ** 0.5
            unit = abs(nrm - 1) < 1e-12
            if unit != ev["unit"]:
                bad = ("unitnorm", "|q| = %.17g" % nrm)
            elif not L.close(obs["time"][0], L.fr(ev["time"]), True):
                bad = ("time", obs["time"][0])
            elif p["jt"] == "free":
                for k in range(3):
                    if not L.close(obs["qpos"][k], L.fr(ev["pos2"][k]), ev["exact"]):
                        bad = ("translation", "qpos[%d] = %r, specification %s" % (k, obs["qpos"][k], L.fr(ev["pos2"][k])))
                        break
                    if not L.close(obs["qvel"][k], L.fr(ev["lin2"][k]), ev["exact"]):
                        bad = ("linvel", "qvel[%d] = %r, specification %s" % (k, obs["qvel"][k], L.fr(ev["lin2"][k])))
                        break
        if bad:
            nbad += 1
            ctx.violation("quat:%s:%s:%s" % (p["jt"], p["integ"], bad[0]),
                          "%s joint, %s, %d steps with angular velocity %s: %s" % (
                              p["jt"], p["integ"], ev["nsteps"], [str(L.fr(z)) for z in ev["w"]], bad[1]),
                          {"script": script, "field": bad[0], "quat": True})
        else:
            ctx.trace_ok()
    return len(outs), nbad


def run(ctx):
    exe = L.harness()
    ctx.assume("1-dof slide-joint systems without constraints and gravity; parameters, states and controls on the rational "
               "lattices of the Integrators_*.cfg files",
               "the model of a step is generated from the step's parameters (mkmodel description); timestep, integrator "
               "and flags are written into mjModel.opt",
               "exact comparison only when the specification marks the step exact (dyadic inputs, power-of-two divisors, "
               "not RK4); otherwise 1e-10 relative",
               "quaternion clause: unit norm |1 - |q|| < 1e-12 after each behaviour; orientation accuracy is not decided")
    q = ctx.quick
    jobs = {
        "mc": ("dump", "Integrators_MC" if q else "Integrators_Deep"),
        "act": ("dump", None if q else "Integrators_ActDeep"),
        "sim": ("sim", "Integrators_Sim", 150 if q else 1500, 40),
        "quat": ("dumpq", "FreeBody_MC" if q else "FreeBody_Deep"),
        "neg1": ("neg", "Integrators_Neg1"),
        "neg3": ("neg", "Integrators_Neg3"),
        "neg2": ("neg", None if q else "Integrators_Neg2"),
    }
    to = 240 if q else 1500

    def go(name):
        j = jobs[name]
        if j[0] == "neg":
            return L.negative_run("Integrators", j[1])
        if j[0] == "dump":
            return L.dump_evs("Integrators", j[1], want=("step",), timeout=to)
        if j[0] == "dumpq":
            return L.dump_evs("FreeBody", j[1], want=("quat",), timeout=to)
        return L.simulate_evs("Integrators", j[1], num=j[2], depth=j[3], seed=ctx.seed + 5, timeout=to)

    with cf.ThreadPoolExecutor(7) as ex:
        futs = {n: ex.submit(go, n) for n in jobs if jobs[n][1]}
        out = {n: (futs[n].result() if n in futs else None) for n in jobs}
    for k in ("mc", "act", "sim", "quat"):
        if out[k] is not None:
            ctx.tlc_ok(out[k][0], jobs[k][1])
    # TLC-level negative controls: wrong schemes must violate the specification's invariants
    L.negative_record(ctx, out["neg1"], "spec variant 'position integrated with the old velocity' violates SemiImplicit")
    L.negative_record(ctx, out["neg3"], "spec variant 'filterexact activation not clamped to actrange' violates ActInRange")
    if out["neg2"] is not None:
        L.negative_record(ctx, out["neg2"], "spec variant 'RK 3/8 weights' violates RK4Taylor")
    singles = [e for k in ("mc", "act") if out[k] for e in out[k][1] if e["op"] == "step"]
    # vacuity: every integrator (hence every integration action and the phases before it) completed steps
    for name, evs in (("exhaustive", singles), ("simulated", [e for b in out["sim"][1] for e in b if e["op"] == "step"])):
        seen = {e["p"]["integ"] for e in evs}
        if seen != set(INTEG):
            raise Machinery("vacuity: %s steps only cover integrators %s" % (name, sorted(seen)))
    # vacuity: a model whose ONLY damping is polynomial, stepped by Euler with implicit damping on and a moving dof
    npoly = sum(1 for e in singles if e["p"]["integ"] == "Euler" and e["p"]["edamp"] and e["p"]["damper"]
                and not e["p"]["beff"][0] and (e["p"]["bq"][0] or e["p"]["bc"][0]) and e["pre"]["v"][0])
    nboth = {(bool(e["p"]["beff"][0]), bool(e["p"]["bq"][0] or e["p"]["bc"][0]), e["pre"]["v"][0] > 0) for e in singles}
    if not npoly or len(nboth) < 8:
        raise Machinery("vacuity: polynomial-only Euler steps %d, damping classes x velocity signs covered %d of 8" % (
            npoly, len(nboth)))
    quats = [e for e in out["quat"][1] if e["op"] == "quat"]
    sims = [[e for e in b if e["op"] == "step"] for b in out["sim"][1]]
    sims = [b for b in sims if b]
    if not singles or not sims or not quats:
        raise Machinery("no steps to replay (singles %d, sims %d, quats %d)" % (len(singles), len(sims), len(quats)))
    # exhaustive runs: states reached after the first step start from the previous post state; each dumped step is
    # replayed on its own from its `pre` state (st = reset + write), simulated behaviours are replayed as sequences
    rp = Replayer()
    # passive systems first: the first violation reported for a failure class is then the simplest repro
    singles.sort(key=lambda e: (e["p"]["act"] != "none", e["p"]["m"], e["p"]["k"], e["p"]["b"], e["p"]["bq"], e["p"]["bc"], e["p"]["act"], e["p"]["h"], e["p"]["integ"],
                                flags(e["p"]), e["p"]["groupon"]))
    for i, e in enumerate(singles):
        rp.add(i, [e])
    nb = len(singles)
    for i, b in enumerate(sims):
        rp.add(nb + i, b)
    r = rp.run(exe)
    # negative control on the comparer: a perturbed expectation must be flagged (exact and tolerance paths)
    probe_exact = next((c for c in rp.cases if c[0] == "step" and c[3]["exact"]), None)
    probe_tol = next((c for c in rp.cases if c[0] == "step" and not c[3]["exact"]), None)
    for nm, c, d in (("exact", probe_exact, L.Fraction(1, 2 ** 40)), ("tolerance", probe_tol, L.Fraction(1, 10 ** 8))):
        if c is None:
            raise Machinery("no %s step to probe" % nm)
        obs = L.parse_obs(r.lines[c[4]]) if c[4] < len(r.lines) else None
        ctx.control("expected qvel perturbed by %s is flagged (%s comparison)" % (d, nm),
                    obs is not None and first_mismatch(c[3], obs, perturb=("qvel", d)) is not None
                    and first_mismatch(c[3], obs, perturb=("qvel", d))[0] == "qvel")
    nstep, bad = judge(ctx, rp, r, None)
    ctx.trace_ok(nb + len(sims) - len(bad))
    nq, nqbad = run_quat(ctx, exe, quats)
    nex = sum(1 for c in rp.cases if c[0] == "step" and c[3]["exact"])
    ctx.cov["exhaustive"] = all(out[k][0].finished for k in ("mc", "act", "quat") if out[k])
    ctx.cov["rule"] = ("every completed step of the exhaustive runs %s / %s (%d steps, each replayed from its pre-state) + %d "
                       "simulated multi-step behaviours of %s (state carried by the implementation) through mj_step; %d of "
                       "%d steps compared exactly, the rest to 1e-10; %d free/ball-joint behaviours checked for unit norm; "
                       "non-trivial = every step (a step always advances time); distinct = distinct (parameters, "
                       "pre-state, control, step index)" % (jobs["mc"][1], jobs["act"][1] or "-", nb, len(sims), jobs["sim"][1],
                                                             nex, nstep, nq))


def replay(ctx, rp):
    exe = L.harness()
    d = rp["replay"]
    r = L.run_lines(exe, d["script"], timeout=120)
    obs = L.parse_obs(r.lines[-1]) if r.lines else None
    print("last output:", (r.lines[-1] if r.lines else r.crash_text())[:300])
    ctx.case({"replay": rp["signature"]})
    ctx.case({"replay": rp["signature"], "x": 1})
    if d.get("quat"):
        bad = obs is None
        if obs is not None:
            q = obs["qpos"][-4:]
            bad = abs(sum(z * z for z in q) ** 0.5 - 1) >= 1e-12 if d["field"] == "unitnorm" else True
        if bad:
            ctx.violation(rp["signature"], rp["what"], d)
        return
    want = L.Fraction(d["want"][0], d["want"][1])
    whi = L.Fraction(*d["want_hi"]) if d.get("want_hi") else want
    got = obs.get(d["field"]) if obs else None
    print("field %s: want %s%s got %r" % (d["field"], want, "" if whi == want else " .. %s" % whi, got))
    if not got or not (L.close(got[0], want, d["exact"]) if whi == want else inside(got[0], want, whi)):
        ctx.violation(rp["signature"], rp["what"], d)
