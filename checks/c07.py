"""C07 - kinematics and Jacobians are consistent with positions: SmoothLattice.tla decided by TLC on the quarter-turn
lattice, every finished lattice model replayed into mj_kinematics / mj_comPos / mj_jac* / mj_jacDot /
mj_objectVelocity / mj_integratePos / mj_differentiatePos."""
import os
from fractions import Fraction

from vlib import tlc
from vlib.check import Machinery
from checks import _smooth as S

META = dict(
    engine="tlc-replay",
    technique="TLA+ spec SmoothLattice.tla (kinematic trees <= 4 bodies, slide/hinge joints on signed coordinate axes, "
              "integer offsets, quarter-turn angles: exact integer arithmetic) model-checked by TLC; frames, Jacobians, "
              "their time derivatives and velocities of every finished lattice model replayed into the C API",
    text="TLC decides on the lattice that frames are proper rotations, that every Jacobian column (body origin, centre "
         "of mass, site, subtree centre of mass, orientation) equals the exact central difference of the position / "
         "frame along lattice moves of the coordinate, that J v equals the velocities propagated recursively down the "
         "tree and that the Jacobian time derivative is consistent with recursive Newton-Euler; the exhaustive 2-body "
         "lattice and simulated <=4-body models are replayed: xpos xmat xquat xipos ximat site/geom/camera frames "
         "xanchor xaxis subtree_com, mj_jacBody/BodyCom/Site/Geom/SubtreeCom/jacSparse, mj_jacDot, mj_objectVelocity, "
         "positions after mj_integratePos by +-1 lattice step, mj_differentiatePos. Constraint rows: between the sites of "
         "every ordered pair of bodies (world included; simple and non-simple bodies, 0 and 1 dofs) one connect and one weld "
         "equality; efc_pos and the translational rows of efc_J must equal the published x1 - x2 and J1 - J2 (TLC: exact "
         "central difference of the residual) with dense AND sparse Jacobian storage, and mj_jacDifPair is called directly "
         "(white box, dense and sparse) for every ordered pair (translation and rotation differences).",
    note="Trusted: TLC, harness smooth_drv.cc, rendering of quarter turns as radians/quaternions. Not decided: general "
         "angles, ball/free joints, several joints per body (dof counts per body are 0 or 1), rotational rows of weld "
         "constraints (their rotation Jacobian difference is compared through mj_jacDifPair), contact rows (tolerance 1e-9 "
         "relative).",
    ref="DESIGN.md section 4 C06, C07, C29")

SPEC = os.path.join(S.TLA, "SmoothLattice.tla")


def ball_script(ev):
    """models with a ball joint (stored quaternion scaled by 1, 2 or 1/2): frames only; they must not depend on the scale"""
    sc = S.Script()
    kin = ev["kin"]
    sc.model(S.model_lines(ev))
    sc.ok("data 0 0")
    sc.vec("mget 0 body_parentid", "machinery:body_parentid", [0] + [b["par"] for b in ev["bodies"]], exact=True)
    sc.oks(S.state_lines(ev))
    sc.ok("forward 0")
    R = [k["R"] for k in kin]
    sc.vec("get 0 xpos", "xpos(ball joint)", S.flat([k["p"] for k in kin]), skip=3)
    sc.vec("get 0 xmat", "xmat(ball joint)", S.flat(R), skip=9)
    sc.vec("quatmat 0", "xquat(ball joint)", S.flat(R), skip=9)
    sc.vec("get 0 xipos", "xipos(ball joint)", S.flat([k["c"] for k in kin]), skip=3)
    sc.vec("get 0 site_xpos", "site_xpos(ball joint)", S.flat([k["sp"] for k in kin]))
    sc.vec("get 0 site_xmat", "site_xmat(ball joint)", S.flat([k["sR"] for k in kin]))
    sc.vec("get 0 geom_xpos", "geom_xpos(ball joint)", S.flat([k["sp"] for k in kin]))
    js = [k for k, b in enumerate(ev["bodies"]) if b["jt"] != "none"]
    sc.vec("get 0 xanchor", "xanchor(ball joint)", S.flat([kin[k]["anc"] for k in js]))
    return sc


def script_for(ev):
    sc = S.Script()
    n, nv = ev["n"], ev["nv"]
    kin = ev["kin"]
    # a site on the world (site id 0) and, between the sites of every ordered pair of bodies (world included), one
    # connect and one weld equality: their constraint rows are compared below
    if ev["hasball"]:
        return ball_script(ev)
    eqs = []
    if nv:
        for k, pr in enumerate(ev["pairs"]):
            if not pr["mov"]:
                continue
            for tp, nm in ((0, "c"), (1, "w")):
                eqs.append("equality name=%s%d type=%d objtype=6 name1=s%d name2=s%d" % (nm, k, tp, pr["b1"], pr["b2"]))
    sc.model(S.model_lines(ev, world_site=True, extra_lines=eqs))
    sc.ok("data 0 0")
    sc.ok("free 1")
    S.sanity(sc, ev)
    sc.oks(S.state_lines(ev))
    sc.ok("forward 0")
    rotfree = all(b["rot"][1] % 4 == 0 and b["srot"][1] % 4 == 0 and (b["jt"] != "hinge" or b["q"] == 0) for b in ev["bodies"])
    P = [k["p"] for k in kin]
    R = [k["R"] for k in kin]
    sc.vec("get 0 xpos", "xpos", S.flat(P), skip=3, exact=rotfree)
    sc.vec("get 0 xmat", "xmat", S.flat(R), skip=9, exact=rotfree)
    sc.vec("quatmat 0", "xquat", S.flat(R), skip=9)
    sc.vec("get 0 xipos", "xipos", S.flat([k["c"] for k in kin]), skip=3, exact=rotfree)
    sc.vec("get 0 ximat", "ximat", S.flat(R), skip=9, exact=rotfree)
    for fld in ("site", "geom", "cam"):
        ws = 1 if fld == "site" else 0                      # the world site comes first
        sc.vec("get 0 %s_xpos" % fld, fld + "_xpos", S.flat([k["sp"] for k in kin]), exact=rotfree, skip=3 * ws)
        sc.vec("get 0 %s_xmat" % fld, fld + "_xmat", S.flat([k["sR"] for k in kin]), exact=rotfree, skip=9 * ws)
    if nv:
        sc.vec("get 0 xanchor", "xanchor", S.flat([kin[b - 1]["anc"] for b in ev["dofs"]]), exact=rotfree)
        sc.vec("get 0 xaxis", "xaxis", S.flat([kin[b - 1]["zw"] for b in ev["dofs"]]), exact=rotfree)
    com = []
    for b in range(n):
        com += [Fraction(x, ev["submass"][b]) for x in ev["submom"][b]]
    sc.vec("get 0 subtree_com", "subtree_com", com, skip=3)
    z3nv = [0] * (3 * nv)
    for b in range(1, n + 1):
        jr = S.jac_flat(ev["jacr"][b - 1])
        sc.vec("jac 0 body %d" % b, "jacBody", S.jac_flat(ev["jacp"][b - 1]) + jr, exact=rotfree)
        sc.vec("jacsp 0 %d" % b, "jacSparse", S.jac_flat(ev["jacp"][b - 1]) + jr, exact=rotfree)
        sc.vec("jac 0 bodycom %d" % b, "jacBodyCom", S.jac_flat(ev["jacc"][b - 1]) + jr, exact=rotfree)
        sc.vec("jac 0 site %d" % b, "jacSite", S.jac_flat(ev["jacs"][b - 1]) + jr, exact=rotfree)
        sc.vec("jac 0 geom %d" % (b - 1), "jacGeom", S.jac_flat(ev["jacs"][b - 1]) + jr, exact=rotfree)
        sc.vec("jac 0 subtree %d" % b, "jacSubtreeCom",
               [Fraction(x, ev["submass"][b - 1]) for x in S.jac_flat(ev["subjac"][b - 1])] + z3nv)
        if ev["level"] >= 2:
            v = ev["vel"][b - 1]
            sc.vec("objvel 0 2 %d 0" % b, "objectVelocity(xbody)", S.flat(v["w"]) + S.flat(v["vo"]))
            sc.vec("objvel 0 1 %d 0" % b, "objectVelocity(body)", S.flat(v["w"]) + S.flat(v["vc"]))
            sc.vec("objvel 0 6 %d 0" % b, "objectVelocity(site)", S.flat(v["w"]) + S.flat(v["vs"]))
            sc.vec("jacdot 0 %d %s" % (b, " ".join(S.num(x) for x in P[b - 1])), "jacDot(xpos)",
                   S.jac_flat(ev["jdp"][b - 1]) + S.jac_flat(ev["jdr"][b - 1]))
            sc.vec("jacdot 0 %d %s" % (b, " ".join(S.num(x) for x in kin[b - 1]["c"])), "jacDot(xipos)",
                   S.jac_flat(ev["jdc"][b - 1]) + S.jac_flat(ev["jdr"][b - 1]))
    # constraint rows of the connect / weld equalities: efc_pos = x1 - x2, efc_J = J1 - J2 (dense and sparse storage),
    # and mj_jacDifPair called directly for every ordered pair of bodies
    if nv:
        # (an equality with an identically zero Jacobian can be dropped by the engine: its residual is not observable)
        wantJ, wantP, sel, e = [], [], [], 0
        for pr in ev["pairs"]:
            if not pr["mov"]:
                continue
            for _ in range(2):
                wantJ += S.jac_flat(pr["jacp"])
                if any(x != 0 for x in S.flat(pr["jacp"])):
                    wantP += list(pr["pos"])
                    sel.append(e)
                e += 1
        sp = [(0, 0, 0)] + [k["sp"] for k in kin]
        for mode, name in ((0, "dense"), (1, "sparse")):
            sc.ok("optset 0 jacobian %d" % mode)
            sc.ok("forward 0")
            sc.vec("eqrows 0 pos %s" % (",".join(str(x) for x in sel) or "-"), "efc_pos(connect/weld)", wantP, exact=rotfree)
            sc.vec("eqrows 0 J", "efc_J(connect/weld):%s" % name, wantJ, exact=rotfree)
            for pr in ev["pairs"]:
                b1, b2 = pr["b1"], pr["b2"]
                sc.vec("jacdif 0 %d %d %d %s %s" % (b1, b2, mode, " ".join(S.num(x) for x in sp[b1]), " ".join(S.num(x) for x in sp[b2])),
                       "jacDifPair:%s" % name, [-x for x in S.jac_flat(pr["jacp"]) + S.jac_flat(pr["jacr"])], exact=rotfree)
    # positions after one lattice step forth / back of every coordinate (mj_integratePos), and the way back
    q0 = [ev["bodies"][b - 1]["q"] * S.unit_of(ev, i) for i, b in enumerate(ev["dofs"])]
    for d in range(nv):
        u = S.unit_of(ev, d)
        for sgn, fk in ((1, ev["fdp"][d]), (-1, ev["fdm"][d])):
            sc.ok("copydata 1 0")
            sc.ok("intpos 1 %d %s" % (d, S.num(sgn * u)))
            sc.ok("fwdPosition 1")
            tag = "integratePos%+d:" % sgn
            sc.vec("get 1 xpos", tag + "xpos", S.flat([k["p"] for k in fk]), skip=3)
            sc.vec("get 1 xmat", tag + "xmat", S.flat([k["R"] for k in fk]), skip=9)
            sc.vec("get 1 xipos", tag + "xipos", S.flat([k["c"] for k in fk]), skip=3)
            sc.vec("get 1 site_xpos", tag + "site_xpos", S.flat([k["sp"] for k in fk]), skip=3)
            sc.vec("get 1 site_xmat", tag + "site_xmat", S.flat([k["sR"] for k in fk]), skip=9)
            q1 = list(q0)
            q1[d] += sgn * u
            e = [0.0] * nv
            e[d] = sgn * u
            sc.vec("diffpos 0 1 %s %s" % (S.csv(q0), S.csv(q1)), "differentiatePos", e)
    return sc


def sig_of(ev, label):
    if "(ball joint)" in label:
        sc = sorted({"%d/%d" % tuple(b["qs"]) for b in ev["bodies"] if b["jt"] == "ball"})
        off = any(b["jt"] == "ball" and tuple(b["janc"]) != (0, 0, 0) for b in ev["bodies"])
        return "C07:%s:quat-scale=%s:%s" % (label, ",".join(sc), "off-centre" if off else "centred")
    return "C07:%s:joints=%s" % (label, "".join(sorted(set(S.features(ev)))))


NEED = {
    "a hinge below a hinge, both moving (Coriolis terms in jacDot)":
        lambda ev: any(b["jt"] == "hinge" and b["v"] != 0 and b["par"] > 0 and ev["bodies"][b["par"] - 1]["jt"] == "hinge"
                       and ev["bodies"][b["par"] - 1]["v"] != 0 for b in ev["bodies"]),
    "a slide below a moving hinge": lambda ev: any(b["jt"] == "slide" and b["par"] > 0 and ev["bodies"][b["par"] - 1]["jt"] == "hinge"
                                                   for b in ev["bodies"]),
    "a branching tree": lambda ev: len([b for b in ev["bodies"] if b["par"] == 0]) > 1 or any(
        len([c for c in ev["bodies"] if c["par"] == k]) > 1 for k in range(1, ev["n"] + 1)),
    "a jointless body": lambda ev: any(b["jt"] == "none" for b in ev["bodies"]),
    "an off-centre ball joint with a scaled (non-unit) quaternion, turned": lambda ev: any(
        b["jt"] == "ball" and tuple(b["janc"]) != (0, 0, 0) and tuple(b["qs"]) != (1, 1) and b["q"] % 4 != 0 for b in ev["bodies"]),
    "two root bodies without children, frames at the origin, one static and one with a dof (MuJoCo 'simple' bodies with "
    "different dof counts)": lambda ev: any(
        a["par"] == 0 and b["par"] == 0 and a["jt"] == "none" and b["jt"] != "none" and
        all(tuple(x["ipos"]) == (0, 0, 0) and tuple(x["janc"]) == (0, 0, 0) for x in (a, b)) and
        not any(c["par"] in (i + 1, j + 1) for c in ev["bodies"])
        for i, a in enumerate(ev["bodies"]) for j, b in enumerate(ev["bodies"]) if i != j),
}


def run(ctx):
    ctx.assume("trees of at most 4 bodies in depth-first order, one slide or hinge joint per body on a signed coordinate axis",
               "integer offsets / anchors / inertial frames, body and site orientations and hinge angles multiples of a quarter turn",
               "comparison tolerance 1e-9 relative to the largest entry (exact when no rotation is involved)")
    if ctx.quick:
        mcs, nsim, cov = ["SmoothLattice_C07MC.cfg"], 150, None
    else:
        mcs, nsim, cov = ["SmoothLattice_C07MC2.cfg", "SmoothLattice_C07Deep.cfg"], 1500, "SmoothLattice_Cov.cfg"
    allres = S.run_lattice(ctx, "C07", SPEC, mcs, "SmoothLattice_C07Sim.cfg", nsim, script_for, sig_of, need=NEED, cov_cfg=cov,
                           neg_cfg=None if ctx.quick else ("SmoothLattice_C07Neg.cfg", "NegOneSidedDifference"))
    r1 = allres[0][1]
    S.perturb_control(ctx, "perturbed Jacobian entry is flagged", r1, "jacBody", 1.0)
    S.perturb_control(ctx, "position off by 1e-6 after integratePos is flagged", r1, "integratePos+1:xpos", 1e-6, index=2)
    S.perturb_control(ctx, "perturbed jacDot entry is flagged", allres[-1][1], "jacDot(xipos)", 0.5)


def replay(ctx, rp):
    S.replay_common(ctx, rp)
