"""C16 - ray casting returns the nearest intersection: Ray.tla decided by TLC, its casts replayed into mj_ray,
mj_multiRay and mju_rayGeom on models realising the specification's scenes."""
import concurrent.futures as cf
import os
import time
from fractions import Fraction

from vlib import build, tlc, drv
from vlib.check import Machinery, VERIF
from checks import tladump

TLA = os.path.join(VERIF, "tla")
SPEC = os.path.join(TLA, "Ray.tla")
DRV = os.path.join(VERIF, "harness", "collision_drv.cc")

META = dict(
    engine="tlc-replay",
    technique="TLA+ spec Ray.tla (scenes of planes, spheres, boxes and upright capsules at integer positions on "
              "world / static / slide-joint / mocap bodies; axis-parallel rays with rational hit parameter; "
              "elimination by bodyexclude, invisibility, flg_static and geomgroup; mj_ray as a scan over geoms, "
              "the result also stated declaratively; mj_multiRay = six single casts) model-checked by TLC; the casts "
              "of the exhaustive runs and of simulated histories (with body moves in between) are replayed into "
              "mj_ray, mj_ray without output pointers, mj_multiRay (one ray and six rays) and mju_rayGeom per geom",
    text="TLC decides on Ray.tla that the geom-by-geom scan returns the nearest surviving hit, -1 with no geom exactly "
         "when no surviving geom is hit, that widening a filter never moves the hit away, and that a multi-ray call "
         "answers each ray like a single cast. Every cast of the exhaustive state spaces (one geom with all filters; two geoms on "
         "one moving body; thorough: two geoms on two bodies) and of simulated histories over scenes with up to 5 geoms on 3 bodies is executed by the real functions: "
         "distances are compared exactly (all values are short dyadics), the geom id against the specification's "
         "set of nearest geoms, mju_rayGeom against the per-geom analytic hit.",
    note="Trusted: TLC, harness collision_drv.cc, the rendering of a scene as a model (checks/c16.py: scene_lines). "
         "A plane is modelled as one-sided (hit only from its front side), as the code and API comment say. "
         "Oblique and grazing rays, origins on a surface, irrational hit distances, ellipsoids, cylinders, meshes, "
         "height fields, SDFs, flexes and the returned normals are not compared; cutoff of mj_multiRay is always "
         "larger than the scene.",
    ref="DESIGN.md section 4 C16")

GTYPE = {"plane": 0, "sphere": 2, "capsule": 3, "box": 6}
DIRS = [(1, 1), (1, -1), (2, 1), (2, -1), (3, 1), (3, -1)]        # Ray.tla: Dirs


def bname(b):
    return "world" if b == 0 else "b%d" % b


def scene_lines(bodies, geoms):
    """mkmodel.h description of a scene (bodies: tuple of dict(parent, kind, off), geoms: tuple of dicts)"""
    L = ["material name=mclear rgba=1,1,1,0", "material name=msolid rgba=1,1,1,1"]
    for i, b in enumerate(bodies, 1):
        L.append("body name=b%d parent=%s pos=0,0,0 mocap=%d" % (i, bname(b["parent"]), 1 if b["kind"] == "mocap" else 0))
        if b["kind"] == "dyn":
            L.append("joint body=b%d name=j%d type=2 axis=0,0,1" % (i, i))
    for i, g in enumerate(geoms, 1):
        ty, a, b_, c_ = g["shape"]
        if ty == "plane":
            size = "%d,%d,1" % (a, b_)
        elif ty == "sphere":
            size = "%d" % a
        elif ty == "capsule":
            size = "%d,%d" % (a, b_)
        else:
            size = "%d,%d,%d" % (a, b_, c_)
        s = "geom body=%s name=g%d type=%d size=%s pos=%d,%d,%d group=%d" % (
            bname(g["body"]), i, GTYPE[ty], size, g["c"][0], g["c"][1], g["c"][2], g["group"])
        if g["vis"]:
            s += " contype=0 conaffinity=0"
        if g["look"] == "rgba0":
            s += " rgba=0.5,0.5,0.5,0"
        elif g["look"] == "mat0":
            s += " material=mclear"
        elif g["look"] == "matsolid":
            s += " material=msolid rgba=0.5,0.5,0.5,0"
        L.append(s)
    return L


def vec_of(d, ln):
    v = [0, 0, 0]
    v[d[0] - 1] = d[1] * ln
    return "%d,%d,%d" % tuple(v)


def filt_args(f):
    g = "".join(str(x) for x in f["groups"]) if len(f["groups"]) else "-"
    bx = "-" if f["bx"] < 0 else bname(f["bx"])
    return "%s %d %s" % (g, 1 if f["stat"] else 0, bx)


def rat(x):
    """<<n, d>> -> Fraction or None (miss)"""
    return None if x[0] < 0 else Fraction(x[0], x[1])


def num(tok):
    try:
        return Fraction(float(tok))
    except (ValueError, OverflowError):
        return "nan"


def cast_items(ev, geoms):
    """commands for one 'ray' / 'multi' event: list of (cmd, kind, want) with want = list of (dist, geom name set)"""
    o = "%d,%d,%d" % tuple(ev["o"])
    fa = filt_args(ev["f"])
    items = []
    if ev["op"] == "ray":
        v = vec_of(ev["d"], ev["len"])
        want = (rat(ev["dist"]), frozenset("g%d" % i for i in ev["geoms"]))
        items.append(("ray 0 %s %s %s" % (o, v, fa), "ray", [want]))
        items.append(("rayn 0 %s %s %s" % (o, v, fa), "rayn", [want]))
        items.append(("multiray 0 %s %s %s 1000" % (o, v, fa), "multiray1", [want]))
        for i, h in enumerate(ev["hits"], 1):
            items.append(("raygeom 0 g%d %s %s" % (i, o, v), "raygeom", [(rat(h), None)]))
    else:
        ds = sorted(ev["dirs"])                  # the directions the specification decides from this origin
        vs = [vec_of(DIRS[i - 1], ev["len"]) for i in ds]
        wants = [(rat(ev["res"][i - 1]["dist"]), frozenset("g%d" % j for j in ev["res"][i - 1]["geoms"])) for i in ds]
        items.append(("multiray 0 %s %s %s 1000" % (o, ";".join(vs), fa), "multiray6", wants))
        for v, w in zip(vs, wants):
            items.append(("ray 0 %s %s %s" % (o, v, fa), "ray", [w]))
    return items


def judge(kind, want, line):
    """compare one output line with the expectation; returns None or (index of ray, want, got dist, got geom)"""
    if line is None:
        return (0, want[0], "<no output>", "")
    t = line.split()
    if kind in ("ray", "rayn", "raygeom"):
        got = [(t[0], t[1] if kind == "ray" and len(t) > 1 else None)]
    else:
        if not t or not t[0].isdigit() or int(t[0]) != len(want) or len(t) != len(want) + 1:
            return (0, want[0], line[:80], "")
        got = [(x.split(":")[0], x.split(":")[1]) for x in t[1:]]
    for i, ((wd, wg), (gd, gg)) in enumerate(zip(want, got)):
        g = num(gd)
        if wd is None:
            ok = g == -1
        else:
            ok = g == wd
        if ok and wg is not None and gg is not None:
            ok = (gg == "-") if wd is None else (gg in wg)
        if not ok:
            return (i, (wd, wg), gd, gg)
    return None


def classify(kind, want, gd, gg, geoms, first_ray_geoms):
    kind = "multiray" if kind.startswith("multiray") else kind
    """stable signature of a mismatch: operation, expected class -> observed class, feature of the expected geom"""
    wd, wg = want
    g = num(gd)
    if wd is None:
        cls = "miss->hit" if g != -1 else "miss->geom"
    elif g == -1:
        cls = "hit->miss"
    elif g == "nan":
        cls = "hit->garbage"
    elif g > wd:
        cls = "hit->farther"
    elif g < wd:
        cls = "hit->nearer"
    else:
        cls = "hit->wrong-geom"
    if kind == "multiray" and cls in ("hit->miss", "hit->farther"):
        cls = "nearest-geom-culled"           # one cause, whether or not another geom is hit behind it
    feat = "no-geom"
    ref = wg if wg else first_ray_geoms
    if ref:
        gi = geoms[int(sorted(ref)[0][1:]) - 1]
        if gi["vis"]:
            feat = "visual-geom"
        elif sum(1 for x in geoms if x["body"] == gi["body"]) >= 2 and gi["body"] != 0:
            feat = "geom-of-multi-geom-body"
        else:
            feat = gi["shape"][0]
    return "%s:%s:%s" % (kind, cls, feat)


class Batch:
    """collects scenes with their operations; one harness process runs everything"""

    def __init__(self):
        self.lines = []
        self.checks = []       # (line index, kind, want, scene id, ev)
        self.scenes = []       # (bodies, geoms, first line, model lines)

    def scene(self, bodies, geoms):
        ml = scene_lines(bodies, geoms)
        self.scenes.append((bodies, geoms, len(self.lines), ml))
        self.lines += ["model 0"] + ml + ["end", "data 0 0"]
        self.offs = [0] * len(bodies)
        self._place(bodies)
        return len(self.scenes) - 1

    def _place(self, bodies):
        for i, b in enumerate(bodies, 1):
            if b["off"] != self.offs[i - 1]:
                if b["kind"] == "mocap":
                    self.lines.append("movebody 0 b%d 0 0 %d" % (i, b["off"]))
                else:
                    self.lines.append("slide 0 b%d %d" % (i, b["off"]))
                self.offs[i - 1] = b["off"]
        self.lines.append("forward 0")

    def move(self, bodies):
        self._place(bodies)

    def cast(self, sid, ev):
        geoms = self.scenes[sid][1]
        for cmd, kind, want in cast_items(ev, geoms):
            self.checks.append((len(self.lines), kind, want, sid, ev))
            self.lines.append(cmd)


def out_index(lines):
    """index of the output line of every command line ('model' consumes its description block)"""
    idx, k, inmodel = [], 0, False
    for ln in lines:
        if inmodel:
            idx.append(None)
            if ln == "end":
                inmodel = False
            continue
        idx.append(k)
        k += 1
        if ln.startswith("model "):
            inmodel = True
    return idx


def run_batch(ctx, exe, batch, label):
    r = drv.run_script(exe, batch.lines, timeout=1200)
    oi = out_index(batch.lines)
    bad_setup = [(i, batch.lines[i], r.lines[oi[i]] if oi[i] is not None and oi[i] < len(r.lines) else None)
                 for i in range(len(batch.lines))
                 if oi[i] is not None and batch.lines[i].split()[0] in ("model", "data", "forward", "slide", "movebody")
                 and (oi[i] >= len(r.lines) or r.lines[oi[i]] != "ok")]
    if bad_setup and not r.crashed:
        raise Machinery("%s: scene set-up failed: %r" % (label, bad_setup[:3]))
    nbad = 0
    first_geoms = {}
    for (li, kind, want, sid, ev) in batch.checks:
        line = r.lines[oi[li]] if oi[li] < len(r.lines) else None
        bodies, geoms, l0, ml = batch.scenes[sid]
        hit = any(w[0] is not None for w in want)
        ctx.case({"scene": ml, "cmd": batch.lines[li]}, nontrivial=hit,
                 sample={"scene": ml[2:], "cmd": batch.lines[li], "spec": str([(str(w[0]), sorted(w[1] or [])) for w in want])})
        mm = judge(kind, want, line)
        if kind == "ray":
            first_geoms[(sid, batch.lines[li][4:])] = want[0][1]
        if mm is None:
            ctx.trace_ok()
            continue
        nbad += 1
        i, w, gd, gg = mm
        if line is None and r.crashed:
            sig = "crash:" + kind
            what = "harness died (%s) in scene %s" % (r.crash_text(), ml)
        else:
            sig = classify(kind, w, gd, gg, geoms, None)
            what = ("%s: `%s` (ray %d) returned dist=%s geom=%s, specification dist=%s geoms=%s; scene: %s; body offsets "
                    "set before the cast are in the replay script" % (
                        kind, batch.lines[li], i, gd, gg, "-1" if w[0] is None else str(w[0]), sorted(w[1] or []),
                        " | ".join(ml[2:])))
        # replay script: scene, all placement commands of the scene up to the failing line, the failing command
        pre = [x for x in batch.lines[l0:li] if x.split()[0] in ("slide", "movebody", "forward")]
        script = ["model 0"] + ml + ["end", "data 0 0"] + pre + [batch.lines[li]]
        ctx.violation(sig, what, {"script": script, "kind": kind, "want": [[None if a is None else [a.numerator, a.denominator],
                                                                           sorted(b) if b is not None else None]
                                                                          for a, b in want]})
    return r, nbad


def collect_mc(states):
    """states of an exhaustive dump with a cast event -> {scene key: (bodies, geoms, [ev...])}"""
    scenes = {}
    for st in states:
        ev = st["ev"]
        key = repr((st["bodies"], st["geoms"]))
        if key not in scenes:
            scenes[key] = (st["bodies"], st["geoms"], [])
        scenes[key][2].append(ev)
    return scenes


def _sel_dump(blk):
    if 'op |-> "ray"' in blk or 'op |-> "multi"' in blk:
        return ("bodies", "geoms", "ev")
    return None


def _sel_sim(act, blk):
    if act in ("Compile", "Move", "CastEnd", "MultiEnd"):
        return ("bodies", "geoms", "ev")
    return None


def evkey(ev):
    return repr(sorted((k, repr(v)) for k, v in ev.items() if k in ("op", "o", "d", "len", "f")))


def run(ctx):
    exe = build.build_harness("collision_drv", [DRV], extra=tladump.harness_digest_flag())
    ctx.assume("geoms are planes, spheres, axis-aligned boxes and upright capsules with integer centres and sizes",
               "rays are parallel to a coordinate axis, start at integer points, vector length 1, 2 or 4",
               "grazing rays, origins on a surface and irrational hit distances are excluded by the guard Regular",
               "planes are one-sided (hit only from the front), as documented for rendering and implemented",
               "mj_multiRay cutoff is larger than the scene; returned normals are not compared")
    cfgs = ["Ray_MC.cfg", "Ray_Pair.cfg"] + ([] if ctx.quick else ["Ray_Deep.cfg"])
    mc_cfg = "+".join(c[4:-4] for c in cfgs)
    nsim = 70 if ctx.quick else 800
    t0 = time.time()
    with cf.ThreadPoolExecutor(6) as ex:
        # no '-coverage': TLC's cost model inlines every operator at every call site and needs minutes to build for
        # this module; vacuity is checked below on the dumped events instead
        j_mc = [ex.submit(tladump.run_dump, SPEC, os.path.join(TLA, c), 3000, False, 6, None, _sel_dump) for c in cfgs]
        j_neg = ex.submit(tlc.run, SPEC, os.path.join(TLA, "Ray_Neg.cfg"), 4, (), None, 900)
        j_sim = ex.submit(tladump.simulate, SPEC, os.path.join(TLA, "Ray_Sim.cfg"), nsim, 75, ctx.seed + 16, 3000, _sel_sim)
        j_simm = ex.submit(tladump.simulate, SPEC, os.path.join(TLA, "Ray_SimMulti.cfg"), nsim, 75, ctx.seed + 61, 3000, _sel_sim)
        r_mc = [j.result() for j in j_mc]
        res_neg = j_neg.result()
        res_sim, sims = j_sim.result()
        res_simm, simms = j_simm.result()
    tladump.timing("C16 tlc runs", t0)
    t0 = time.time()
    res_mc = r_mc[0][0]
    try:
        mc = {}
        for k, (res, states, _cl) in enumerate(r_mc):
            ctx.tlc_ok(res, cfgs[k][:-4])
            for key, val in collect_mc(states()).items():
                if key in mc:
                    have = set(evkey(x) for x in mc[key][2])
                    mc[key][2].extend(e for e in val[2] if evkey(e) not in have)
                else:
                    mc[key] = val
    finally:
        for (_r, _s, cl) in r_mc:
            cl()
    ctx.control("TLC finds a counterexample to the false claim 'every cast hits something' (Ray_Neg.cfg)",
                res_neg.violation is not None and "NegAlwaysHit" in res_neg.violation)
    ctx.tlc_ok(res_sim, "Ray_Sim")
    ctx.tlc_ok(res_simm, "Ray_SimMulti")
    if len(sims) < nsim // 2 or len(simms) < nsim // 2:
        raise Machinery("simulation produced too few behaviours: %d + %d" % (len(sims), len(simms)))
    tladump.timing("C16 parse dumps", t0)
    t0 = time.time()
    # ---- exhaustive part: every cast of every scene
    batch = Batch()
    ncast = 0
    for key in sorted(mc):
        bodies, geoms, evs = mc[key]
        sid = batch.scene(bodies, geoms)
        for ev in sorted(evs, key=evkey):
            batch.cast(sid, ev)
            ncast += 1
    # vacuity: single casts and multi casts, hits and misses, every elimination rule must occur
    allev = [ev for key in mc for ev in mc[key][2]]
    need = {"single cast": any(e["op"] == "ray" for e in allev),
            "multi cast": any(e["op"] == "multi" for e in allev),
            "hit": any(e["op"] == "ray" and e["dist"][0] >= 0 for e in allev),
            "miss": any(e["op"] == "ray" and e["dist"][0] < 0 for e in allev),
            "static filter": any(e["op"] == "ray" and not e["f"]["stat"] for e in allev),
            "group filter": any(e["op"] == "ray" and len(e["f"]["groups"]) for e in allev),
            "body exclusion": any(e["op"] == "ray" and e["f"]["bx"] >= 0 for e in allev),
            "eliminated nearer geom": any(e["op"] == "ray" and any(h[0] >= 0 and (e["dist"][0] < 0 or h[0] * e["dist"][1] <
                                          e["dist"][0] * h[1]) for h in e["hits"]) for e in allev)}
    for what, seen in need.items():
        if not seen:
            raise Machinery("vacuity: the exhaustive run of %s contains no %s" % (mc_cfg, what))
    r1, bad1 = run_batch(ctx, exe, batch, "exhaustive")
    # negative control on the comparer: a shifted expected distance must be flagged
    k = next(i for i, c in enumerate(batch.checks) if c[1] == "ray" and c[2][0][0] is not None)
    li, kind, want, sid, ev = batch.checks[k]
    oi = out_index(batch.lines)
    line = r1.lines[oi[li]] if oi[li] < len(r1.lines) else None
    ctx.control("comparer flags an expected distance shifted by 1/2",
                judge(kind, [(want[0][0] + Fraction(1, 2), want[0][1])], line) is not None)
    k = next(i for i, c in enumerate(batch.checks) if c[1] == "ray" and c[2][0][0] is None)
    li, kind, want, sid, ev = batch.checks[k]
    line = r1.lines[oi[li]] if oi[li] < len(r1.lines) else None
    ctx.control("comparer flags an expected hit where the implementation reports a miss",
                judge(kind, [(Fraction(1), frozenset(["g1"]))], line) is not None)
    tladump.timing("C16 exhaustive replay", t0)
    t0 = time.time()
    # ---- simulated histories
    batch = Batch()
    nb = 0
    for beh in sims + simms:
        sid = None
        for act, st in beh:
            if act == "Compile":
                sid = batch.scene(st["bodies"], st["geoms"])
            elif sid is None:
                continue
            elif act == "Move":
                batch.move(st["bodies"])
            else:
                batch.cast(sid, st["ev"])
                ncast += 1
        nb += 1 if sid is not None else 0
    r2, bad2 = run_batch(ctx, exe, batch, "simulated")
    tladump.timing("C16 simulated replay", t0)
    ctx.cov["exhaustive"] = all(bool(x[0].finished) for x in r_mc)
    ctx.cov["rule"] = ("casts = every mj_ray / mj_multiRay event of the exhaustive state spaces Ray_{%s} (%d scenes) + the "
                       "events of %d simulated histories (scenes with up to 5 geoms on up to 3 bodies, moves in between); "
                       "each event is executed as mj_ray, mj_ray without output pointers, mj_multiRay and mju_rayGeom per "
                       "geom; evaluation = one API call compared with the specification; non-trivial = the "
                       "specification expects a hit; distinct = distinct (scene, call)" % (mc_cfg, len(mc), nb))


def replay(ctx, rp):
    exe = build.build_harness("collision_drv", [DRV], extra=tladump.harness_digest_flag())
    script = rp["replay"]["script"]
    r = drv.run_script(exe, script, timeout=120)
    oi = out_index(script)
    line = r.lines[oi[-1]] if oi[-1] < len(r.lines) else None
    want = [(None if a is None else Fraction(a[0], a[1]), None if b is None else frozenset(b)) for a, b in rp["replay"]["want"]]
    print("command: %s\noutput : %s\nspec   : %s" % (script[-1], line, [(str(w[0]), sorted(w[1] or [])) for w in want]))
    ctx.case({"replay": rp["signature"]})
    ctx.case({"replay": rp["signature"], "x": 1})
    if judge(rp["replay"]["kind"], want, line) is not None:
        ctx.violation(rp["signature"], rp["what"], rp["replay"])
