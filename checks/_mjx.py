"""Shared environment of the MJX checks (C43, C44): imports MJX from the working tree (vlib.build.REPO), never from the wheel.

DESIGN 2.1: /venv has jax and the *wheel* mujoco (3.13); `mujoco.mjx` is made to resolve to <REPO>/mjx/mujoco/mjx by
extending mujoco.__path__, with a stub `trimesh` module.  The MjModel/MjData objects (and the reference C engine the
MJX results are compared with) necessarily come from the wheel.  float64 is enabled.  XLA executables are cached under
/verif/.cache/jaxcache (keyed by the traced computation, so an edited MJX source recompiles)."""
import os
import sys
import types

from vlib import build
from vlib.check import Machinery, VERIF

_env = None


class Env:
    pass


def env():
    """import jax / mujoco / mujoco.mjx once; returns a namespace with jax, jp, np, mujoco, mjx"""
    global _env
    if _env is not None:
        return _env
    os.environ.setdefault("JAX_PLATFORMS", "cpu")
    import logging
    logging.disable(logging.WARNING)
    try:
        import numpy as np
        import jax
        jax.config.update("jax_enable_x64", True)
        cache = os.path.join(VERIF, ".cache", "jaxcache")
        os.makedirs(cache, exist_ok=True)
        try:
            jax.config.update("jax_compilation_cache_dir", cache)
            jax.config.update("jax_persistent_cache_min_compile_time_secs", 0)
            jax.config.update("jax_persistent_cache_min_entry_size_bytes", -1)
        except Exception:
            pass
        import mujoco
        root = os.path.join(build.REPO, "mjx", "mujoco")
        if not os.path.isdir(os.path.join(root, "mjx", "_src")):
            raise Machinery("no MJX sources under %s" % root)
        if root not in list(mujoco.__path__):
            mujoco.__path__.append(root)
        if "trimesh" not in sys.modules:
            tm = types.ModuleType("trimesh")
            tm.Trimesh = type("Trimesh", (), {})
            sys.modules["trimesh"] = tm
        import io
        import contextlib
        with contextlib.redirect_stdout(io.StringIO()), contextlib.redirect_stderr(io.StringIO()):
            from mujoco import mjx
        import jax.numpy as jp
    except Machinery:
        raise
    except Exception as e:                                   # an edited tree that no longer imports: machinery, not violation
        raise Machinery("cannot import MJX from %s: %r" % (build.REPO, e))
    finally:
        logging.disable(logging.NOTSET)
    if not os.path.abspath(mjx.__file__).startswith(os.path.abspath(build.REPO)):
        raise Machinery("mujoco.mjx resolved to %s, not to the working tree" % mjx.__file__)
    e = Env()
    e.jax, e.jp, e.np, e.mujoco, e.mjx = jax, jp, np, mujoco, mjx
    e.cwarnings = []
    try:                                  # engine warnings (e.g. mj_factorM on an all-zero M) are collected, not printed
        mujoco.set_mju_user_warning(lambda msg: e.cwarnings.append(str(msg)[:200]) if len(e.cwarnings) < 50 else None)
    except Exception:
        pass
    from mujoco.mjx._src import types as mjx_types
    from mujoco.mjx._src import io as mjx_io
    e.types, e.io = mjx_types, mjx_io
    _env = e
    return e


def close(a, b, rtol=1e-9, atol=1e-9):
    """|a-b| <= atol + rtol*max(|a|,|b|) elementwise on flattened arrays of equal size; NaN never passes"""
    import numpy as np
    a = np.asarray(a, dtype=float).reshape(-1)
    b = np.asarray(b, dtype=float).reshape(-1)
    if a.shape != b.shape:
        return False
    if a.size == 0:
        return True
    return bool(np.all(np.abs(a - b) <= atol + rtol * np.maximum(np.abs(a), np.abs(b))))


def maxdiff(a, b):
    import numpy as np
    a = np.asarray(a, dtype=float).reshape(-1)
    b = np.asarray(b, dtype=float).reshape(-1)
    if a.shape != b.shape:
        return float("inf")
    if a.size == 0:
        return 0.0
    return float(np.max(np.abs(a - b)))
