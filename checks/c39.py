"""C39 - VFS set semantics: Vfs.tla decided by TLC, replayed into the public mj_*VFS / mju_*Resource API."""
import os
import shutil
import tempfile

from vlib import build, tlc, drv
from vlib.check import Machinery, VERIF

TLA = os.path.join(VERIF, "tla")

META = dict(
    engine="tlc-replay",
    technique="TLA+ spec Vfs.tla model-checked by TLC; spec behaviours (edge cover of the exhaustive state graph + "
              "simulation) replayed into the public VFS/resource API with a per-state query battery",
    text="TLC decides set semantics modulo the path-reduction key on Vfs.tla for all histories up to the bound; "
         "every transition of the 3-operation graph and simulated 12-operation behaviours are replayed into "
         "mj_addBufferVFS/mj_addFileVFS/mj_deleteFileVFS/mj_contains*VFS/mju_openResource and compared step by step.",
    note="Trusted: TLC, harness vfs_drv.cc, Render() of abstract names; legacy base-name lookups with several "
         "candidates are excluded (unordered_map iteration order).",
    ref="DESIGN.md section 4 C39")


def render(n):
    s = n["dots"]
    if n["dir"]:
        s += n["dir"] + n["sep"]
    if n["dd"]:
        s += "x" + n["sep"] + ".." + n["sep"]
    return s + n["base"]


def content_bytes(c):
    if isinstance(c, str):
        return ("buffer-" + c).encode()
    return ("disk|%s|%s" % (c[1], c[2])).encode()          # <<"F", dir, base>>


def feat(n):
    f = []
    if n["dots"]:
        f.append("dot")
    if n["dd"]:
        f.append("dotdot")
    if n["sep"] == "\\" and (n["dir"] or n["dd"]):
        f.append("backslash")
    if n["dir"]:
        f.append("dir")
    return "+".join(f) or "plain"


_cmd_cache = {}


def _cmds(n):
    k = id(n)
    if k not in _cmd_cache:
        h = drv.hx(render(n))
        _cmd_cache[k] = ("cb " + h, "cf - " + h, "read " + h)
    return _cmd_cache[k]


def script_for(path_states, filesdir, battery_names):
    """op script + expectation list for one behaviour (list of states, first = initial)"""
    lines = ["new"]
    exp = [("new", None, "ok")]
    for st in path_states:
        ev = st["ev"]
        if ev["op"] == "init":
            pass
        elif ev["op"] == "addbuf":
            lines.append("addbuf %s %s" % (drv.hx(render(ev["n"])), drv.hx(content_bytes(ev["c"]))))
            exp.append(("addbuf", ev, str(ev["ret"])))
        elif ev["op"] == "addfile":
            d = filesdir + ("/d" if ev["dir"] else "")
            lines.append("addfile %s %s" % (drv.hx(d), drv.hx(ev["base"])))
            exp.append(("addfile", ev, str(ev["ret"])))
        elif ev["op"] == "delete":
            lines.append("delete %s" % drv.hx(render(ev["n"])))
            exp.append(("delete", ev, str(ev["ret"])))
        else:
            raise Machinery("unknown op %r" % (ev,))
        obs = st["obs"]
        for n in battery_names:
            o = obs[(n["dir"], n["base"])]          # K(n): the reduced key of this spelling
            c = _cmds(n)
            lines.append(c[0])
            exp.append(("cb", n, str(o["cb"])))
            lines.append(c[1])
            exp.append(("cf", n, str(o["cf"])))
            if o["rd"] != "skip":
                lines.append(c[2])
                exp.append(("read", n, "none" if o["rd"] == "none" else content_bytes(o["rd"]).hex()))
    return lines, exp


def compare(exp, got):
    """first mismatch or None"""
    for i, (kind, arg, want) in enumerate(exp):
        if i >= len(got):
            return i, kind, arg, want, "<no output: harness died>"
        if got[i] != want:
            return i, kind, arg, want, got[i]
    return None


def run(ctx):
    exe = build.build_harness("vfs_drv", [os.path.join(VERIF, "harness", "vfs_drv.cc")])
    ctx.assume("TLC explores Vfs.tla for a bounded number of operations over 42 spellings of 6 files",
               "names that are path prefixes of other names (mount directories) are outside the name space",
               "legacy base-name lookups with more than one candidate are not compared (unordered map iteration)",
               "real files for mj_addFileVFS live in a scratch directory created by the check")
    # 1. exhaustive design check, properties as invariants / action properties
    res = tlc.run(os.path.join(TLA, "Vfs.tla"), os.path.join(TLA, "Vfs_Deep.cfg"), coverage=True,
                  timeout=600)
    ctx.tlc_ok(res, "Vfs_Deep", need_actions=["AddBuffer", "AddFile", "DeleteExact", "DeleteLegacy", "DeleteAbsent"])
    # 2. behaviours for replay: every edge of the small configuration + simulated behaviours of the full one
    res, nodes, edges, inits = tlc.dump_graph(os.path.join(TLA, "Vfs.tla"), os.path.join(TLA, "Vfs_MC.cfg"),
                                              timeout=600)
    ctx.tlc_ok(res, "Vfs_MC(graph)")
    paths = tlc.edge_cover_paths(nodes, edges, inits)
    behs = [[nodes[i] for i in p] for p in paths]
    exhaustive_edges = len(edges)
    nsim = 300 if ctx.quick else 4000
    res, sims = tlc.simulate(os.path.join(TLA, "Vfs.tla"), os.path.join(TLA, "Vfs_Sim.cfg"), num=nsim, depth=13,
                             seed=ctx.seed + 1, timeout=900)
    ctx.tlc_ok(res, "Vfs_Sim")
    behs += [[s for (_a, s) in b] for b in sims]
    if not behs:
        raise Machinery("no behaviours produced")
    allnames = []
    for dots in ("", "./"):
        for d in ("", "d"):
            for sep in ("/", "\\"):
                for dd in (False, True):
                    for b in ("a.txt", "A.TXT", "b.txt"):
                        if d == "" and not dd and sep != "/":
                            continue
                        allnames.append({"dots": dots, "dir": d, "sep": sep, "dd": dd, "base": b})
    tmp = tempfile.mkdtemp(prefix="c39", dir=os.path.join(VERIF, ".cache"))
    try:
        fdir = os.path.join(tmp, "files")
        os.makedirs(os.path.join(fdir, "d"))
        os.makedirs(os.path.join(tmp, "cwd"))
        for d in ("", "d"):
            for b in ("a.txt", "A.TXT", "b.txt"):
                with open(os.path.join(fdir, d, b), "wb") as f:
                    f.write(content_bytes(("F", d, b)))
        lines, exps, index = [], [], []
        for bi, beh in enumerate(behs):
            # full battery on every state for simulated behaviours; edge-cover paths: battery on the last state
            if bi < len(paths):
                pre = beh[:-1]
                l1, e1 = script_for(pre, fdir, [])
                l2, e2 = script_for(beh[-1:], fdir, allnames)
                l, e = l1 + l2[1:], e1 + e2[1:]
            else:
                l, e = script_for(beh, fdir, allnames)
            index.append((len(lines), len(l), bi))
            lines += l
            exps += e
        r = drv.run_script(exe, lines, cwd=os.path.join(tmp, "cwd"), timeout=900)
        # negative control: a flipped expectation must be flagged by the comparer
        bad = list(exps[:50])
        k = next(i for i, x in enumerate(bad) if x[0] in ("addbuf", "addfile", "delete", "cb"))
        bad[k] = (bad[k][0], bad[k][1], "9")
        ctx.control("perturbed expected return code is flagged", compare(bad, r.lines[:50]) is not None)
        for (off, ln, bi) in index:
            beh = behs[bi]
            e = exps[off:off + ln]
            g = r.lines[off:off + ln]
            mm = compare(e, g)
            ops = [st["ev"] for st in beh if st["ev"]["op"] != "init"]
            ctx.case({"ops": [tlc.to_py(o) for o in ops]}, nontrivial=len(ops) > 0,
                     sample={"ops": [tlc.to_py(o) for o in ops][:6]})
            if mm is None:
                ctx.trace_ok()
                continue
            i, kind, arg, want, got = mm
            if kind in ("cb", "cf", "read"):
                sig = "%s:%s:want=%s" % (kind, feat(arg), "present" if want not in ("0", "none") else "absent")
                what = "%s(%r) returned %s, specification says %s after %s" % (
                    kind, render(arg), got, want, [(o["op"], render(o["n"]) if "n" in o else o["base"]) for o in ops])
            else:
                sig = "%s:%s:want=%s" % (kind, feat(arg["n"]) if "n" in arg else "file", want)
                what = "%s returned %s, specification says %s (history %s)" % (
                    kind, got, want, [(o["op"], render(o["n"]) if "n" in o else o["base"]) for o in ops])
            if r.crashed and i >= len(g):
                sig = "crash"
                what = "harness died: " + r.crash_text()
            ctx.violation(sig, what, {"script": lines[off:off + ln], "first_bad_line": i, "want": want, "got": got})
        ctx.cov["exhaustive"] = bool(res.finished)
        ctx.cov["rule"] = ("behaviours = edge cover of the exhaustive 3-operation state graph (%d edges) + %d simulated "
                           "behaviours of depth 12 over the full name space; after each step every spelling is queried "
                           "(containsBuffer/containsFile/open+read); non-trivial = at least one operation; "
                           "distinct = distinct operation sequences" % (exhaustive_edges, len(sims)))
    finally:
        shutil.rmtree(tmp, ignore_errors=True)


def replay(ctx, rp):
    exe = build.build_harness("vfs_drv", [os.path.join(VERIF, "harness", "vfs_drv.cc")])
    tmp = tempfile.mkdtemp(prefix="c39r", dir=os.path.join(VERIF, ".cache"))
    try:
        r = drv.run_script(exe, rp["replay"]["script"], cwd=tmp)
        i = rp["replay"]["first_bad_line"]
        got = r.lines[i] if i < len(r.lines) else "<none>"
        print("line %d: want %s got %s" % (i, rp["replay"]["want"], got))
        if got != rp["replay"]["want"]:
            ctx.violation(rp["signature"], rp["what"], rp["replay"])
        ctx.case({"replay": rp["signature"]})
        ctx.case({"replay": rp["signature"], "x": 1})
    finally:
        shutil.rmtree(tmp, ignore_errors=True)
