"""C29 - passive forces follow their physical laws: SmoothLattice.tla decided by TLC on the quarter-turn lattice
(springs, dampers, gravity compensation, fixed tendons with a dead band, disable flags), every finished lattice model
replayed into mj_passive / mj_energyPos."""
import os

from checks import _smooth as S

META = dict(
    engine="tlc-replay",
    technique="TLA+ spec SmoothLattice.tla: documented polynomial laws spring f(x) = -(a x + b x^2 + c x^3), damper f(v) = "
              "-(a v + b v|v| + c v^3), potential a x^2/2 + b x^3/3 + c x^4/4 for joints, the fixed tendon (dead band) and a "
              "spatial site-to-site tendon (integer length; rationals over L^4), gravity compensation = -gc J' m g, potential "
              "energy, all by definition in exact integer arithmetic "
              "(hinge quantities in units of a quarter turn); TLC decides spring+gravity force = - exact central difference "
              "of the potential (springs: exact five-point stencil of the quartic potential), dampers odd in the velocity and, "
              "for sign-preserving coefficients, power <= 0 element by element and in total, gravity compensation = gradient of the compensated bodies' potential, zero "
              "passive force at rest at the reference; every finished model is replayed under the disable flags",
    text="Exhaustive 1-body lattice crossed with the spring/damper/gravity disable flags and tendon dead bands, exhaustive "
         "2-body lattice (thorough) and simulated 3-4 body models are replayed: qfrc_spring, qfrc_damper, qfrc_gravcomp, "
         "qfrc_passive, ten_length, ten_velocity, potential energy at the state and one lattice step forth/back along every "
         "coordinate (mj_integratePos).",
    note="Trusted: TLC, harness smooth_drv.cc. Both spring and damper disabled skips every passive force including gravity "
         "compensation (documented). Not decided: ball/free joint springs, tendons wrapping geoms, damping inherited from "
         "actuators, spatial-tendon potentials one lattice step away (irrational length), fluid and flex forces, actuator-applied gravity compensation.",
    ref="DESIGN.md section 4 C06, C07, C29")

SPEC = os.path.join(S.TLA, "SmoothLattice.tla")
U = S.U


def script_for(ev):
    sc = S.Script()
    nv = ev["nv"]
    sc.model(S.model_lines(ev))
    sc.ok("data 0 0")
    sc.ok("free 1")
    S.sanity(sc, ev)
    if nv == 0:
        return sc
    sc.oks(S.state_lines(ev))
    sc.ok("forward 0")
    un = [S.unit_of(ev, d) for d in range(nv)]
    den = ev["pden"]                     # spring, damper, passive are published over this denominator (L^4 or 1)
    spring = [S.upoly(ev["spring"][d], den) for d in range(nv)]
    damper = [ev["damper"][d] / float(den) for d in range(nv)]
    passive = [S.upoly(ev["passive"][d], den) for d in range(nv)]
    scale = max([1.0] + [abs(x) for x in spring] + [abs(x) for x in damper] + [abs(x) for x in ev["gravcomp"]])
    sc.vec("get 0 qfrc_spring", "qfrc_spring", spring, scale=scale)
    sc.vec("get 0 qfrc_damper", "qfrc_damper", damper, scale=scale)
    sc.vec("get 0 qfrc_gravcomp", "qfrc_gravcomp", ev["gravcomp"], scale=scale)
    sc.vec("get 0 qfrc_passive", "qfrc_passive", passive, scale=scale)
    ten = [b for b in ev["bodies"] if b["tc"] != 0]
    tl, tv = [], []
    if ten:
        tu = U if ten[0]["jt"] == "hinge" else 1.0
        tl.append(ev["tlen"] * tu)
        tv.append(ev["tvel"])
    if ev["spL"] > 0:                    # the spatial tendon comes after the fixed one
        tl.append(ev["spL"])
        tv.append(ev["spS"] / float(ev["spL"]))
    if tl:
        sc.vec("get 0 ten_length", "ten_length", tl)
        sc.vec("get 0 ten_velocity", "ten_velocity", tv, scale=max(abs(x) for x in tv))
    pot = S.upoly(ev["pot12"], 12)
    escale = max([1.0] + [abs(x) * U ** k / 12.0 for k, x in enumerate(ev["pot12"])])
    sc.ok("energyPos 0")
    sc.num("dscalar 0 energy0", "energy(potential)", pot, scale=escale)
    if ev["fdok"]:
        for d in range(nv):
            for sgn, p12 in ((1, ev["pot12p"][d]), (-1, ev["pot12m"][d])):
                sc.ok("copydata 1 0")
                sc.ok("intpos 1 %d %s" % (d, S.num(sgn * un[d])))
                sc.ok("fwdPosition 1")
                sc.ok("energyPos 1")
                sc.num("dscalar 1 energy0", "energy(potential)%+d" % sgn, S.upoly(p12, 12),
                       scale=max([escale] + [abs(x) * U ** k / 12.0 for k, x in enumerate(p12)]))
    return sc


def sig_of(ev, label):
    """quantity : kinds of elements carrying the quantity (joint types, fixed / spatial tendon, polynomial coefficients) :
    disable flags that matter for it"""
    b, g = ev["bodies"], ev["glob"]
    ten = ("+tendon" if any(x["tc"] != 0 for x in b) else "") + ("+spatial" if ev["sppas"] else "")
    pk = any(tuple(x["kp"]) != (0, 0) for x in b) or tuple(g["tkp"]) != (0, 0) or tuple(g["ssk"][1:]) != (0, 0)
    pd = any(tuple(x["dp"]) != (0, 0) for x in b) or tuple(g["tdp"]) != (0, 0) or tuple(g["ssd"][1:]) != (0, 0)
    if label.startswith("qfrc_damper") or label.startswith("ten_velocity"):
        return "C29:%s:joints=%s%s%s" % (label, "".join(sorted(set(S.features(ev)))), ten, "+polydamper" if pd else "")
    if label.startswith("qfrc_spring") or label.startswith("energy") or label.startswith("ten_length"):
        return "C29:%s:joints=%s%s%s:disabled=%s" % (label, "".join(sorted(set(S.features(ev)))), ten, "+polyspring" if pk else "",
                                                    "+".join(sorted(set(g["dis"]) - {"damper"})) or "none")
    return "C29:%s:joints=%s%s%s%s:disabled=%s" % (label, "".join(sorted(set(S.features(ev)))), ten, "+polyspring" if pk else "",
                                                  "+polydamper" if pd else "", "+".join(sorted(g["dis"])) or "none")


def describe(ev):
    return "disabled=%s g=%s" % (sorted(ev["glob"]["dis"]), list(ev["glob"]["g"]))


NEED = {
    "a stretched hinge spring": lambda ev: any(b["jt"] == "hinge" and b["k"] != 0 and b["q"] != b["qref"] for b in ev["bodies"])
    and "spring" not in ev["glob"]["dis"],
    "a stretched slide spring": lambda ev: any(b["jt"] == "slide" and b["k"] != 0 and b["q"] != b["qref"] for b in ev["bodies"])
    and "spring" not in ev["glob"]["dis"],
    "a moving damper": lambda ev: any(x != 0 for x in ev["damper"]),
    "a joint damper with a non-zero odd-order (v|v|) coefficient at negative velocity": lambda ev: "damper" not in ev["glob"]["dis"] and any(
        b["jt"] != "none" and b["dp"][0] != 0 and b["v"] < 0 for b in ev["bodies"]),
    "a fixed-tendon damper with a non-zero odd-order coefficient at negative tendon velocity": lambda ev: (
        "damper" not in ev["glob"]["dis"] and any(b["tc"] != 0 for b in ev["bodies"]) and ev["glob"]["tdp"][0] != 0 and ev["tvel"] < 0),
    "a joint spring with non-zero quadratic and cubic coefficients, stretched both ways": lambda ev: "spring" not in ev["glob"]["dis"] and any(
        b["jt"] != "none" and b["kp"][0] != 0 and b["kp"][1] != 0 and b["q"] != b["qref"] for b in ev["bodies"]),
    "a fixed-tendon spring with a polynomial coefficient outside its dead band": lambda ev: (
        "spring" not in ev["glob"]["dis"] and tuple(ev["glob"]["tkp"]) != (0, 0) and any(b["tc"] != 0 for b in ev["bodies"]) and (
            ev["tlen"] > ev["glob"]["trange"][1] or ev["tlen"] < ev["glob"]["trange"][0])),
    "gravity compensation with a nonzero force": lambda ev: any(x != 0 for x in ev["gravcomp"]),
    "a tendon outside its dead band": lambda ev: ev["glob"]["tk"] != 0 and any(b["tc"] != 0 for b in ev["bodies"]) and (
        ev["tlen"] > ev["glob"]["trange"][1] or ev["tlen"] < ev["glob"]["trange"][0]),
    "springs disabled": lambda ev: "spring" in ev["glob"]["dis"],
    "dampers disabled": lambda ev: "damper" in ev["glob"]["dis"],
    "springs and dampers disabled": lambda ev: {"spring", "damper"} <= set(ev["glob"]["dis"]),
    "gravity disabled with gravity compensation": lambda ev: "gravity" in ev["glob"]["dis"] and any(b["gc"] for b in ev["bodies"]),
    "rest at the reference": lambda ev: ev["nv"] > 0 and all(b["v"] == 0 and b["q"] == b["qref"] for b in ev["bodies"]),
}


NEED_SIM = {       # occur only in the simulated large lattice (the spatial tendon needs an integer length)
    "a spatial-tendon damper with a non-zero odd-order coefficient at negative tendon velocity": lambda ev: (
        ev["sppas"] and "damper" not in ev["glob"]["dis"] and ev["glob"]["ssd"][1] != 0 and ev["spS"] < 0),
    "a spatial-tendon spring outside its dead band": lambda ev: (
        ev["sppas"] and "spring" not in ev["glob"]["dis"] and tuple(ev["glob"]["ssk"]) != (0, 0, 0) and (
            ev["spL"] > ev["glob"]["ssr"][1] or ev["spL"] < ev["glob"]["ssr"][0])),
}


def run(ctx):
    ctx.assume("trees of at most 4 bodies, one slide or hinge joint per body on a signed coordinate axis, quarter-turn poses",
               "integer stiffness, springref (in lattice units), damping, gravcomp in {0,1,2}, gravity vectors, velocities",
               "one fixed tendon over joints of one type with integer coefficients, stiffness, dead band, damping",
               "comparison tolerance 1e-9 relative to the largest passive force / energy term of the model")
    if ctx.quick:
        mcs, nsim, cov = ["SmoothLattice_C29MC1.cfg"], 120, None
    else:
        mcs, nsim, cov = ["SmoothLattice_C29MC1.cfg", "SmoothLattice_C29MC.cfg"], 1500, "SmoothLattice_Cov.cfg"
    allres = S.run_lattice(ctx, "C29", SPEC, mcs, "SmoothLattice_C29Sim.cfg", nsim, script_for, sig_of,
                           need=NEED if ctx.quick else dict(NEED, **NEED_SIM), describe=describe, cov_cfg=cov,
                           neg_cfg=None if ctx.quick else [("SmoothLattice_C29Neg.cfg", "NegSpringSign"),
                                                           ("SmoothLattice_C29Neg2.cfg", "NegDamperPlainPoly")])
    sims = allres[-1][1]
    S.perturb_control(ctx, "perturbed spring force is flagged", sims, "qfrc_spring", 1e-6)
    S.perturb_control(ctx, "perturbed passive force is flagged", sims, "qfrc_passive", 1e-6)
    S.perturb_control(ctx, "perturbed potential energy is flagged", sims, "energy(potential)+1", 1e-6)


def replay(ctx, rp):
    S.replay_common(ctx, rp)
