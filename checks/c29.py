"""C29 - passive forces follow their physical laws: SmoothLattice.tla decided by TLC on the quarter-turn lattice
(springs, dampers, gravity compensation, fixed tendons with a dead band, disable flags), every finished lattice model
replayed into mj_passive / mj_energyPos."""
import os

from checks import _smooth as S

META = dict(
    engine="tlc-replay",
    technique="TLA+ spec SmoothLattice.tla: spring = -k (q - springref), damper = -d v, gravity compensation = -gc J' m g, "
              "fixed-tendon spring with dead band and damper, potential energy, all by definition in exact integer arithmetic "
              "(hinge quantities in units of a quarter turn); TLC decides spring+gravity force = - exact central difference "
              "of the potential, damper power <= 0, gravity compensation = gradient of the compensated bodies' potential, zero "
              "passive force at rest at the reference; every finished model is replayed under the disable flags",
    text="Exhaustive 1-body lattice crossed with the spring/damper/gravity disable flags and tendon dead bands, exhaustive "
         "2-body lattice (thorough) and simulated 3-4 body models are replayed: qfrc_spring, qfrc_damper, qfrc_gravcomp, "
         "qfrc_passive, ten_length, ten_velocity, potential energy at the state and one lattice step forth/back along every "
         "coordinate (mj_integratePos).",
    note="Trusted: TLC, harness smooth_drv.cc. Both spring and damper disabled skips every passive force including gravity "
         "compensation (documented). Not decided: polynomial stiffness/damping, ball/free joint springs, spatial tendons, "
         "fluid and flex forces, actuator-applied gravity compensation.",
    ref="DESIGN.md section 4 C06, C07, C29")

SPEC = os.path.join(S.TLA, "SmoothLattice.tla")
U = S.U


def two(a, b):
    return a + b * U


def script_for(ev):
    sc = S.Script()
    nv = ev["nv"]
    sc.model(S.model_lines(ev))
    sc.ok("data 0 0")
    sc.ok("free 1")
    S.sanity(sc, ev)
    if nv == 0:
        return sc
    sc.oks(S.state_lines(ev))
    sc.ok("forward 0")
    un = [S.unit_of(ev, d) for d in range(nv)]
    spring = [ev["spring"][d] * un[d] for d in range(nv)]
    passive = [two(ev["pasA"][d], ev["pasB"][d]) for d in range(nv)]
    scale = max([1.0] + [abs(x) for x in spring] + [abs(x) for x in ev["damper"]] + [abs(x) for x in ev["gravcomp"]])
    sc.vec("get 0 qfrc_spring", "qfrc_spring", spring, scale=scale)
    sc.vec("get 0 qfrc_damper", "qfrc_damper", ev["damper"], scale=scale)
    sc.vec("get 0 qfrc_gravcomp", "qfrc_gravcomp", ev["gravcomp"], scale=scale)
    sc.vec("get 0 qfrc_passive", "qfrc_passive", passive, scale=scale)
    ten = [b for b in ev["bodies"] if b["tc"] != 0]
    if ten:
        tu = U if ten[0]["jt"] == "hinge" else 1.0
        sc.vec("get 0 ten_length", "ten_length", [ev["tlen"] * tu])
        sc.vec("get 0 ten_velocity", "ten_velocity", [ev["tvel"]])
    escale = max([1.0, abs(ev["potA2"]) / 2.0, abs(ev["potB2"]) * U * U / 2.0])
    sc.ok("energyPos 0")
    sc.num("dscalar 0 energy0", "energy(potential)", (ev["potA2"] + ev["potB2"] * U * U) / 2.0, scale=escale)
    for d in range(nv):
        for sgn, a2, b2 in ((1, ev["potA2p"][d], ev["potB2p"][d]), (-1, ev["potA2m"][d], ev["potB2m"][d])):
            sc.ok("copydata 1 0")
            sc.ok("intpos 1 %d %s" % (d, S.num(sgn * un[d])))
            sc.ok("fwdPosition 1")
            sc.ok("energyPos 1")
            sc.num("dscalar 1 energy0", "energy(potential)%+d" % sgn, (a2 + b2 * U * U) / 2.0,
                   scale=max(escale, abs(a2) / 2.0, abs(b2) * U * U / 2.0))
    return sc


def sig_of(ev, label):
    dis = "+".join(sorted(ev["glob"]["dis"])) or "none"
    ten = "+tendon" if any(b["tc"] != 0 for b in ev["bodies"]) else ""
    return "C29:%s:joints=%s%s:disabled=%s" % (label, "".join(sorted(set(S.features(ev)))), ten, dis)


def describe(ev):
    return "disabled=%s g=%s" % (sorted(ev["glob"]["dis"]), list(ev["glob"]["g"]))


NEED = {
    "a stretched hinge spring": lambda ev: any(b["jt"] == "hinge" and b["k"] != 0 and b["q"] != b["qref"] for b in ev["bodies"])
    and "spring" not in ev["glob"]["dis"],
    "a stretched slide spring": lambda ev: any(b["jt"] == "slide" and b["k"] != 0 and b["q"] != b["qref"] for b in ev["bodies"])
    and "spring" not in ev["glob"]["dis"],
    "a moving damper": lambda ev: any(x != 0 for x in ev["damper"]),
    "gravity compensation with a nonzero force": lambda ev: any(x != 0 for x in ev["gravcomp"]),
    "a tendon outside its dead band": lambda ev: ev["glob"]["tk"] != 0 and any(b["tc"] != 0 for b in ev["bodies"]) and (
        ev["tlen"] > ev["glob"]["trange"][1] or ev["tlen"] < ev["glob"]["trange"][0]),
    "springs disabled": lambda ev: "spring" in ev["glob"]["dis"],
    "dampers disabled": lambda ev: "damper" in ev["glob"]["dis"],
    "springs and dampers disabled": lambda ev: {"spring", "damper"} <= set(ev["glob"]["dis"]),
    "gravity disabled with gravity compensation": lambda ev: "gravity" in ev["glob"]["dis"] and any(b["gc"] for b in ev["bodies"]),
    "rest at the reference": lambda ev: ev["nv"] > 0 and all(b["v"] == 0 and b["q"] == b["qref"] for b in ev["bodies"]),
}


def run(ctx):
    ctx.assume("trees of at most 4 bodies, one slide or hinge joint per body on a signed coordinate axis, quarter-turn poses",
               "integer stiffness, springref (in lattice units), damping, gravcomp in {0,1,2}, gravity vectors, velocities",
               "one fixed tendon over joints of one type with integer coefficients, stiffness, dead band, damping",
               "comparison tolerance 1e-9 relative to the largest passive force / energy term of the model")
    if ctx.quick:
        mcs, nsim, cov = ["SmoothLattice_C29MC1.cfg"], 150, None
    else:
        mcs, nsim, cov = ["SmoothLattice_C29MC1.cfg", "SmoothLattice_C29MC.cfg"], 1500, "SmoothLattice_Cov.cfg"
    allres = S.run_lattice(ctx, "C29", SPEC, mcs, "SmoothLattice_C29Sim.cfg", nsim, script_for, sig_of, need=NEED,
                           describe=describe, cov_cfg=cov, neg_cfg=None if ctx.quick else ("SmoothLattice_C29Neg.cfg", "NegSpringSign"))
    sims = allres[-1][1]
    S.perturb_control(ctx, "perturbed spring force is flagged", sims, "qfrc_spring", 1e-6)
    S.perturb_control(ctx, "perturbed passive force is flagged", sims, "qfrc_passive", 1e-6)
    S.perturb_control(ctx, "perturbed potential energy is flagged", sims, "energy(potential)+1", 1e-6)


def replay(ctx, rp):
    S.replay_common(ctx, rp)
