"""C48 - sysid signal transforms are pure: SignalOps.tla decided by TLC, behaviours replayed into
python/mujoco/sysid/_src/{signal_modifier,timeseries}.py of the working tree."""
import importlib
import os
import sys
import types

import numpy as np

from vlib import build, tlc
from checks import simparse
from vlib.check import Machinery, VERIF

TLA = os.path.join(VERIF, "tla")
SPEC = os.path.join(TLA, "SignalOps.tla")

META = dict(
    engine="tlc-replay",
    technique="TLA+ spec SignalOps.tla (heap of array buffers + time-series objects that may be views; one action per "
              "transform) model-checked by TLC; every transition of the small exhaustive state graph and simulated "
              "longer behaviours are replayed into signal_modifier.py / timeseries.py; after every call ALL live "
              "series are compared bit for bit with the specification's obs",
    text="TLC decides NoWriteToExisting / Purity / ReturnsNew, resample-at-own-times identity, interpolation within "
         "neighbours, grouped = column-wise delays and window exactness on SignalOps.tla (dyadic lattice where doubles "
         "are exact); apply_bias/gain/delay/time_window/delayed_ts_window/resample_and_delay and "
         "TimeSeries.resample/get/remove_from_beginning are driven through TLC's behaviours and must reproduce obs.",
    note="Trusted: TLC, the rendering of lattice integers to doubles, numpy/scipy of /venv. Sharing memory between "
         "result and input is allowed (only writes are flagged). Single-sample series are not interpolated "
         "(scipy returns NaN there; left open). Cubic/quadratic interpolation and target_dt resampling not covered.",
    ref="DESIGN.md section 4 C48")

_mods = None


def load_sysid():
    """signal_modifier / timeseries / parameter of the working tree, loaded without the package __init__"""
    global _mods
    if _mods is not None:
        return _mods
    for n in ("colorama", "yaml", "tabulate"):
        if n not in sys.modules:
            sys.modules[n] = types.ModuleType(n)
    sys.modules["colorama"].Fore = types.SimpleNamespace()
    sys.modules["colorama"].Style = types.SimpleNamespace()
    sys.modules["tabulate"].tabulate = lambda *a, **k: ""
    import mujoco  # noqa: F401  (the wheel; only type annotations and name lookups refer to it)
    root = os.path.join(build.REPO, "python", "mujoco", "sysid")
    if not os.path.exists(os.path.join(root, "_src", "signal_modifier.py")):
        raise Machinery("no sysid sources under " + root)
    for name, path in (("mujoco.sysid", root), ("mujoco.sysid._src", os.path.join(root, "_src"))):
        m = types.ModuleType(name)
        m.__path__ = [path]
        sys.modules[name] = m
    sm = importlib.import_module("mujoco.sysid._src.signal_modifier")
    ts = importlib.import_module("mujoco.sysid._src.timeseries")
    pa = importlib.import_module("mujoco.sysid._src.parameter")
    for m in (sm, ts, pa):
        if not os.path.abspath(m.__file__).startswith(os.path.abspath(build.REPO)):
            raise Machinery("module %s not loaded from the working tree" % m.__file__)
    _mods = (sm, ts, pa)
    return _mods


# ---- rendering of lattice values ----------------------------------------------------------------
def r_times(t, tden):
    return np.array([x / tden for x in t], dtype=np.float64)


def r_data(d, q):
    return np.array([[v / q for v in row] for row in d], dtype=np.float64)


def pert(p, x):
    """rendering of perturbation number p of SignalOps.tla's near delays (p = 0: the lattice delay itself)"""
    if p == 0:
        return x
    if p == 1:
        return float(np.nextafter(x, np.inf))
    if p == 7:
        return (x + 0.1) - 0.1                      # round-off of the caller's delay arithmetic
    return x + {2: 1e-12, 3: 1e-10, 4: 4e-10, 5: 1e-9, 6: 1e-6}[p]


class Replayer:
    """drives the implementation through one specification behaviour (list of states with ev / obs)"""

    def __init__(self, impl=None):
        self.sm, self.ts, self.pa = load_sysid()
        self.impl = impl or {}
        self.calls = 0
        self.near = {"pairs<1e-9": 0, "pairs_adjacent_floats": 0, "pairs_1e-9..1e-6": 0, "calls": 0}

    def fn(self, name):
        return self.impl.get(name) or getattr(self.sm, name)

    def param(self, v):
        return self.pa.Parameter("p", v, v - 1.0, v + 1.0)

    def mk(self, o, mapping):
        return self.ts.TimeSeries.create(r_times(o["t"], self.tden), r_data(o["d"], self.q), mapping)

    def call(self, ev, objs, nxt):
        """returns (result, extra arrays handed to the call)"""
        op = ev["op"]
        td = self.tden
        x = objs[ev["o"] - 1]
        if op == "bias":
            p = self.param(ev["b"] / self.q)
            return self.fn("apply_bias")(x, ev["s"], p), [p.value]
        if op == "gain":
            p = self.param(ev["g"][0] / ev["g"][1])
            return self.fn("apply_gain")(x, ev["s"], p), [p.value]
        if op == "delay":
            p = self.param(ev["dl"] / td)
            return self.fn("apply_delay")(x, ev["s"], p), [p.value]
        if op == "window":
            return self.fn("apply_time_window")(x, ev["a"][0] / td, ev["a"][1] / td), []
        if op == "dwindow":
            od, mn, mx = ev["a"]
            return self.fn("apply_delayed_ts_window")(x, objs[od - 1], mn / td, mx / td), []
        if op == "rsd":
            grid = r_times(nxt["obs"][ev["new"] - 1]["t"], td)      # the caller's grid = spec's Grids[g]
            cfg = ev["cfg"]
            sd = {s: cfg[s] / td for s in ("a", "b") if cfg[s] != -99}
            if not sd and (self.calls % 2):
                sd = None
            return self.fn("apply_resample_and_delay")(x, grid, cfg["dd"] / td, sensor_delays=sd,
                                                       predicted_data=bool(cfg["pred"])), [grid]
        if op == "rsdn":
            grid = r_times(ev["grid"], td)
            cfg = ev["cfg"]
            raw = lambda sym: pert(sym[1], sym[0] / td)          # noqa: E731
            sd = {s: raw(cfg[s]) for s in ("a", "b") if cfg[s][0] != -99}
            return self.fn("apply_resample_and_delay")(x, grid, raw(cfg["dd"]), sensor_delays=sd or None,
                                                       predicted_data=bool(cfg["pred"])), [grid]
        if op == "resample":
            if ev["g"] == 0:
                return x.resample(x.times, method=ev["m"]), []
            grid = r_times(nxt["obs"][ev["new"] - 1]["t"], td)
            return x.resample(grid, method=ev["m"]), [grid]
        if op == "get":
            return x.get(ev["t"] / td, method=ev["m"]), []
        if op == "rfb":
            return x.remove_from_beginning(ev["cut"] / td), []
        raise Machinery("unknown op %r" % (ev,))

    def check_near(self, si, ev, x, res):
        """apply_resample_and_delay with almost-equal delays: every column must equal TimeSeries.resample of that
        column alone at grid + its own shift (the specification's law), unperturbed columns the lattice values"""
        out = []
        td = self.tden
        grid = r_times(ev["grid"], td)
        if not (isinstance(res, self.ts.TimeSeries) and np.array_equal(res.times, grid)
                and res.data.shape == (len(grid), 3)):
            return [(si, "rsdn:result:shape", "apply_resample_and_delay returned a malformed series")]
        shifts = []
        for col in ev["cols"]:
            xraw = (-col["base"] if col["neg"] else col["base"]) / td
            f = pert(col["p"], xraw)
            shifts.append(-f if col["neg"] else f)
        self.near["calls"] += 1
        for i in range(3):
            for j in range(i + 1, 3):
                d = abs(shifts[i] - shifts[j])
                if d == 0:
                    continue
                if d < 1e-9:
                    self.near["pairs<1e-9"] += 1
                    if d <= np.spacing(max(abs(shifts[i]), abs(shifts[j]))):
                        self.near["pairs_adjacent_floats"] += 1
                elif d <= 1.5e-6:
                    self.near["pairs_1e-9..1e-6"] += 1
        for ci, col in enumerate(ev["cols"]):
            one = self.ts.TimeSeries(x.times, x.data[:, [ci]])
            ref = one.resample(grid + shifts[ci]).data[:, 0]
            if not np.array_equal(res.data[:, ci], ref):
                others = sorted(abs(shifts[ci] - s2) for k2, s2 in enumerate(shifts) if k2 != ci and s2 != shifts[ci])
                cls = "near-delay<1e-9" if others and others[0] < 1e-9 else "separate-delay"
                out.append((si, "rsdn:grouped-differs-from-columnwise:%s" % cls,
                            "apply_resample_and_delay(delays %s): column %d = %s, but resampling that column alone "
                            "at times + %r gives %s" % ([repr(v) for v in shifts], ci, res.data[:, ci].tolist(),
                                                        shifts[ci], ref.tolist())))
            if col["p"] == 0:
                want = np.array([row[ci] / self.q for row in ev["base"]])
                if not np.array_equal(res.data[:, ci], want):
                    out.append((si, "rsdn:unperturbed-column-off-lattice",
                                "apply_resample_and_delay(delays %s): column %d has the exact delay %r, result %s, "
                                "specification says %s" % ([repr(v) for v in shifts], ci, shifts[ci],
                                                           res.data[:, ci].tolist(), want.tolist())))
        return out

    def run(self, states):
        """returns list of problems [(step, signature, text)]; resynchronises after each problem"""
        problems = []
        objs = []
        mapping = None
        for si, st in enumerate(states):
            ev = st["ev"]
            op = ev["op"]
            if op == "init":
                continue
            obs = st["obs"]
            if op == "create":
                self.q, self.tden = ev["q"], ev["tden"]
                mapping = {s: (self.ts.SignalType.CustomObs, np.array([c - 1 for c in ev["map"][s]]))
                           for s in ev["map"]}
                objs.append(self.mk(obs[ev["new"] - 1], mapping))
                continue
            self.calls += 1
            live = []
            for o in objs:
                live += [o.times, o.data]
            snap = [(a, a.tobytes()) for a in live]
            inputs = [objs[ev["o"] - 1]] + ([objs[ev["a"][0] - 1]] if op == "dwindow" else [])
            err = None
            res, extra = None, []
            try:
                res, extra = self.call(ev, objs, st)
            except ValueError as e:
                err = e
            # (1) every series that existed must still equal the specification's contents
            for k, o in enumerate(objs):
                want = obs[k]
                if not (np.array_equal(o.times, r_times(want["t"], self.tden))):
                    problems.append((si, "%s:input-modified:times" % op,
                                     "%s changed the time stamps of existing series #%d" % (op, k + 1)))
                if not (o.data.shape == (len(want["d"]), 3) and np.array_equal(o.data, r_data(want["d"], self.q))):
                    problems.append((si, "%s:input-modified:data" % op,
                                     "%s(%s) changed the data of existing series #%d (%s): now %s, specification "
                                     "(Purity) says %s" % (op, {k2: v for k2, v in ev.items() if k2 not in ("op",)},
                                                           k + 1, "an argument" if any(o is i for i in inputs) else "aliased by a view",
                                                           o.data.T.tolist(), r_data(want["d"], self.q).T.tolist())))
            dirty = [(a, b) for a, b in snap if a.tobytes() != b]
            if dirty:                                                                # repair and go on
                if isinstance(res, self.ts.TimeSeries):                              # result may alias what we restore
                    res = self.ts.TimeSeries(res.times.copy(), res.data.copy(), res.signal_mapping)
                for a, b in dirty:
                    a[...] = np.frombuffer(b, dtype=a.dtype).reshape(a.shape)
            # (2) the result
            if ev["err"]:
                if err is None:
                    problems.append((si, "%s:error-expected" % op, "%s%r: specification says ValueError, got a result"
                                     % (op, ev.get("a"))))
                continue
            if err is not None:
                problems.append((si, "%s:unexpected-error" % op, "%s raised %r, specification returns a series"
                                 % (op, err)))
                if op != "get":
                    objs.append(self.mk(obs[ev["new"] - 1], mapping))
                continue
            if op == "get":
                t_out, row = res
                want = np.array([v / self.q for v in ev["ret"]])
                if not (np.shape(row) == (3,) and np.array_equal(row, want)):
                    problems.append((si, "get:%s:value" % ev["m"], "get(t=%s, %s) = %s, specification says %s"
                                     % (ev["t"] / self.tden, ev["m"], np.asarray(row).tolist(), want.tolist())))
                continue
            if op == "rsdn":
                problems += self.check_near(si, ev, objs[ev["o"] - 1], res)
                continue
            want = obs[ev["new"] - 1]
            bad = None
            if any(res is i for i in inputs):
                bad = ("returns-input", "returned its argument instead of a new series")
            elif not isinstance(res, self.ts.TimeSeries):
                bad = ("result:type", "returned %s" % type(res).__name__)
            elif not np.array_equal(res.times, r_times(want["t"], self.tden)):
                bad = ("result:times", "times %s, specification says %s" % (res.times.tolist(),
                                                                            r_times(want["t"], self.tden).tolist()))
            elif not (res.data.shape == (len(want["d"]), 3) and np.array_equal(res.data, r_data(want["d"], self.q))):
                bad = ("result:data", "data %s, specification says %s" % (res.data.T.tolist(),
                                                                         r_data(want["d"], self.q).T.tolist()))
            elif res.signal_mapping is None or sorted(res.signal_mapping) != sorted(mapping):
                bad = ("result:mapping", "signal mapping lost")
            if bad:
                args = {k2: v for k2, v in ev.items() if k2 not in ("op", "new", "err")}
                problems.append((si, "%s:%s" % (op, bad[0]), "%s(%s): %s" % (op, args, bad[1])))
                res = self.mk(want, mapping)
            objs.append(res)
        return problems


def slim(states, upto):
    return [{"ev": tlc.to_py(s["ev"]), "obs": tlc.to_py(s["obs"])} for s in states[:upto + 1]]


def _mutating_gain(ts, sensor_name, gain):
    """negative control: an impure apply_gain (writes into its argument, returns a series sharing it)"""
    idx = ts.get_indices(sensor_name)[1]
    ts.data[..., idx] *= gain.value
    return type(ts)(ts.times, ts.data, ts.signal_mapping)


def _merging_rsd(ts, times, default_delay, sensor_delays=None, predicted_data=True):
    """negative control: an apply_resample_and_delay that merges delays closer than a nanosecond"""
    sm = load_sysid()[0]
    sd = None if sensor_delays is None else {k: round(v, 9) for k, v in sensor_delays.items()}
    return sm.apply_resample_and_delay(ts, times, round(default_delay, 9), sd, predicted_data)


def run(ctx):
    load_sysid()
    ctx.assume("time stamps are multiples of 1/4 s with power-of-two steps, values multiples of 1/4096: every "
               "intermediate double is exact, so results are compared bit for bit",
               "series with a single sample are never interpolated (scipy's interp1d yields NaN; left open)",
               "methods linear and zero-order hold; 3 columns, sensors a=[1], b=[0,2]",
               "sharing memory between a result and its input is allowed; only writes to existing arrays are flagged")
    # 1. the design: exhaustive, all properties
    deep = "SignalOps_Deep.cfg" if ctx.quick else "SignalOps_Deep4.cfg"
    res = tlc.run(SPEC, os.path.join(TLA, deep), timeout=1500)
    ctx.tlc_ok(res, deep[:-4])
    exhaustive = res.finished
    acts = ["Create", "ApplyBias", "ApplyGain", "ApplyDelay", "TimeWindow", "DelayedWindow", "ResampleAndDelay", "ResampleAndDelayNear",
            "Resample", "Get", "RemoveFromBeginning"]
    # negative control on the specification: a mutating delay is refuted by TLC
    rb = tlc.run(SPEC, os.path.join(TLA, "SignalOps_Bug.cfg"), timeout=300)
    ctx.tlc_ok(rb, "SignalOps_Bug", allow_violation=True)
    ctx.control("TLC refutes Purity / NoWriteToExisting for an in-place apply_delay",
                bool(rb.violation) and ("Purity" in rb.violation or "NoWriteToExisting" in rb.violation))
    # 2. behaviours
    res, nodes, edges, inits = tlc.dump_graph(SPEC, os.path.join(TLA, "SignalOps_MC.cfg"), timeout=600)
    ctx.tlc_ok(res, "SignalOps_MC(graph)")
    taken = set(a for (_u, _v, a) in edges)
    for a in acts:
        if a not in taken:
            raise Machinery("vacuity: action %s never taken in SignalOps_MC" % a)
    paths = tlc.edge_cover_paths(nodes, edges, inits)
    behs = [[nodes[i] for i in p] for p in paths]
    nsim = 250 if ctx.quick else 4000
    res, sims = simparse.simulate(SPEC, os.path.join(TLA, "SignalOps_Sim.cfg"), num=nsim, depth=7, seed=ctx.seed + 1,
                             timeout=1200)
    ctx.tlc_ok(res, "SignalOps_Sim")
    behs += [[s for (_a, s) in b] for b in sims]
    behs.sort(key=lambda b: repr([sorted(tlc.to_py(s["ev"]).items()) for s in b]))
    if len(behs) < 100:
        raise Machinery("too few behaviours: %d" % len(behs))
    # 3. negative controls on the replayer
    probe = next(b for b in behs if any(s["ev"]["op"] == "gain" for s in b))
    pr = Replayer(impl={"apply_gain": _mutating_gain}).run(probe)
    ctx.control("a mutating apply_gain is flagged as input-modified", any(p[1] == "gain:input-modified:data" for p in pr))
    probe = next(b for b in behs if any(s["ev"]["op"] == "bias" for s in b))
    bad = [dict(s) for s in slim(probe, len(probe))]
    k = next(i for i, s in enumerate(bad) if s["ev"]["op"] == "bias")
    bad[k]["obs"][bad[k]["ev"]["new"] - 1]["d"][0][0] += 1
    bad[k]["obs"][bad[k]["ev"]["new"] - 1]["d"][0][1] += 1
    bad[k]["obs"][bad[k]["ev"]["new"] - 1]["d"][0][2] += 1
    pr = Replayer().run(bad)
    ctx.control("a perturbed expected value (1/4096) is flagged", any(p[1] == "bias:result:data" for p in pr))
    probe = next(b for b in behs if any(s["ev"]["op"] == "rsdn" and any(c["p"] in (2, 3, 4) for c in s["ev"]["cols"])
                                        for s in b))
    pr = Replayer(impl={"apply_resample_and_delay": _merging_rsd}).run(probe)
    ctx.control("an apply_resample_and_delay that merges delays closer than 1e-9 is flagged",
                any(p[1].startswith("rsdn:") for p in pr))
    # 4. replay
    rp = Replayer()
    opcount = {}
    for beh in behs:
        ops = [s["ev"] for s in beh if s["ev"]["op"] not in ("init",)]
        work = [e for e in ops if e["op"] != "create"]
        for e in work:
            opcount[e["op"]] = opcount.get(e["op"], 0) + 1
        key = [tlc.to_py({k: v for k, v in e.items() if k not in ("map", "base", "grid", "groups", "cols")}) for e in ops]
        ctx.case(key, nontrivial=len(work) > 0, sample={"ops": key[:5]})
        problems = rp.run(beh)
        if not problems:
            ctx.trace_ok()
            continue
        seen = set()
        for (si, sig, text) in problems:
            if sig in seen:
                continue
            seen.add(sig)
            ctx.violation(sig, text + " [history: %s]" % [e["op"] for e in ops[:si]], {"states": slim(beh, si)})
    # vacuity: almost-equal-but-different delay pairs really went through apply_resample_and_delay
    if rp.near["pairs<1e-9"] < 20 or rp.near["pairs_adjacent_floats"] < 3 or rp.near["pairs_1e-9..1e-6"] < 3:
        raise Machinery("vacuity: near-equal delay pairs not exercised: %r" % (rp.near,))
    ctx.cov["near_delay_pairs"] = rp.near
    ctx.cov["exhaustive"] = bool(exhaustive)
    ctx.cov["ops_replayed"] = opcount
    ctx.cov["rule"] = ("behaviours = edge cover of the exhaustive small-parameter state graph (%d edges, <= 3 "
                       "operations) + %d simulated behaviours of <= 6 operations over the full parameter sets; after "
                       "every call every live series is compared exactly with obs; non-trivial = at least one "
                       "transform; distinct = distinct operation sequences" % (len(edges), len(sims)))


def replay(ctx, rp):
    load_sysid()
    states = rp["replay"]["states"]
    res = tlc.run(SPEC, os.path.join(TLA, "SignalOps_MC.cfg"), timeout=600)      # the oracle still satisfies its laws
    ctx.tlc_ok(res, "SignalOps_MC")
    problems = Replayer().run(states)
    ctx.case({"replay": rp["signature"]}, sample={"ops": [s["ev"]["op"] for s in states]})
    ctx.case({"replay": rp["signature"], "x": 1})
    for (si, sig, text) in problems:
        print("step %d: %s: %s" % (si, sig, text[:300]))
        if sig == rp["signature"]:
            ctx.violation(sig, text, rp["replay"])
            break
    else:
        print("not reproduced")
