"""C03 - thread-pool dispatch runs each task exactly once (ThreadPool.tla, controlled scheduler).

spec -> code: TLC behaviours (edge cover of a small exhaustive graph + simulated behaviours of a larger
configuration) are replayed as schedules into the UNMODIFIED src/engine/engine_thread.cc compiled against
shim/sched; at every step the operation the real thread performs and the value it reads/writes must equal
the specification's.  code -> spec: seeded random schedules are recorded and validated by ThreadPoolTrace.tla.
"""
import concurrent.futures as cf
import json
import os
import re
import subprocess

from vlib import build, tlc
from vlib.check import Machinery, VERIF

TLA = os.path.join(VERIF, "tla")

META = dict(
    engine="tlc-sched",
    technique="TLA+ spec ThreadPool.tla (one action per atomic operation) model-checked by TLC incl. liveness; "
              "TLC behaviours replayed as schedules into the unmodified engine_thread.cc under a controlled "
              "scheduler, and recorded random schedules validated by a TLA+ trace spec",
    text="TLC checks ExactlyOnce/NoneRunningAtReturn/ThreadIdsInPool/Unlocked/termination for every interleaving "
         "of main thread and workers at atomic-operation granularity, for all create/resize/dispatch/destroy "
         "histories within the bounds; the real code is bound to the spec step by step in both directions.",
    note="Sequential consistency only (plain accesses are not yield points; data races/weak memory are not decided). "
         "Trusted: TLC, shim/sched/vt_sched.h, harness threadpool_drv.cc (stubs mj_markStack/mj_freeStack).",
    ref="DESIGN.md section 4 C03, section 2.4")


def harness():
    return build.build_harness(
        "threadpool_drv",
        [os.path.join(VERIF, "harness", "threadpool_drv.cc"), os.path.join(build.REPO, "src/engine/engine_thread.cc")],
        extra=["-include", os.path.join(VERIF, "shim/sched/sched_prelude.h")], link_lib=False)


def to_schedule(evs):
    """spec events (worker indices) -> schedule lines with the scheduler's global thread ids + expected log"""
    total = 0
    cur = {}
    lines, expect = [], []
    for ev in evs:
        t, op, obj, val = ev["t"], ev["op"], ev["obj"], ev["val"]
        if op == "api":
            if obj == "pool":
                pass
            lines.append("0 api %s %d" % (obj, val // 100))
            expect.append((0, "api", obj, val))
        elif op == "spawn":
            total += 1
            if val == 1:
                cur = {}
            cur[val] = total
            lines.append("0 spawn - %d" % total)
            expect.append((0, "spawn", "-", total))
        elif op == "join":
            lines.append("0 join - %d" % cur[val])
            expect.append((0, "join", "-", cur[val]))
        else:
            g = 0 if t == 0 else cur[t]
            lines.append("%d %s %s %d" % (g, op, obj, val))
            expect.append((g, op, obj, val))
    return lines, expect


def parse_log(out):
    evs, end = [], None
    for ln in out.splitlines():
        try:
            e = json.loads(ln)
        except ValueError:
            continue
        if "end" in e:
            end = e
        elif "op" in e:
            evs.append(e)
    return evs, end


def run_replay(exe, lines, lenient=True):
    p = subprocess.run([exe] + (["--lenient"] if lenient else []), input="\n".join(lines) + "\n", capture_output=True, text=True, timeout=60)
    evs, end = parse_log(p.stdout)
    return p.returncode, evs, end


def log_to_trace(evs):
    """recorded events (global ids) -> spec-level events (worker index in the current pool)"""
    cur = {}
    n = 0
    fresh = False
    out = []
    for e in evs:
        t, op, obj, val = e["t"], e["op"], e["obj"], e["val"]
        if op == "api" and obj == "end":
            continue
        if op == "api" and obj == "pool":
            fresh = True
        if op == "spawn":
            if fresh:
                cur, n, fresh = {}, 0, False
            n += 1
            cur[val] = n
            val = n
        elif op == "join":
            val = cur.get(val, -1)
        tt = 0 if t == 0 else cur.get(t, -1)
        out.append({"t": tt, "op": op, "obj": obj, "val": val})
    return out


def run_random(exe, seed, nw, nt, nops):
    p = subprocess.run([exe, "--random", str(seed), str(nw), str(nt), str(nops)], capture_output=True, text=True,
                       timeout=60)
    evs, end = parse_log(p.stdout)
    return p.returncode, evs, end


def run(ctx):
    import time
    T0 = time.time()

    def lap(name):
        if os.environ.get("VERIF_TIMING"):
            print("  [t] %s %.1fs" % (name, time.time() - T0))
    exe = harness()
    ctx.assume("interleavings at the granularity of std::atomic / std::thread operations, sequential consistency",
               "C++20 atomic wait modelled strictly: a sleeping waiter is woken only by notify",
               "bounds: exhaustive for 2 workers, <=3 tasks, <=2 (quick) / <=3 (thorough) API calls; simulation/random schedules up to "
               "3 workers, 4 tasks, 6 API calls")
    spec = os.path.join(TLA, "ThreadPool.tla")
    # 1. the design: all invariants + termination under weak fairness
    res = tlc.run(spec, os.path.join(TLA, "ThreadPool_MCq.cfg" if ctx.quick else "ThreadPool_MC.cfg"), coverage=True, timeout=3000)
    ctx.tlc_ok(res, "ThreadPool_MC", need_actions=["ApiPool", "ApiDispatch", "M_Spawn", "M_Join", "M_Spin", "W_Wait",
                                                   "W_Wake", "W_Done", "M_SerialStart", "W_RunStart", "M_RunStart"])
    lap("mc")
    # vacuity guards: seeded design errors must be caught by the same properties
    for cfg, want in (("ThreadPool_BugSpin.cfg", "ExactlyOnceAtReturn|NoneRunningAtReturn"),
                      ("ThreadPool_BugNoNotify.cfg", "Temporal|Deadlock")):
        r = tlc.run(spec, os.path.join(TLA, cfg), timeout=600)
        ctx.cov["tlc_runs"].append({"name": cfg, "violation": r.violation, "distinct": r.distinct})
        ctx.control("spec mutant %s violates a property" % cfg, bool(r.violation and re.search(want, r.violation)))
    lap("mutants")
    # 2. spec -> code
    res, nodes, edges, inits = tlc.dump_graph(spec, os.path.join(TLA, "ThreadPool_Graph.cfg"), timeout=900)
    ctx.tlc_ok(res, "ThreadPool_Graph")
    # "Next" labels the terminal stuttering disjunct (Finished /\ UNCHANGED vars): not an implementation step
    edges = [e for e in edges if e[2] != "Next"]
    paths = tlc.edge_cover_paths(nodes, edges, inits)
    behs = [[nodes[i]["ev"] for i in p if nodes[i]["ev"]["op"] != "init"] for p in paths]
    nedge = len(edges)
    if ctx.quick:
        # deterministic subsample of the edge cover, longest paths first (they cover the most edges)
        behs.sort(key=lambda b: (-len(b), json.dumps(tlc.to_py(b))))
        behs = behs[:1500]
    nsim = 150 if ctx.quick else 3000
    res, sims = tlc.simulate(spec, os.path.join(TLA, "ThreadPool_Sim.cfg"), num=nsim, depth=150, seed=ctx.seed + 1,
                             timeout=900)
    ctx.tlc_ok(res, "ThreadPool_Sim")
    behs += [[s["ev"] for (_a, s) in b if s["ev"]["op"] != "init"] for b in sims]
    lap("graph+sim")
    jobs = [to_schedule(b) for b in behs]

    def one(job):
        return run_replay(exe, job[0])

    with cf.ThreadPoolExecutor(16) as ex:
        results = list(ex.map(one, jobs))
    # The schedule fixes WHICH thread moves at every step (so every interleaving of the specification is driven into
    # the code); WHAT the thread does is judged afterwards by the trace specification on the recorded log, so that an
    # implementation step order the specification also allows is not an alarm.
    rtraces, rlabels = [], []
    nfallback = 0
    for (lines, expect), (rc, evs, end), beh in zip(jobs, results, behs):
        ctx.case({"schedule": lines}, nontrivial=any(l.split()[0] != "0" for l in lines),
                 sample={"schedule": lines[:25]})
        if end is None or rc != 0:
            ctx.violation("crash", "harness died (rc=%s) replaying a specification behaviour" % rc, {"mode": "replay", "schedule": lines})
        elif end["end"] not in ("scriptend", "done"):
            ctx.violation("replay:" + end["end"], "replaying a specification behaviour ended with %s" % end, {"mode": "replay", "schedule": lines})
        else:
            rtraces.append(log_to_trace(evs))
            rlabels.append(lines)
    lap("replay %d" % len(jobs))
    # 3. code -> spec: seeded random schedules validated by the trace spec
    nrand = 400 if ctx.quick else 6000
    seeds = [ctx.seed * 100003 + i + 1 for i in range(nrand)]

    def rnd(s):
        return run_random(exe, s, 3, 4, 2 + s % 5)

    with cf.ThreadPoolExecutor(16) as ex:
        rres = list(ex.map(rnd, seeds))
    lap("random runs")
    traces, tseeds = list(rtraces), [{"replay": l} for l in rlabels]
    for s, (rc, evs, end) in zip(seeds, rres):
        if end is None or rc != 0 or end["end"] != "done":
            kind = end["end"] if end else "crash"
            ctx.violation("random:" + kind, "random schedule seed %d ended with %s" % (s, end),
                          {"mode": "random", "seed": s, "args": [3, 4, 2 + s % 5]})
            continue
        traces.append(log_to_trace(evs))
        tseeds.append(s)
    # negative control trace: corrupt one recorded value
    src = next((t for t in traces if any(e["op"] == "fadd" for e in t)), None)
    if src is None:     # no usable recorded trace (everything failed): synthetic well-formed prefix
        src = [{"t": 0, "op": "api", "obj": "pool", "val": 100}, {"t": 0, "op": "spawn", "obj": "-", "val": 1},
               {"t": 0, "op": "api", "obj": "dispatch", "val": 200}, {"t": 0, "op": "store", "obj": "next", "val": 0},
               {"t": 0, "op": "store", "obj": "ndone", "val": 0}, {"t": 0, "op": "load", "obj": "signal", "val": 1},
               {"t": 0, "op": "store", "obj": "signal", "val": -1}, {"t": 0, "op": "notify", "obj": "signal", "val": 0},
               {"t": 0, "op": "fadd", "obj": "next", "val": 0}]
    bad = [dict(e) for e in src]
    k = next(i for i, e in enumerate(bad) if e["op"] == "fadd")
    bad[k]["val"] += 1
    traces.append(bad)
    B = 500
    for off in range(0, len(traces), B):
        chunk = traces[off:off + B]
        res, verdicts = tlc.validate_traces(os.path.join(TLA, "ThreadPoolTrace.tla"),
                                            os.path.join(TLA, "ThreadPoolTrace.cfg"), chunk, timeout=1500)
        ctx.cov["tlc_runs"].append({"name": "ThreadPoolTrace[%d]" % off, "generated": res.generated,
                                    "distinct": res.distinct, "wall_s": round(res.wall, 1)})
        ctx.cov["states"] += res.distinct
        ctx.cov["transitions"] += res.generated
        if res.violation and "postcondition" not in res.violation.lower() and "Report" not in res.violation:
            ctx.violation("trace:invariant:" + res.violation, "a recorded trace drives the specification into a state "
                          "violating " + res.violation, {"mode": "trace", "seeds": tseeds[off:off + B]})
            continue
        if len(verdicts) != len(chunk):
            raise Machinery("trace validation produced %d verdicts for %d traces: %s" % (
                len(verdicts), len(chunk), (res.error or res.out[-800:])))
        for i, tr in enumerate(chunk):
            reached, ln = verdicts[i + 1]
            gi = off + i
            if gi == len(traces) - 1:
                ctx.control("corrupted recorded value is rejected by the trace spec", reached < ln)
                continue
            if not isinstance(tseeds[gi], dict):
                ctx.case({"trace": tr}, nontrivial=any(e["t"] != 0 for e in tr), sample={"trace": tr[:20]})
            if reached == ln:
                ctx.trace_ok()
            else:
                e = tr[reached]
                if isinstance(tseeds[gi], dict):
                    ctx.violation("trace:unexplained:%s/%s" % (e["op"], e["obj"]),
                                  "event %d %s recorded while replaying a specification schedule is not a step of ThreadPool.tla" % (reached, e),
                                  {"mode": "replay", "schedule": tseeds[gi]["replay"]})
                else:
                    ctx.violation("trace:unexplained:%s/%s" % (e["op"], e["obj"]),
                                  "event %d %s of random schedule seed %d is not a step of ThreadPool.tla" % (reached, e, tseeds[gi]),
                                  {"mode": "random", "seed": tseeds[gi], "args": [3, 4, 2 + tseeds[gi] % 5]})
    lap("trace validation")
    ctx.cov["exhaustive"] = True
    ctx.cov["rule"] = ("replay: %d of the %d transitions' covering paths of the exhaustive 2-worker graph + %d simulated "
                       "behaviours (3 workers); traces: %d seeded random schedules validated by ThreadPoolTrace; "
                       "non-trivial = at least one worker step; distinct = distinct schedules" %
                       (len(behs) - len(sims), nedge, len(sims), nrand))


def replay(ctx, rp):
    exe = harness()
    r = rp["replay"]
    if r.get("mode") == "replay":
        rc, evs, end = run_replay(exe, r["schedule"])
        print("end:", end)
        if end is None or end["end"] not in ("scriptend", "done"):
            ctx.violation(rp["signature"], rp["what"], r)
    else:
        rc, evs, end = run_random(exe, r["seed"], *r["args"])
        print("end:", end, "events:", len(evs))
        res, verdicts = tlc.validate_traces(os.path.join(TLA, "ThreadPoolTrace.tla"),
                                            os.path.join(TLA, "ThreadPoolTrace.cfg"), [log_to_trace(evs)])
        print("verdict:", verdicts, res.violation)
        if end is None or end["end"] != "done" or res.violation or verdicts.get(1, (0, 1))[0] != verdicts.get(1, (0, 1))[1]:
            ctx.violation(rp["signature"], rp["what"], r)
    ctx.case({"r": 1})
    ctx.case({"r": 2})
