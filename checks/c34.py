"""C34 - name lookup inverts naming for every object type: NameTable.tla decided by TLC, replayed into
mj_name2id / mj_id2name on models compiled through the mjSpec API."""
import concurrent.futures as cf
import os

from vlib import build, tlc, drv
from vlib.check import Machinery, VERIF
from checks import tladump

TLA = os.path.join(VERIF, "tla")
SPEC = os.path.join(TLA, "NameTable.tla")

META = dict(
    engine="tlc-replay",
    technique="TLA+ spec NameTable.tla (per-type name sequences; names_map built by linear probing under a free hash "
              "function, segment offsets as in _getnumadr, lookup loop of mj_name2id) model-checked by TLC; compiled "
              "states of the exhaustive runs and of simulated all-type behaviours are rebuilt as real models (three "
              "renderings of the abstract names: literal, long prefix-related, colliding under mj_hashString) and a "
              "query battery is run for every object type code",
    text="TLC decides on NameTable.tla, for every hash function within the bound: name2id(id2name(i)) = i, id2name is "
         "NULL exactly for unnamed objects and ids out of range, name2id is -1 for every non-name (empty string, "
         "names of other types, prefixes), edits of one type never change another type's answers, faulty models are "
         "rejected. Every distinct compiled table of the exhaustive runs and the compiled states of simulated "
         "behaviours over all 23 name lists are replayed; all 25 type codes plus unknown/dof/frame/default/model/"
         "out-of-range codes are queried.",
    note="Trusted: TLC, harness nametable_drv.cc + mkmodel_ext.h (object construction in id order), the renderings. "
         "The abstract hash function of the specification is not tied to mj_hashString; collisions of the real hash "
         "are provoked by the colliding rendering. Helper objects (hb, hj, hg1, hg2) needed by dependent types are "
         "part of the specification's initial tables (layout A); layout B has only the world body.",
    ref="DESIGN.md section 4 C34")

CODE = {"unknown": 0, "body": 1, "xbody": 2, "joint": 3, "dof": 4, "geom": 5, "site": 6, "camera": 7, "light": 8,
        "flex": 9, "mesh": 10, "skin": 11, "hfield": 12, "texture": 13, "material": 14, "pair": 15, "exclude": 16,
        "equality": 17, "tendon": 18, "actuator": 19, "sensor": 20, "numeric": 21, "text": 22, "tuple": 23,
        "key": 24, "plugin": 25, "frame": 100, "default": 101, "model": 102, "neg": -1, "past": 26, "big": 1000}
ENUM = ["body", "joint", "geom", "site", "camera", "light", "flex", "mesh", "skin", "hfield", "texture", "material",
        "pair", "exclude", "equality", "tendon", "actuator", "sensor", "numeric", "text", "tuple", "key", "plugin"]
NOLIST = ["unknown", "dof", "frame", "default", "model", "neg", "past", "big"]
NULL = "<null>"
# how one object of each type is created (%s = " name=<concrete>" or ""), helper objects by abstract name
KIND = {
    "body": "BODY%s pos=2,0,0", "joint": "joint body={hb}%s type=2 axis=1,0,0",
    "geom": "geom%s type=2 size=0.1,0,0 pos=7,0,0", "site": "site%s", "camera": "camera%s", "light": "light%s",
    "flex": "flex%s bodies={hb},world dim=1",
    "mesh": "mesh%s uservert=0,0,0,1,0,0,0,1,0,0,0,1 userface=0,2,1,0,1,3,0,3,2,1,2,3",
    "skin": "skin%s body=world", "hfield": "hfield%s", "texture": "texture%s type=0 builtin=3 width=4 height=4",
    "material": "material%s", "pair": "pair%s geomname1={hg1} geomname2={hg2}",
    "exclude": "exclude%s bodyname1=world bodyname2={hb}", "equality": "equality%s type=1 objtype=1 name1={hb}",
    "tendon": "tendonj%s joint={hj}", "actuator": "actuator%s trntype=0 target={hj}",
    "sensor": "sensor%s type=9 objtype=3 objname={hj}", "numeric": "numeric%s size=1 data=1", "text": "text%s data=x",
    "tuple": "tuple%s objtype=1 objname={hb}", "key": "key%s time=1", "plugin": "plugin%s plugin=verif.state"}


def harness():
    return build.build_harness("nametable_drv", [os.path.join(VERIF, "harness", "nametable_drv.cc")],
                               extra=tladump.harness_digest_flag())


def mj_hash(s):
    """mj_hashString before the reduction (used only to *choose* colliding concrete names, never for expectations)"""
    h = 5381
    for c in s.encode():
        h = (((h << 5) + h) ^ c) & 0xFFFFFFFFFFFFFFFF
    return h


def renderings(all_names):
    """abstract name -> concrete string, three ways"""
    lit = {n: n for n in all_names}
    lng = {"a": "link_segment_name", "aa": "link_segment_name_0", "ab": "link_segment_name_1",
           "b": "Link_segment_name", "~": "link_segment_nam", "world": "world", "hb": "helper_body",
           "hj": "helper_joint", "hg1": "helper_geom", "hg2": "helper_geom2"}
    for n in all_names:
        if n not in lng:
            raise Machinery("no long rendering for abstract name %r" % n)
    # strings whose hash equals that of "world" modulo 120 = lcm(2,4,6,8,10): they collide in every table size used
    target = mj_hash("world") % 120
    pool = []
    k = 0
    while len(pool) < len(all_names):
        s = "n%d" % k
        if mj_hash(s) % 120 == target:
            pool.append(s)
        k += 1
    col = {"world": "world"}
    for n, s in zip(sorted(x for x in all_names if x != "world"), pool):
        col[n] = s
    return {"literal": lit, "long": {n: lng[n] for n in all_names}, "collide": col}


def model_lines(tab, layout, R):
    """mkmodel description of the model whose name tables are tab (ids in table order)"""
    L = ["activate plugin=verif.state", "compiler fusestatic=0"]
    sub = {"hb": R["hb"], "hj": R["hj"], "hg1": R["hg1"], "hg2": R["hg2"]}
    npre = {t: 0 for t in tab}
    if layout == "A":
        L += ["body name=%s pos=0,0,1 mass=1 inertia=1,1,1 explicitinertial=1" % R["hb"],
              "joint body=%s name=%s type=2 axis=0,0,1" % (R["hb"], R["hj"]),
              "geom name=%s type=2 size=0.1,0,0 pos=5,0,0" % R["hg1"],
              "geom name=%s type=2 size=0.1,0,0 pos=6,0,0" % R["hg2"]]
        want_pre = {"body": ("world", "hb"), "joint": ("hj",), "geom": ("hg1", "hg2")}
    else:
        want_pre = {"body": ("world",)}
    for t in tab:
        pre = want_pre.get(t, ())
        if tuple(tab[t][:len(pre)]) != pre:
            raise Machinery("table of %s does not start with the helper objects %r: %r" % (t, pre, tab[t]))
        npre[t] = len(pre)
    for t in ENUM:
        if t not in tab:
            continue
        for n in tab[t][npre[t]:]:
            line = KIND[t] % ((" name=" + R[n]) if n else "")
            line = line.format(**sub)
            if t == "body":
                line = line.replace("BODY name", "body name").replace("BODY", "ubody")
            L.append(line)
    return L


def battery(st_obs, noans, qseq, idseq, R, types):
    """nbat lines + expected outputs for one compiled state"""
    lines, exp = [], []
    hexq = " ".join(drv.hx(R[q]) if q else "-" for q in qseq)
    lo, hi = idseq[0], idseq[-1]
    for t in types:
        if t == "xbody":
            o = st_obs.get("body")
        elif t in NOLIST:
            o = noans
        else:
            o = st_obs.get(t)
        if o is None:
            continue
        lines.append("nbat 1 %d %d %d %s" % (CODE[t], lo, hi, hexq))
        want = " ".join(str(x) for x in o["n2i"]) + "|" + " ".join(
            "null" if n == NULL else drv.hx(R[n]) for n in o["i2n"])
        exp.append((t, o, want))
    return lines, exp


def classify(t, o, want, got, qseq, idseq, used):
    """stable signature for a battery mismatch"""
    try:
        wa, wb = want.split("|")
        ga, gb = got.split("|")
    except ValueError:
        return "battery:%s:malformed" % t, "malformed output %r" % got[:100]
    wa, ga, wb, gb = wa.split(), ga.split(), wb.split(), gb.split()
    for k, q in enumerate(qseq):
        if k >= len(ga) or wa[k] != ga[k]:
            qc = "empty" if q == "" else "name" if q in used else "nonname"
            g = ga[k] if k < len(ga) else "?"
            return ("name2id:%s:query=%s:want=%s:got=%s" % (t, qc, "id" if wa[k] != "-1" else "-1",
                                                            "-1" if g == "-1" else "wrongid" if wa[k] != "-1" else "id"),
                    "mj_name2id(type %s, abstract name %r) returned %s, specification says %s" % (t, q, g, wa[k]))
    for k, i in enumerate(idseq):
        if k >= len(gb) or wb[k] != gb[k]:
            g = gb[k] if k < len(gb) else "?"
            return ("id2name:%s:want=%s:got=%s" % (t, "null" if wb[k] == "null" else "name",
                                                   "null" if g == "null" else "name"),
                    "mj_id2name(type %s, id %d) returned %s, specification says %s" % (t, i, g, wb[k]))
    return "battery:%s:other" % t, "outputs differ"


def run(ctx):
    import time
    t0 = time.time()
    exe = harness()
    ctx.assume("names are drawn from {a, aa, ab, b} plus unnamed objects; at most 3 objects are added per type",
               "layout A starts from helper objects (bodies world+hb, joint hj, geoms hg1+hg2) that dependent types "
               "refer to; layout B starts from the world body only and leaves dependent types empty",
               "mesh, hfield, texture and material objects must be named (the compiler rejects unnamed ones; this "
               "is modelled as a faulty edit)",
               "the hash function of the specification is a free parameter (values 0..2 or 0..1); the real "
               "mj_hashString is exercised through the colliding rendering")
    gc = ("-XX:ParallelGCThreads=2",)

    def make_select():
        seen = set()

        def select(blk):
            # only compilations matter, and the same compiled table is reached under every hash function: keep one
            if 'op |-> "init"' in blk:
                if "init" in seen:
                    return None
                seen.add("init")
                return ("ev", "ctab", "obs")
            if 'op |-> "compile"' not in blk:
                return None
            a = blk.find("/\\ tab = ")
            b = blk.find("/\\ ", a + 3)
            key = (blk[a:b], 'ret |-> "error"' in blk)
            if key in seen:
                return None
            seen.add(key)
            return ("ev", "tab", "ctab", "obs", "bad")
        return select

    nsimA, nsimB = (20, 12) if ctx.quick else (1000, 500)
    mc_cfg = "NameTable_MCQ.cfg" if ctx.quick else "NameTable_MC.cfg"

    def simsel(act, blk):
        if act in ("Init", "Compile"):
            return ("ev", "tab", "ctab", "obs", "bad")
        return ("ev",)
    jobs = {
        "mcA": lambda: tladump.run_dump(SPEC, os.path.join(TLA, mc_cfg), timeout=900, coverage=True,
                                        workers=6, select=make_select(), java_opts=gc),
        "mcB": lambda: tladump.run_dump(SPEC, os.path.join(TLA, "NameTable_MCB.cfg"), timeout=900, coverage=True,
                                        workers=6, select=make_select(), java_opts=gc),
        "simA": lambda: tladump.simulate(SPEC, os.path.join(TLA, "NameTable_Sim.cfg"), num=nsimA, depth=80,
                                         seed=ctx.seed + 1, timeout=1500, select=simsel, java_opts=gc),
        "simB": lambda: tladump.simulate(SPEC, os.path.join(TLA, "NameTable_SimB.cfg"), num=nsimB, depth=80,
                                         seed=ctx.seed + 2, timeout=1500, select=simsel, java_opts=gc),
        "neg1": lambda: tlc.run(SPEC, os.path.join(TLA, "NameTable_Neg.cfg"), timeout=600, workers=2, java_opts=gc),
        "neg2": lambda: tlc.run(SPEC, os.path.join(TLA, "NameTable_Neg2.cfg"), timeout=600, workers=2, java_opts=gc),
    }
    with cf.ThreadPoolExecutor(len(jobs)) as ex:
        futs = {k: ex.submit(f) for k, f in jobs.items()}
        out = {k: f.result() for k, f in futs.items()}
    tladump.timing("tlc jobs", t0)
    for k in out:
        r = out[k][0] if isinstance(out[k], tuple) else out[k]
        tladump.timing("  " + k, time.time() - r.wall)
    cases = []          # (origin, layout, state)
    headers = {}
    try:
        for k, layout in (("mcA", "A"), ("mcB", "B")):
            res, states, cleanup = out[k]
            ctx.tlc_ok(res, "NameTable_" + k, need_actions=["Add", "AddDup", "Compile"])
            for st in states():
                if st["ev"]["op"] == "init":
                    headers[k] = st["ev"]
                    st = dict(st, tab=st["ctab"], bad=False)
                cases.append((k, layout, st))
    finally:
        for k in ("mcA", "mcB"):
            out[k][2]()
    if out["mcB"][0].coverage.get("AddNoName", (0, 0))[1] == 0:
        raise Machinery("vacuity: AddNoName never taken in NameTable_MCB")
    for k, layout in (("simA", "A"), ("simB", "B")):
        res, behs = out[k]
        ctx.tlc_ok(res, "NameTable_" + k)
        if not behs:
            raise Machinery("no simulated behaviours from " + k)
        headers[k] = behs[0][0][1]["ev"]
        for beh in behs:
            for (act, st) in beh:
                if act == "Compile":
                    cases.append((k, layout, st))
    for k, prop in (("neg1", "Inverse"), ("neg2", "Inverse")):
        r = out[k]
        ctx.cov["tlc_runs"].append({"name": "NameTable_" + k, "generated": r.generated, "distinct": r.distinct,
                                    "depth": r.depth, "wall_s": round(r.wall, 2), "violation": r.violation})
        if r.error:
            raise Machinery("TLC negative-control run %s failed: %s" % (k, r.error))
        ctx.control("TLC rejects the planted lookup defect (%s: %s)" % (k, "no probing" if k == "neg1" else
                                                                         "segment offset off by one type"),
                    bool(r.violation) and prop in r.violation)
    for k in ("mcA", "mcB", "simA", "simB"):
        if k not in headers or headers[k].get("op") != "init":
            raise Machinery("no initial state for " + k)
    all_names = sorted(set(q for hd in headers.values() for q in hd["qseq"] if q))
    rend = renderings(all_names)
    qtypes = ["body", "xbody"] + ENUM[1:] + NOLIST
    # de-duplicate compiled tables across origins
    uniq = {}
    for (origin, layout, st) in cases:
        key = (layout, tuple(sorted((t, tuple(v)) for t, v in st["tab"].items())), st["ev"].get("ret", "ok"))
        uniq.setdefault(key, (origin, layout, st))
    cases = [uniq[k] for k in sorted(uniq, key=repr)]           # the dump order depends on TLC's worker threads
    rnames = sorted(rend)
    lines, exps, index = [], [], []
    for ci, (origin, layout, st) in enumerate(cases):
        err = st["ev"].get("ret") == "error"
        hd = headers[origin]
        qseq, idseq, noans = hd["qseq"], hd["idseq"], hd["noanswers"]
        for rn in (rnames if not err else rnames[:1]):
            R = rend[rn]
            start = len(lines)
            lines.append("xmodel 1")
            lines += model_lines(st["tab"], layout, R)
            lines.append("end")
            if err:
                exps.append(("compile", None, "error"))
                index.append((ci, rn, start, len(lines), len(exps) - 1, len(exps)))
                continue
            e0 = len(exps)
            exps.append(("compile", None, "ok"))
            bl, be = battery(st["obs"], noans, qseq, idseq, R, qtypes)
            lines += bl
            exps += be
            index.append((ci, rn, start, len(lines), e0, len(exps)))
    tladump.timing("scripts built", t0)
    r = drv.run_script(exe, lines, timeout=1500)
    tladump.timing("harness done", t0)
    got = r.lines
    # negative control on the comparer
    k = next(i for i, e in enumerate(exps) if e[0] == "body")
    ctx.control("perturbed expected battery answer is flagged", got[k] != exps[k][2].replace("|", " 7|", 1))
    nsimcases = 0
    for (ci, rn, a, b, e0, e1) in index:
        origin, layout, st = cases[ci]
        qseq, idseq = headers[origin]["qseq"], headers[origin]["idseq"]
        tabj = {t: list(v) for t, v in st["tab"].items()}
        nobj = sum(len(v) for v in tabj.values())
        ctx.case({"layout": layout, "tab": tabj, "rendering": rn, "ret": st["ev"].get("ret", "ok")},
                 nontrivial=nobj > 2, sample={"layout": layout, "rendering": rn,
                                              "tables": {t: v for t, v in tabj.items() if v}})
        nsimcases += origin.startswith("sim")
        bad = None
        for j in range(e0, e1):
            kind, o, want = exps[j]
            g = got[j] if j < len(got) else None
            if g is None:
                bad = ("crash", "harness died: " + r.crash_text(), j)
                break
            if kind == "compile":
                if want == "ok" and g != "ok":
                    bad = ("compile:valid-model-rejected", "valid model rejected: %s" % g[:200], j)
                    break
                if want == "error" and not g.startswith("error"):
                    bad = ("compile:faulty-model-accepted:%s" % st["ev"].get("op", ""),
                           "model with a repeated or missing name compiled (%s)" % g[:100], j)
                    break
                if want == "error":
                    break
                continue
            if g != want:
                t = kind
                src = "body" if t == "xbody" else t
                used = set(n for n in st["tab"].get(src, ()) if n)
                sig, what = classify(t, o, want, g, qseq, idseq, used)
                bad = (sig, what + " [layout %s, rendering %s, table of the type: %r]"
                       % (layout, rn, list(st["tab"].get(src, ()))), j)
                break
        if bad is None:
            ctx.trace_ok()
        else:
            sig, what, j = bad
            ctx.violation(sig, what, {"script": lines[a:b], "bad_output_index": j - e0,
                                      "want": exps[j][2], "got": got[j] if j < len(got) else None})
    ctx.cov["exhaustive"] = True
    ctx.cov["rule"] = ("every distinct compiled table of the exhaustive runs (layout A: body+site, layout B: "
                       "body+joint+mesh; up to 2 added objects per type) and every compiled state of %d simulated "
                       "behaviours over all 23 name lists, each under 3 renderings of the names; per model a battery "
                       "of %d name queries and %d id queries for each of %d type codes; non-trivial = more than the "
                       "helper objects; distinct = (layout, tables, rendering)"
                       % (nsimA + nsimB, len(headers["simA"]["qseq"]), len(headers["simA"]["idseq"]), len(qtypes)))


def replay(ctx, rp):
    exe = harness()
    d = rp["replay"]
    r = drv.run_script(exe, d["script"], timeout=600)
    i = d["bad_output_index"]
    got = r.lines[i] if i < len(r.lines) else "<none>"
    print("output %d: want %s got %s" % (i, str(d["want"])[:150], got[:150]))
    ok = got.startswith("error") if d["want"] == "error" else got == d["want"]
    if not ok:
        ctx.violation(rp["signature"], rp["what"], d)
    ctx.case({"replay": rp["signature"]})
    ctx.case({"replay": rp["signature"], "x": 1})
