"""Shared machinery of C06, C07, C29, C09: SmoothLattice.tla / SmoothFwdInv.tla -> harness/smooth_drv.cc.

The TLA+ specification publishes, for every finished lattice model, a record `ev` with the model description and
every quantity the implementation must return.  This module only RENDERS (numbers -> model description lines and
harness commands, quarter turns -> radians / quaternions) and COMPARES; it computes no physics.
"""
import math
import os
import re
import glob as _glob
import shutil

from vlib import build, tlc, drv
from vlib.check import Machinery, VERIF

TLA = os.path.join(VERIF, "tla")
U = math.pi / 2            # one quarter turn
DIS = {"constraint": 1 << 0, "equality": 1 << 1, "frictionloss": 1 << 2, "limit": 1 << 3, "contact": 1 << 4,
       "spring": 1 << 5, "damper": 1 << 6, "gravity": 1 << 7, "actuation": 1 << 11, "eulerdamp": 1 << 15, "island": 1 << 18}
ENBL = {"sleep": 1 << 4, "energy": 1 << 1, "fwdinv": 1 << 2, "invdiscrete": 1 << 3, "diagexact": 1 << 5}
INTEGRATOR = {"euler": 0, "rk4": 1, "implicit": 2, "implicitfast": 3}


def harness():
    return build.build_harness("smooth_drv", [os.path.join(VERIF, "harness", "smooth_drv.cc")])


# ----------------------------------------------------------------------------------------------
# getting finished models out of TLC without parsing the intermediate states
# ----------------------------------------------------------------------------------------------
_EV = re.compile(r'/\\ ev = (.*?)(?=\n/\\ [A-Za-z_]+ = |\Z)', re.S)


def _ev_of(block, var="ev"):
    rx = _EV if var == "ev" else re.compile(r'/\\ %s = (.*?)(?=\n/\\ [A-Za-z_0-9]+ = |\Z)' % var, re.S)
    m = rx.search(block)
    if not m:
        return None
    return tlc.parse_value(m.group(1))


def _take(blk, marker, with_fi):
    if marker not in blk:
        return None
    ev = _ev_of(blk)
    if ev is None or ev.get("op") != "model":
        return None
    if with_fi:
        fi = _ev_of(blk, "fi")
        if fi is None:
            return None
        ev = FrozenEv(ev)
        ev["fi"] = fi
    return ev


class FrozenEv(dict):
    pass


FAST_JIT = ("-XX:TieredStopAtLevel=1",)      # short TLC runs: skip the optimising JIT tier (halves the CPU time)


DONE = '/\\ stage = "done"'
ENDED = '/\\ st2 = "end"'


def mc_models(spec, cfg, timeout=600, workers=16, java_opts=(), marker=DONE, with_fi=False):
    """exhaustive TLC run with a state dump; returns (TlcResult, [ev of every finished model])"""
    meta = tlc._mk_tmp()
    try:
        dump = os.path.join(meta, "dump")
        res = tlc.run(spec, cfg, workers=workers, args=["-dump", dump], timeout=timeout, keep_meta=meta, coverage=False,
                      java_opts=java_opts)
        out = []
        f = dump + ".dump" if os.path.exists(dump + ".dump") else dump
        if os.path.exists(f):
            txt = open(f).read()
            for blk in re.split(r'\nState \d+:\n', "\n" + txt):
                ev = _take(blk, marker, with_fi)
                if ev is not None:
                    out.append(ev)
        return res, out
    finally:
        shutil.rmtree(meta, ignore_errors=True)


def sim_models(spec, cfg, num, depth, seed, timeout=600, java_opts=(), marker=DONE, with_fi=False):
    """TLC -simulate; returns (TlcResult, [ev of the last state of every behaviour that finished a model])"""
    meta = tlc._mk_tmp()
    try:
        pref = os.path.join(meta, "tr")
        res = tlc.run(spec, cfg, workers=1, simulate="file=%s,num=%d" % (pref, num), depth=depth, seed=seed,
                      timeout=timeout, keep_meta=meta, java_opts=java_opts)
        out = []
        m = re.search(r'The number of states generated: (\d+)', res.out)
        if m and not res.generated:
            res.generated = int(m.group(1))
        for f in sorted(_glob.glob(pref + "*")):
            txt = open(f).read()
            k = txt.rfind("STATE_")
            if k < 0:
                continue
            ev = _take(txt[k:], marker, with_fi)
            if ev is not None:
                out.append(ev)
        return res, out
    finally:
        shutil.rmtree(meta, ignore_errors=True)


# ----------------------------------------------------------------------------------------------
# rendering
# ----------------------------------------------------------------------------------------------
def num(x):
    return repr(float(x))


def csv(xs):
    return ",".join(num(x) for x in xs)


def quat_of(rot):
    """<<signed axis, quarter turns>> -> unit quaternion"""
    ax, k = rot
    h = (k % 4) * math.pi / 4
    q = [math.cos(h), 0.0, 0.0, 0.0]
    q[abs(ax)] = math.sin(h) * (1 if ax > 0 else -1)
    return q


def axis_of(ax):
    v = [0.0, 0.0, 0.0]
    v[abs(ax) - 1] = 1.0 if ax > 0 else -1.0
    return v


def flat(x):
    """nested tuples of ints -> flat list"""
    if isinstance(x, (tuple, list)):
        out = []
        for y in x:
            out += flat(y)
        return out
    return [x]


def unit_of(ev, d):
    """unit of dof d (0-based): quarter turn for hinges, 1 for slides"""
    return U if ev["hinge"][d] else 1.0


def model_lines(ev, timestep=0.25, integrator="euler", disable=(), enable=(), extra_lines=(), joint_extra=None,
                body_extra=None, option_extra="", world_site=False):
    """mkmodel.h description of the published model"""
    g = ev["glob"]
    dis = 0
    for x in list(g["dis"]) + list(disable):
        dis |= DIS[x]
    en = 0
    for x in enable:
        en |= ENBL[x]
    L = ["option timestep=%s gravity=%s integrator=%d disableflags=%d enableflags=%d" % (
        num(timestep), csv(g["g"]), INTEGRATOR[integrator], dis, en) + ((" " + option_extra) if option_extra else ""),
         "compiler degree=0 fusestatic=0 autolimits=1 boundmass=0 boundinertia=0"]
    ten_hinge = False
    sp = tuple(g.get("sp", (0, 0))) if ev.get("spL", 0) > 0 else (0, 0)        # the spatial tendon exists where its length is an integer
    if world_site or 0 in sp and sp != (0, 0):
        L.append("site body=world name=s0 pos=0,0,0")                          # WSite of the specification (site id 0: ids of body sites shift by one)
    for k, b in enumerate(ev["bodies"], start=1):
        L.append("body name=b%d parent=%s pos=%s quat=%s mass=%s ipos=%s inertia=%s explicitinertial=1 gravcomp=%s%s" % (
            k, "world" if b["par"] == 0 else "b%d" % b["par"], csv(b["pos"]), csv(quat_of(b["rot"])), num(b["mass"]),
            csv(b["ipos"]), csv(b["inr"]), num(b.get("gc", 0)), (" " + body_extra(k, b)) if body_extra else ""))
        if b["jt"] == "ball":
            L.append("joint body=b%d name=j%d type=1 pos=%s" % (k, k, csv(b["janc"])))
        elif b["jt"] != "none":
            hinge = b["jt"] == "hinge"
            u = U if hinge else 1.0
            # stiffness / damping: linear coefficient followed by the two higher-order polynomial coefficients
            L.append("joint body=b%d name=j%d type=%d axis=%s pos=%s stiffness=%s springref=%s damping=%s armature=%s%s" % (
                k, k, 3 if hinge else 2, csv(axis_of(b["ax"])), csv(b["janc"]), csv([b.get("k", 0)] + list(b.get("kp", (0, 0)))),
                num(b.get("qref", 0) * u), csv([b.get("damp", 0)] + list(b.get("dp", (0, 0)))), num(b.get("arm", 0)),
                (" " + joint_extra(k, b)) if joint_extra else ""))
            if b.get("tc", 0) != 0 and hinge:
                ten_hinge = True
        L.append("site body=b%d name=s%d pos=%s quat=%s" % (k, k, csv(b["spos"]), csv(quat_of(b["srot"]))))
        L.append("geom body=b%d name=g%d type=2 size=0.125 pos=%s quat=%s contype=0 conaffinity=0" % (
            k, k, csv(b["spos"]), csv(quat_of(b["srot"]))))
        L.append("camera body=b%d name=c%d pos=%s quat=%s" % (k, k, csv(b["spos"]), csv(quat_of(b["srot"]))))
    if any(b.get("tc", 0) != 0 for b in ev["bodies"]):
        u = U if ten_hinge else 1.0
        L.append("tendon name=t stiffness=%s springlength=%s damping=%s armature=%s" % (
            csv([g["tk"]] + list(g.get("tkp", (0, 0)))), csv([g["trange"][0] * u, g["trange"][1] * u]),
            csv([g["tdamp"]] + list(g.get("tdp", (0, 0)))), num(g["tarm"])))
        for k, b in enumerate(ev["bodies"], start=1):
            if b.get("tc", 0) != 0:
                L.append("wrapjoint tendon=t joint=j%d coef=%s" % (k, num(b["tc"])))
            elif g.get("tz") and b["jt"] != "none":
                L.append("wrapjoint tendon=t joint=j%d coef=0" % k)          # wrapped with coefficient 0: an exact zero in ten_J
    if sp != (0, 0):
        if ev.get("sppas"):         # spring / damper of the spatial tendon (only where the specification carries them)
            L.append("tendon name=ts armature=%s stiffness=%s springlength=%s damping=%s" % (
                num(g["sarm"]), csv(g["ssk"]), csv(g["ssr"]), csv(g["ssd"])))
        else:
            L.append("tendon name=ts armature=%s" % num(g["sarm"]))
        L.append("wrapsite tendon=ts site=s%d" % sp[0])
        L.append("wrapsite tendon=ts site=s%d" % sp[1])
    L += list(extra_lines)
    return L


def state_lines(ev, ds=0, acc=False):
    """set qpos / qvel (/ qacc) of data slot ds to the published lattice state"""
    dofs = ev["dofs"]
    B = ev["bodies"]
    if ev.get("hasball"):
        # ball joints: qpos holds the quaternion of q quarter turns about the joint axis, scaled by the published factor
        q, v = [], []
        for b in B:
            if b["jt"] == "ball":
                f = b["qs"][0] / float(b["qs"][1])
                q += [f * x for x in quat_of((b["ax"], b["q"]))]
                v += [0.0, 0.0, 0.0]
            elif b["jt"] != "none":
                q.append(b["q"] * (U if b["jt"] == "hinge" else 1.0))
                v.append(b["v"])
        return ["setv %d qpos %s" % (ds, csv(q)), "setv %d qvel %s" % (ds, csv(v))]
    if not dofs:
        return []
    q = [B[b - 1]["q"] * unit_of(ev, i) for i, b in enumerate(dofs)]
    v = [B[b - 1]["v"] for b in dofs]
    out = ["setv %d qpos %s" % (ds, csv(q)), "setv %d qvel %s" % (ds, csv(v))]
    if acc:
        out.append("setv %d qacc %s" % (ds, csv([B[b - 1]["a"] for b in dofs])))
    return out


# ----------------------------------------------------------------------------------------------
# script = list of commands with, in parallel, what each output line must be
# ----------------------------------------------------------------------------------------------
TOL = 1e-9


class Script:
    def __init__(self):
        self.lines = []
        self.exp = []        # ("ok",) | ("vec", label, [floats], scale, exact, skip_prefix) | ("any",)

    def ok(self, line):
        self.lines.append(line)
        self.exp.append(("ok",))

    def oks(self, lines):
        for ln in lines:
            self.ok(ln)

    def model(self, desc_lines, slot=0):
        # one output line for the whole "model ... end" block
        self.lines.append("model %d" % slot)
        self.lines += list(desc_lines)
        self.lines.append("end")
        self.exp.append(("ok",))

    def any(self, line):
        self.lines.append(line)
        self.exp.append(("any",))

    def num(self, line, label, want, scale=1.0):
        """output is a single number"""
        self.lines.append(line)
        self.exp.append(("vec", label, [float(want)], float(scale), False, -1, TOL))

    def vec(self, line, label, want, scale=1.0, exact=False, skip=0, tol=None):
        """output 'n v...' (first `skip` values ignored, e.g. the world body) must equal `want`"""
        self.lines.append(line)
        self.exp.append(("vec", label, [float(x) for x in want], float(scale), exact, skip, tol if tol else TOL))


def parse_vec(s):
    t = s.split()
    if not t or not re.fullmatch(r'\d+', t[0]):
        return None
    try:
        v = [float(x) for x in t[1:]]
    except ValueError:
        return None
    if len(v) != int(t[0]):
        return None
    return v



def compare(exp, got):
    """first mismatch as (index, label, detail) or None"""
    for i, e in enumerate(exp):
        if i >= len(got):
            return i, "crash", "no output (harness died)"
        g = got[i]
        if e[0] == "any":
            if g.startswith("error") or g.startswith("?") or g.startswith("MKMODEL") or g.startswith("FATAL"):
                return i, "machinery", g
            continue
        if e[0] == "ok":
            if g != "ok":
                return i, "machinery", g
            continue
        _, label, want, scale, exact, skip = e[:6]
        tol = e[6] if len(e) > 6 else TOL
        if skip == -1:
            skip = 0
            try:
                v = [float(g)]
            except ValueError:
                v = None
        else:
            v = parse_vec(g)
        if v is None:
            return i, "machinery", "unparsable output %r for %s" % (g[:200], label)
        v = v[skip:]
        if len(v) != len(want):
            return i, label, "length %d, specification has %d" % (len(v), len(want))
        mag = max([1.0, scale] + [abs(x) for x in want])
        for k, (a, b) in enumerate(zip(v, want)):
            bad = (a != b) if exact else not (abs(a - b) <= tol * mag)
            if bad or a != a:
                return i, label, "entry %d is %r, specification says %r (vector %s vs %s)" % (
                    k, a, b, [round(x, 12) for x in v[:24]], want[:24])
    return None


def run_cases(exe, cases, timeout=900):
    """cases: list of (key, Script). Runs everything in ONE harness process.
    Returns list of (key, mismatch or None, script) and the DrvResult"""
    lines = []
    index = []
    for key, sc in cases:
        index.append((len(index), key, sc))
        lines += sc.lines
    r = drv.run_script(exe, lines, timeout=timeout)
    out = []
    pos = 0
    for _, key, sc in index:
        nexp = len(sc.exp)
        got = r.lines[pos:pos + nexp]
        pos += nexp
        out.append((key, compare(sc.exp, got), sc, got))
    return out, r


def features(ev):
    """stable description of the class of a model, for signatures"""
    js = "".join({"none": "-", "slide": "s", "hinge": "h", "ball": "b"}[b["jt"]] for b in ev["bodies"])
    return js


def sanity(sc, ev, slot=0):
    """the compiled model numbers bodies and dofs as the specification does (machinery guard)"""
    sc.vec("mget %d body_parentid" % slot, "machinery:body_parentid", [0] + [b["par"] for b in ev["bodies"]], exact=True)
    sc.vec("mget %d dof_bodyid" % slot, "machinery:dof_bodyid", list(ev["dofs"]), exact=True)


def jac_flat(J):
    """published Jacobian (sequence of nv columns, each a 3-vector) -> row-major 3 x nv flat list"""
    return [col[r] for r in range(3) for col in J]


def key_of(ev):
    return tlc.to_py({"bodies": ev["bodies"], "glob": ev["glob"]})


def violation(ctx, sig, what, sc, k, extra=None):
    """record a violation with everything needed to re-run and re-compare it"""
    rp = {"script": sc.lines, "line": k, "exp": list(sc.exp[k]) if 0 <= k < len(sc.exp) else None}
    if extra:
        rp.update(extra)
    ctx.violation(sig, what, rp)


def replay_common(ctx, rp):
    exe = harness()
    r = drv.run_script(exe, rp["replay"]["script"])
    k = rp["replay"]["line"]
    e = rp["replay"].get("exp")
    got = r.lines[k] if 0 <= k < len(r.lines) else "<no output>"
    print("command output: %s" % got[:400])
    ctx.case({"replay": rp["signature"]})
    ctx.case({"replay": rp["signature"], "x": 1})
    if e is None or k >= len(r.lines):
        ctx.violation(rp["signature"], rp["what"], rp["replay"])
        return
    e = tuple(e)
    mm = compare([e], [got])
    if mm is not None:
        print("still differs: %s" % mm[2][:400])
        ctx.violation(rp["signature"], rp["what"], rp["replay"])
    else:
        print("matches the specification now")


def sc_cmd(sc, k):
    """command whose output is the k-th expectation"""
    j = 0
    skipping = False
    for ln in sc.lines:
        if skipping:
            if ln == "end":
                skipping = False
                j += 1
            continue
        if ln.startswith("model "):
            if j == k:
                return ln
            skipping = True
            continue
        if j == k:
            return ln
        j += 1
    return "?"


def check_models(ctx, pid, exe, evs, tag, script_for, sig_of, describe=None, key=None):
    """build, run and compare every published model; returns the per-model results"""
    cases = [(i, script_for(ev)) for i, ev in enumerate(evs)]
    res, r = run_cases(exe, cases)
    for (i, mm, sc, got) in res:
        ev = evs[i]
        kf = key or key_of
        ctx.case(kf(ev), nontrivial=ev["nv"] > 0,
                 sample={"joints": features(ev), "parents": [b["par"] for b in ev["bodies"]]})
        if mm is None:
            ctx.trace_ok()
            continue
        k, label, detail = mm
        if label == "machinery":
            raise Machinery("harness/protocol problem in %s model %d: %s (command %r)" % (tag, i, detail, sc_cmd(sc, k)))
        if label == "crash":
            ctx.violation(pid + ":crash", "harness died: " + r.crash_text(), {"script": sc.lines, "line": -1})
            break
        what = "%s of model joints=%s%s: %s" % (label, features(ev), (" " + describe(ev)) if describe else "", detail)
        violation(ctx, sig_of(ev, label), what, sc, k, {"model": kf(ev)})
    return res


def perturb_control(ctx, name, results, label, delta, index=0):
    """negative control: adding `delta` to one expected entry of the first vector called `label` must be flagged"""
    for (i, mm, sc, got) in results:
        for k, e in enumerate(sc.exp):
            if e[0] == "vec" and e[1] == label and len(e[2]) > index and mm is None:
                bad = list(sc.exp)
                w = list(e[2])
                w[index] += delta * max([1.0, e[3]] + [abs(x) for x in w])       # delta is relative to the vector's scale
                bad[k] = e[:2] + (w,) + e[3:]
                ctx.control(name, compare(bad, got) is not None)
                return
    raise Machinery("negative control %r: no vector %r among the results" % (name, label))


def run_lattice(ctx, pid, spec, mc_cfgs, sim_cfg, nsim, script_for, sig_of, need=None, describe=None, cov_cfg=None,
                neg_cfg=None, timeout=1500):
    """the common shape of the four checks: exhaustive lattices + simulated large lattice, all replayed"""
    exe = harness()
    allres = []
    total = 0
    for cfg in mc_cfgs:
        res, evs = mc_models(spec, os.path.join(TLA, cfg), timeout=timeout, java_opts=FAST_JIT if ctx.quick else ())
        ctx.tlc_ok(res, cfg[:-4])
        if not evs:
            raise Machinery("no finished models in the exhaustive run " + cfg)
        total += len(evs)
        allres += [(evs, check_models(ctx, pid, exe, evs, cfg[:-4], script_for, sig_of, describe))]
    res2, sims = sim_models(spec, os.path.join(TLA, sim_cfg), num=nsim, depth=60, seed=ctx.seed + 7, timeout=timeout,
                            java_opts=FAST_JIT if ctx.quick else ())
    ctx.tlc_ok(res2, sim_cfg[:-4])
    ctx.cov["states"] += res2.generated          # simulation reports generated states only
    if len(sims) < nsim // 2:
        raise Machinery("simulation produced only %d finished models" % len(sims))
    allres += [(sims, check_models(ctx, pid, exe, sims, sim_cfg[:-4], script_for, sig_of, describe))]
    if cov_cfg:
        resc = tlc.run(spec, os.path.join(TLA, cov_cfg), coverage=True, timeout=timeout)
        ctx.tlc_ok(resc, cov_cfg[:-4], need_actions=["DoPickA", "DoPickB", "DoPickC", "DoPickG", "DoKin", "DoFd", "DoVel",
                                                      "DoMass", "DoDyn", "DoPassive", "DoEnergy", "DoFinish"])
    for cfg, claim in ([neg_cfg] if neg_cfg and isinstance(neg_cfg[0], str) else (neg_cfg or [])):
        # negative control of the model checking itself: a deliberately false claim must be refuted by TLC
        resn = tlc.run(spec, os.path.join(TLA, cfg), timeout=timeout, java_opts=FAST_JIT)
        ctx.tlc_ok(resn, cfg[:-4], allow_violation=True)
        ctx.control("TLC refutes the false claim %s" % claim, resn.violation is not None and claim in resn.violation)
    if need:
        # vacuity: the antecedents of the decided properties occur among the replayed models
        allev = [ev for evs, _ in allres for ev in evs]
        for name, pred in need.items():
            if not any(pred(ev) for ev in allev):
                raise Machinery("vacuity: no replayed model with " + name)
    ctx.cov["exhaustive"] = True
    ctx.cov["rule"] = ("every finished model of the exhaustive lattices %s (%d models) and %d simulated models of 3-4 bodies "
                       "over the large value sets (%s) are built through mjSpec and compared field by field with the "
                       "values published by the specification; non-trivial = at least one dof; distinct = distinct "
                       "model+state descriptions" % (", ".join(c[:-4] for c in mc_cfgs), total, len(sims), sim_cfg[:-4]))
    return allres


def upoly(c, den=1):
    """u-polynomial <<c0..c4>> over a denominator -> number (u = one quarter turn)"""
    return sum(float(x) * U ** k for k, x in enumerate(c)) / float(den)
