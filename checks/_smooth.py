"""Shared machinery of C06, C07, C29, C09: SmoothLattice.tla / SmoothFwdInv.tla -> harness/smooth_drv.cc.

The TLA+ specification publishes, for every finished lattice model, a record `ev` with the model description and
every quantity the implementation must return.  This module only RENDERS (numbers -> model description lines and
harness commands, quarter turns -> radians / quaternions) and COMPARES; it computes no physics.
"""
import math
import os
import re
import glob as _glob
import shutil

from vlib import build, tlc, drv
from vlib.check import Machinery, VERIF

TLA = os.path.join(VERIF, "tla")
U = math.pi / 2            # one quarter turn
DIS = {"constraint": 1 << 0, "equality": 1 << 1, "frictionloss": 1 << 2, "limit": 1 << 3, "contact": 1 << 4,
       "spring": 1 << 5, "damper": 1 << 6, "gravity": 1 << 7, "actuation": 1 << 11, "eulerdamp": 1 << 15}
ENBL = {"energy": 1 << 1, "fwdinv": 1 << 2, "invdiscrete": 1 << 3, "diagexact": 1 << 5}
INTEGRATOR = {"euler": 0, "rk4": 1, "implicit": 2, "implicitfast": 3}


def harness():
    return build.build_harness("smooth_drv", [os.path.join(VERIF, "harness", "smooth_drv.cc")])


# ----------------------------------------------------------------------------------------------
# getting finished models out of TLC without parsing the intermediate states
# ----------------------------------------------------------------------------------------------
_EV = re.compile(r'/\\ ev = (.*?)(?=\n/\\ [A-Za-z_]+ = |\Z)', re.S)


def _ev_of(block):
    m = _EV.search(block)
    if not m:
        return None
    return tlc.parse_value(m.group(1))


def mc_models(spec, cfg, timeout=600, workers=16, want=lambda ev: ev.get("op") == "model"):
    """exhaustive TLC run with a state dump; returns (TlcResult, [ev of every finished model])"""
    meta = tlc._mk_tmp()
    try:
        dump = os.path.join(meta, "dump")
        res = tlc.run(spec, cfg, workers=workers, args=["-dump", dump], timeout=timeout, keep_meta=meta, coverage=True)
        out = []
        f = dump + ".dump" if os.path.exists(dump + ".dump") else dump
        if os.path.exists(f):
            txt = open(f).read()
            for blk in re.split(r'\nState \d+:\n', "\n" + txt):
                if '/\\ stage = "done"' not in blk:
                    continue
                ev = _ev_of(blk)
                if ev is not None and want(ev):
                    out.append(ev)
        return res, out
    finally:
        shutil.rmtree(meta, ignore_errors=True)


def sim_models(spec, cfg, num, depth, seed, timeout=600, want=lambda ev: ev.get("op") == "model"):
    """TLC -simulate; returns (TlcResult, [ev of the last state of every behaviour that finished a model])"""
    meta = tlc._mk_tmp()
    try:
        pref = os.path.join(meta, "tr")
        res = tlc.run(spec, cfg, workers=1, simulate="file=%s,num=%d" % (pref, num), depth=depth, seed=seed,
                      timeout=timeout, keep_meta=meta)
        out = []
        for f in sorted(_glob.glob(pref + "*")):
            txt = open(f).read()
            k = txt.rfind("STATE_")
            if k < 0:
                continue
            blk = txt[k:]
            if '/\\ stage = "done"' not in blk:
                continue
            ev = _ev_of(blk)
            if ev is not None and want(ev):
                out.append(ev)
        return res, out
    finally:
        shutil.rmtree(meta, ignore_errors=True)


# ----------------------------------------------------------------------------------------------
# rendering
# ----------------------------------------------------------------------------------------------
def num(x):
    return repr(float(x))


def csv(xs):
    return ",".join(num(x) for x in xs)


def quat_of(rot):
    """<<signed axis, quarter turns>> -> unit quaternion"""
    ax, k = rot
    h = (k % 4) * math.pi / 4
    q = [math.cos(h), 0.0, 0.0, 0.0]
    q[abs(ax)] = math.sin(h) * (1 if ax > 0 else -1)
    return q


def axis_of(ax):
    v = [0.0, 0.0, 0.0]
    v[abs(ax) - 1] = 1.0 if ax > 0 else -1.0
    return v


def flat(x):
    """nested tuples of ints -> flat list"""
    if isinstance(x, (tuple, list)):
        out = []
        for y in x:
            out += flat(y)
        return out
    return [x]


def unit_of(ev, d):
    """unit of dof d (0-based): quarter turn for hinges, 1 for slides"""
    return U if ev["hinge"][d] else 1.0


def model_lines(ev, timestep=0.25, integrator="euler", disable=(), enable=(), extra_lines=(), joint_extra=None,
                body_extra=None):
    """mkmodel.h description of the published model"""
    g = ev["glob"]
    dis = 0
    for x in list(g["dis"]) + list(disable):
        dis |= DIS[x]
    en = 0
    for x in enable:
        en |= ENBL[x]
    L = ["option timestep=%s gravity=%s integrator=%d disableflags=%d enableflags=%d" % (
        num(timestep), csv(g["g"]), INTEGRATOR[integrator], dis, en),
         "compiler degree=0 fusestatic=0 autolimits=1 boundmass=0 boundinertia=0"]
    ten_hinge = False
    for k, b in enumerate(ev["bodies"], start=1):
        L.append("body name=b%d parent=%s pos=%s quat=%s mass=%s ipos=%s inertia=%s explicitinertial=1 gravcomp=%s%s" % (
            k, "world" if b["par"] == 0 else "b%d" % b["par"], csv(b["pos"]), csv(quat_of(b["rot"])), num(b["mass"]),
            csv(b["ipos"]), csv(b["inr"]), num(b.get("gc", 0)), (" " + body_extra(k, b)) if body_extra else ""))
        if b["jt"] != "none":
            hinge = b["jt"] == "hinge"
            u = U if hinge else 1.0
            L.append("joint body=b%d name=j%d type=%d axis=%s pos=%s stiffness=%s springref=%s damping=%s armature=%s%s" % (
                k, k, 3 if hinge else 2, csv(axis_of(b["ax"])), csv(b["janc"]), num(b.get("k", 0)),
                num(b.get("qref", 0) * u), num(b.get("damp", 0)), num(b.get("arm", 0)),
                (" " + joint_extra(k, b)) if joint_extra else ""))
            if b.get("tc", 0) != 0 and hinge:
                ten_hinge = True
        L.append("site body=b%d name=s%d pos=%s quat=%s" % (k, k, csv(b["spos"]), csv(quat_of(b["srot"]))))
        L.append("geom body=b%d name=g%d type=2 size=0.125 pos=%s quat=%s contype=0 conaffinity=0" % (
            k, k, csv(b["spos"]), csv(quat_of(b["srot"]))))
        L.append("camera body=b%d name=c%d pos=%s quat=%s" % (k, k, csv(b["spos"]), csv(quat_of(b["srot"]))))
    if any(b.get("tc", 0) != 0 for b in ev["bodies"]):
        u = U if ten_hinge else 1.0
        L.append("tendon name=t stiffness=%s springlength=%s damping=%s armature=%s" % (
            num(g["tk"]), csv([g["trange"][0] * u, g["trange"][1] * u]), num(g["tdamp"]), num(g["tarm"])))
        for k, b in enumerate(ev["bodies"], start=1):
            if b.get("tc", 0) != 0:
                L.append("wrapjoint tendon=t joint=j%d coef=%s" % (k, num(b["tc"])))
    L += list(extra_lines)
    return L


def state_lines(ev, ds=0, acc=False):
    """set qpos / qvel (/ qacc) of data slot ds to the published lattice state"""
    dofs = ev["dofs"]
    if not dofs:
        return []
    B = ev["bodies"]
    q = [B[b - 1]["q"] * unit_of(ev, i) for i, b in enumerate(dofs)]
    v = [B[b - 1]["v"] for b in dofs]
    out = ["setv %d qpos %s" % (ds, csv(q)), "setv %d qvel %s" % (ds, csv(v))]
    if acc:
        out.append("setv %d qacc %s" % (ds, csv([B[b - 1]["a"] for b in dofs])))
    return out


# ----------------------------------------------------------------------------------------------
# script = list of commands with, in parallel, what each output line must be
# ----------------------------------------------------------------------------------------------
class Script:
    def __init__(self):
        self.lines = []
        self.exp = []        # ("ok",) | ("vec", label, [floats], scale, exact, skip_prefix) | ("any",)

    def ok(self, line):
        self.lines.append(line)
        self.exp.append(("ok",))

    def oks(self, lines):
        for ln in lines:
            self.ok(ln)

    def model(self, desc_lines, slot=0):
        # one output line for the whole "model ... end" block
        self.lines.append("model %d" % slot)
        self.lines += list(desc_lines)
        self.lines.append("end")
        self.exp.append(("ok",))

    def any(self, line):
        self.lines.append(line)
        self.exp.append(("any",))

    def vec(self, line, label, want, scale=1.0, exact=False, skip=0):
        """output 'n v...' (first `skip` values ignored, e.g. the world body) must equal `want`"""
        self.lines.append(line)
        self.exp.append(("vec", label, [float(x) for x in want], float(scale), exact, skip))


def parse_vec(s):
    t = s.split()
    if not t or not re.fullmatch(r'\d+', t[0]):
        return None
    try:
        v = [float(x) for x in t[1:]]
    except ValueError:
        return None
    if len(v) != int(t[0]):
        return None
    return v


TOL = 1e-9


def compare(exp, got):
    """first mismatch as (index, label, detail) or None"""
    for i, e in enumerate(exp):
        if i >= len(got):
            return i, "crash", "no output (harness died)"
        g = got[i]
        if e[0] == "any":
            if g.startswith("error") or g.startswith("?") or g.startswith("MKMODEL") or g.startswith("FATAL"):
                return i, "machinery", g
            continue
        if e[0] == "ok":
            if g != "ok":
                return i, "machinery", g
            continue
        _, label, want, scale, exact, skip = e
        v = parse_vec(g)
        if v is None:
            return i, "machinery", "unparsable output %r for %s" % (g[:200], label)
        v = v[skip:]
        if len(v) != len(want):
            return i, label, "length %d, specification has %d" % (len(v), len(want))
        mag = max([1.0, scale] + [abs(x) for x in want])
        for k, (a, b) in enumerate(zip(v, want)):
            bad = (a != b) if exact else not (abs(a - b) <= TOL * mag)
            if bad or a != a:
                return i, label, "entry %d is %r, specification says %r (vector %s vs %s)" % (
                    k, a, b, [round(x, 12) for x in v[:24]], want[:24])
    return None


def run_cases(exe, cases, timeout=900):
    """cases: list of (key, Script). Runs everything in ONE harness process.
    Returns list of (key, mismatch or None, script) and the DrvResult"""
    lines = []
    index = []
    for key, sc in cases:
        index.append((len(index), key, sc))
        lines += sc.lines
    r = drv.run_script(exe, lines, timeout=timeout)
    out = []
    pos = 0
    for _, key, sc in index:
        nexp = len(sc.exp)
        got = r.lines[pos:pos + nexp]
        pos += nexp
        out.append((key, compare(sc.exp, got), sc, got))
    return out, r


def features(ev):
    """stable description of the class of a model, for signatures"""
    js = "".join({"none": "-", "slide": "s", "hinge": "h"}[b["jt"]] for b in ev["bodies"])
    return js


def sanity(sc, ev, slot=0):
    """the compiled model numbers bodies and dofs as the specification does (machinery guard)"""
    sc.vec("mget %d body_parentid" % slot, "machinery:body_parentid", [0] + [b["par"] for b in ev["bodies"]], exact=True)
    sc.vec("mget %d dof_bodyid" % slot, "machinery:dof_bodyid", list(ev["dofs"]), exact=True)


def jac_flat(J):
    """3 x nv published Jacobian -> row-major flat list"""
    return flat(J)


def key_of(ev):
    return tlc.to_py({"bodies": ev["bodies"], "glob": ev["glob"]})


def violation(ctx, sig, what, sc, k, extra=None):
    """record a violation with everything needed to re-run and re-compare it"""
    rp = {"script": sc.lines, "line": k, "exp": list(sc.exp[k]) if 0 <= k < len(sc.exp) else None}
    if extra:
        rp.update(extra)
    ctx.violation(sig, what, rp)


def replay_common(ctx, rp):
    exe = harness()
    r = drv.run_script(exe, rp["replay"]["script"])
    k = rp["replay"]["line"]
    e = rp["replay"].get("exp")
    got = r.lines[k] if 0 <= k < len(r.lines) else "<no output>"
    print("command output: %s" % got[:400])
    ctx.case({"replay": rp["signature"]})
    ctx.case({"replay": rp["signature"], "x": 1})
    if e is None or k >= len(r.lines):
        ctx.violation(rp["signature"], rp["what"], rp["replay"])
        return
    e = tuple(e)
    mm = compare([e], [got])
    if mm is not None:
        print("still differs: %s" % mm[2][:400])
        ctx.violation(rp["signature"], rp["what"], rp["replay"])
    else:
        print("matches the specification now")
