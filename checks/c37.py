"""C37 (schema-enforcement clause) - XSchema.tla decided by TLC, replayed into the real mjXSchema::Check.

Every document TLC enumerates (exhaustively up to a small size, simulated beyond) is built through a DOM-only
tinyxml2 shim and validated by the real mjXSchema (src/xml/xml_util.cc) constructed from the same table the
specification carries; accept/reject must equal the specification's `valid`.  Where the implementation agrees
with the specification's named deviation `validcode` instead (subtrees below worldbody-alias elements frame /
replicate are admitted unchecked), the violation carries the signature of that known structural finding.
"""
import os

from vlib import build, tlc, drv
from vlib.check import Machinery, VERIF

TLA = os.path.join(VERIF, "tla")

META = dict(
    engine="tlc-replay",
    technique="TLA+ specs XSchema.tla (synthetic table: rows, cardinalities, presence constraints, alias tags) and "
              "MjcfDocs.tla (24-row slice of the real MJCF table with attribute types and enum keywords), documents grown "
              "and judged by TLC; every TLC document replayed into the real mjXSchema::Check (DOM shim) and into the real "
              "reader mj_parseXMLString / mj_compile (all of src/xml linked against an XML stand-in); seeded mutants of "
              "valid documents and shipped models under ASan/UBSan for the crash clause",
    text="Decides the schema-enforcement clause for all documents within the bounds: conforming documents are accepted "
         "(or rejected only by a later, non-schema stage) and documents with a wrong root, an unknown element/attribute, a "
         "broken cardinality, a broken presence constraint, an invalid enum keyword or an ill-typed attribute value are "
         "rejected with a non-empty message, at every nesting position including below alias elements. The never-crashes "
         "clause is sampled, not decided: seeded mutants (16 mutators) must not kill, hang or abort the reader.",
    note="The tokenizer is the stand-in shim/fullxml/tinyxml2.h, not tinyxml2 (trusted base, DESIGN 9.6); only crashes "
         "count in the mutation stage. URDF input is not covered. Trusted: TLC, shim/domxml, shim/fullxml.",
    ref="DESIGN.md section 4 C37")


def harness():
    V = VERIF
    return build.build_harness("xschema_drv", [V + "/harness/xschema_drv.cc", build.REPO + "/src/xml/xml_util.cc",
                                               build.REPO + "/src/xml/xml_numeric_format.cc"],
                               extra=["-I" + V + "/shim/domxml"])


def doc_lines(doc):
    nodes = sorted(doc, key=lambda n: (len(n["path"]), n["path"]))
    root = nodes[0]
    out = ["doc " + root["tag"]]
    for n in nodes:
        p = ".".join(str(i) for i in n["path"]) or "-"
        if n["path"]:
            out.append("node %s %s" % (p, n["tag"]))
        for a in sorted(n["attrs"]):
            out.append("attr %s %s" % (p, a))
    out.append("check")
    return out


def classify(doc):
    """what kind of schema violation sits where (for signatures)"""
    under = any(n["tag"] in ("frame", "replicate") for n in doc)
    return "under-alias" if under else "top"


def run(ctx):
    exe = harness()
    ctx.assume("documents of <= 7 elements, depth <= 3, <= 5 attributes over the synthetic table of XSchema.tla "
               "(row types ? ! * R, constraint kinds e t r o, alias tags worldbody/frame/replicate)",
               "attribute values are irrelevant to mjXSchema and fixed to '1'")
    spec = os.path.join(TLA, "XSchema.tla")
    if not ctx.quick:       # larger exhaustive design check (2.3M documents): invariants only, not replayed
        resb = tlc.run(spec, os.path.join(TLA, "XSchema_MC4.cfg"), timeout=3000)
        ctx.tlc_ok(resb, "XSchema_MC4")
    res, states = tlc.dump_states(spec, os.path.join(TLA, "XSchema_MC.cfg"), timeout=2400)
    ctx.tlc_ok(res, "XSchema_MC")
    # documents grown from the nested-body skeleton (cardinalities while the recursive row re-enters itself)
    resn, statesn = tlc.dump_states(spec, os.path.join(TLA, "XSchema_Nest.cfg"), timeout=2400)
    ctx.tlc_ok(resn, "XSchema_Nest")
    states = states + statesn
    nsim = 400 if ctx.quick else 6000
    res2, sims = tlc.simulate(spec, os.path.join(TLA, "XSchema_Sim.cfg"), num=nsim, depth=13, seed=ctx.seed + 1, timeout=1500)
    ctx.tlc_ok(res2, "XSchema_Sim")
    docs = [(s["doc"], s["ev"]) for s in states]
    seen = set()
    for b in sims:
        for (_a, s) in b:
            key = tlc.to_py(s["doc"])
            k2 = repr(key)
            if k2 not in seen:
                seen.add(k2)
                docs.append((s["doc"], s["ev"]))
    lines = ["table real", "table synth"]
    index = []
    for d, ev in docs:
        l = doc_lines(d)
        index.append((len(lines), len(l)))
        lines += l
    r = drv.run_script(exe, lines, timeout=900)
    if r.crashed or len(r.lines) != len(lines):
        ctx.violation("crash", "xschema driver died: " + r.crash_text(), {"script": lines[:50]})
        return
    if r.lines[0] != "ok" or r.lines[1] != "ok":
        raise Machinery("schema tables do not construct: %r %r" % (r.lines[0], r.lines[1]))
    nacc = nrej = ndiff = 0
    ctrl = False
    for (off, ln), (d, ev) in zip(index, docs):
        verdict = r.lines[off + ln - 1]
        acc = verdict == "accept"
        nacc += acc
        nrej += (not acc)
        ctx.case({"doc": tlc.to_py(d)}, nontrivial=len(d) > 1 or any(n["attrs"] for n in d),
                 sample={"doc": lines[off:off + ln], "valid": ev["valid"]})
        if not ctrl:
            ctx.control("comparer flags a flipped expectation", (acc == ev["valid"]) != (acc == (not ev["valid"])))
            ctrl = True
        if acc == ev["valid"]:
            ctx.trace_ok()
            continue
        ndiff += 1
        where = classify(d)
        if acc and not ev["valid"]:
            if ev["validcode"] and where == "under-alias":
                sig = "accepted-invalid:under-alias"
            else:
                sig = "accepted-invalid:%s" % where
            what = "invalid document accepted: %s" % " ; ".join(lines[off:off + ln - 1])
        else:
            sig = "rejected-valid:%s" % where
            what = "conforming document rejected (%s): %s" % (verdict, " ; ".join(lines[off:off + ln - 1]))
        ctx.violation(sig, what, {"script": ["table synth"] + lines[off:off + ln], "want": "accept" if ev["valid"] else "reject"})
    if nacc == 0 or nrej == 0:
        raise Machinery("vacuity: accepted %d, rejected %d documents" % (nacc, nrej))
    ctx.cov["accepted"] = nacc
    ctx.cov["rejected"] = nrej
    ctx.cov["exhaustive"] = True
    rule = ("mjXSchema over the synthetic table: every document of the exhaustive run (%d states) + %d distinct simulated "
            "documents; non-trivial = more than the bare root; distinct = distinct documents" % (len(states), len(docs) - len(states)))
    # the real reader (all of src/xml against the XML stand-in) over documents generated from a slice of the real table,
    # and the crash clause over mutated documents (MjcfDocs.tla, checks/_c37_real.py)
    from checks import _c37_real
    _c37_real.run_real(ctx)
    ctx.cov["exhaustive"] = False
    ctx.cov["rule"] = rule + "; real reader: " + str(ctx.cov.get("rule") or "documents of MjcfDocs.tla + seeded mutants")


def replay(ctx, rp):
    if rp["replay"].get("mode") == "real":
        from checks import _c37_real
        bad = _c37_real.replay_real(ctx, rp["replay"])
        if bad:
            ctx.violation(rp["signature"], bad[1], rp["replay"])
        ctx.case({"r": 1})
        ctx.case({"r": 2})
        return
    exe = harness()
    r = drv.run_script(exe, rp["replay"]["script"], timeout=60)
    got = r.lines[-1] if r.lines else "<none>"
    print("want", rp["replay"]["want"], "got", got)
    if got.split()[0] != rp["replay"]["want"]:
        ctx.violation(rp["signature"], rp["what"], rp["replay"])
    res = tlc.run(os.path.join(TLA, "XSchema.tla"), os.path.join(TLA, "XSchema_MC.cfg"), timeout=900)
    ctx.tlc_ok(res, "XSchema_MC")
    ctx.case({"r": 1}, sample=rp["replay"]["script"][:10])
    ctx.case({"r": 2})
    ctx.trace_ok()
