"""C42, second family: TLC-chosen edits of the checked-in mjcf.schema (tla/SchemaGenReal.tla); the delta variable of
each state is applied to the parsed outputs of the unedited schema and must equal the parsed outputs of the edited
one, for six generators (xsd, MJCF[] table, keyword maps, dm_control, read table, default table)."""
import os
import re

from vlib import tlc
from vlib.check import Machinery, VERIF
from checks import _schema_render as R

TLA = os.path.join(VERIF, "tla")
ALLGENS = ("generate_xsd", "generate_mjcf_table", "generate_mjcf_map", "generate_dmcontrol", "generate_read_table",
           "generate_default_table")


def tlc_job(ctx):
    cfg = "SchemaGenReal_MC.cfg" if ctx.quick else "SchemaGenReal_All.cfg"
    return cfg, tlc.dump_states(os.path.join(TLA, "SchemaGenReal.tla"), os.path.join(TLA, cfg), timeout=1200)


# ---- text edits of the real file ---------------------------------------------------------------------
def _block(text, kind, name):
    m = re.search(r'^%s %s\b[^\n]*\{[^\n]*\n(.*?)^\}' % (kind, re.escape(name)), text, re.S | re.M)
    if not m:
        raise Machinery("no %s %s in mjcf.schema" % (kind, name))
    return m


def _append_line(text, kind, name, line):
    m = _block(text, kind, name)
    return text[:m.end() - 1] + "  " + line + "\n" + text[m.end() - 1:]


def apply_edit(text, edit):
    k = edit["k"]
    if k == "attr":
        line = R.join_tokens(R.member_tokens(edit["attr"]), 0)
        if edit["via"] == "direct":
            return _append_line(text, "element", edit["elem"], line)
        text = _append_line(text, "element", edit["elem"], "use zg")
        return text + "\ngroup zg {\n  " + line + "\n}\n"
    if k == "item":
        it = edit["item"]
        key = '"%s"' % it["key"] if it["kk"] == "str" else it["key"]
        return _append_line(text, "enum", edit["enum"], "%s = %s" % (key, it["val"]))
    if k == "con":
        return _append_line(text, "element", edit["elem"], R.join_tokens(R.member_tokens(edit["con"]), 0))
    if k == "rename":
        m = re.search(r'^element %s\b([^\n]*)\{' % re.escape(edit["elem"]), text, re.M)
        head = m.group(1)
        f = edit["fac"]
        fac = "xml=" + ('"%s"' % f["s"] if f["k"] == "str" else f["s"])
        if "(" in head:
            new = head.replace("(", "(" + fac + ", ", 1)
        else:
            new = head.rstrip() + " (" + fac + ") "
        return text[:m.start(1)] + new + text[m.end(1):]
    raise Machinery("edit kind " + k)


# ---- read table --------------------------------------------------------------------------------------
def _split_top(s):
    out, depth, cur = [], 0, ""
    for ch in s:
        if ch == "(":
            depth += 1
        elif ch == ")":
            depth -= 1
        if ch == "," and depth == 0:
            out.append(cur.strip())
            cur = ""
        else:
            cur += ch
    if cur.strip():
        out.append(cur.strip())
    return tuple(out)


def parse_read(text):
    arrays = {}
    for m in re.finditer(r'inline constexpr (?:mjXAttr|mjXSensorEntry) (\w+)\[\] = \{\n(.*?)\n?\};', text, re.S):
        rows = [_split_top(r.group(1)) for r in re.finditer(r'^\s*\{(.*)\},\s*$', m.group(2), re.M)]
        arrays[m.group(1)] = rows
    return arrays


# ---- the base ---------------------------------------------------------------------------------------
class Base:
    def __init__(self, rn):
        from checks import c42
        self.c42 = c42
        self.text = R.real_text()
        self.mods = {g: R.load(g) for g in ALLGENS}
        self.schema = rn.ms.parse_string(self.text)
        self.elem_names = set(self.schema.elements)
        self.outs = self.gen(rn, self.text)
        self.failed = [(g, o) for g, o in self.outs.items() if isinstance(o, tuple)]
        if self.failed:
            return
        self.p = self.parse(self.outs, self.elem_names)
        tags = [e.xml_name() for e in self.schema.elements.values()]
        self.unique = {e.name for e in self.schema.elements.values() if tags.count(e.xml_name()) == 1}

    def gen(self, rn, text):
        rn.n += 1
        path = os.path.join(rn.tmp, "r%d.schema" % (rn.n % 4))
        with open(path, "w", encoding="utf-8") as f:
            f.write(text)
        out = {}
        for g, mod in self.mods.items():
            old = mod.SCHEMA_PATH
            mod.SCHEMA_PATH = path
            try:
                out[g] = mod.generate()
            except Exception as e:      # noqa: BLE001
                out[g] = ("exception", type(e).__name__, str(e)[:300])
            finally:
                mod.SCHEMA_PATH = old
        return out

    def parse(self, outs, elem_names):
        c = self.c42
        return {"xsd": c.parse_xsd(outs["generate_xsd"], elem_names), "table": c.parse_table(outs["generate_mjcf_table"]),
                "map": c.parse_map(outs["generate_mjcf_map"]), "dm": c.parse_dm(outs["generate_dmcontrol"]),
                "read": parse_read(outs["generate_read_table"]), "default": outs["generate_default_table"]}

    # facts SchemaGenReal.tla relies on
    def check_facts(self, states):
        structs = self.mods["generate_read_table"].parse_spec_structs(
            self.mods["generate_read_table"].SPEC_H_PATH, self.mods["generate_read_table"].MODEL_H_PATH)
        for st in states:
            e = st["edit"]
            if e["k"] in ("attr", "con", "rename"):
                if e["elem"] not in self.unique:
                    raise Machinery("fact: element %s has no unique XML tag" % e["elem"])
            if e["k"] == "attr":
                a = e["attr"]
                el = self.schema.elements[e["elem"]]
                if any(x.name == a["name"] for x in self.schema.expanded_attrs(el)):
                    raise Machinery("fact: %s already has attribute %s" % (e["elem"], a["name"]))
                for f in a["fac"]:
                    if f["f"] == "field":
                        ent = structs.get(el.spec, {}).get(f["s"])
                        if ent != ("double", "3"):
                            raise Machinery("fact: %s.%s is %r, not double[3]" % (el.spec, f["s"], ent))
                if a["type"] in ("enum", "flags") and a["target"] not in self.schema.enums:
                    raise Machinery("fact: enum %s" % a["target"])
                if a["def"]["k"] == "id" and a["type"] == "enum" and a["def"]["s"] not in self.schema.enums[a["target"]].keywords():
                    raise Machinery("fact: keyword %s" % a["def"]["s"])
            if e["k"] == "con":
                names = {x.name for x in self.schema.expanded_attrs(self.schema.elements[e["elem"]])}
                need = {n for b in e["con"]["bundles"] for n in b}
                if not need <= names:
                    raise Machinery("fact: %s lacks attributes %s" % (e["elem"], need - names))
            if e["k"] == "item" and e["enum"] not in self.schema.enums:
                raise Machinery("fact: enum %s" % e["enum"])

    # ---- expected = Apply(delta, base) ---------------------------------------------------------------
    def expect(self, delta):
        c = self.c42
        tup = c.tup
        p = self.p
        exp = {"xsd_kw": p["xsd"]["kw"], "xsd_types": p["xsd"]["types"], "table": p["table"], "map": p["map"],
               "dm": p["dm"], "read": p["read"], "default": p["default"]}
        k = delta["kind"]
        if k == "attr":
            e = delta["elem"]
            tag = self.schema.elements[e].xml_name()
            xa = tup(delta["xsd"])
            types = set()
            for t in p["xsd"]["types"]:
                if t[0] == e and (not t[1] or delta["inproj"]):
                    t = (t[0], t[1], t[2], t[3] + (xa,))
                types.add(t)
            exp["xsd_types"] = frozenset(types)
            exp["xsd_kw"] = tuple((n, keys, fl or n in delta["kwlist"]) for (n, keys, fl) in p["xsd"]["kw"])
            exp["table"] = self._table_map(lambda row, proj: (row[:3] + (row[3] + (delta["name"],), row[4])
                                                             if row[1] == tag and (not proj or delta["inproj"]) else row))
            da = tup(delta["dm"])
            if da[1][0] == "keyword-of":
                da = (da[0], ("keyword", tuple(self.schema.enums[da[1][1]].keywords())), da[2], da[3])
            exp["dm"] = self._dm_map(p["dm"], lambda n, proj: (n[:3] + (n[3] + (da,), n[4])
                                                               if n[1] == tag and (not proj or delta["inproj"]) else n))
            if delta["read"]:
                r = delta["read"][0]
                arr = "k%sAttrs" % e.capitalize()
                if arr not in p["read"]:
                    raise Machinery("fact: no read array %s" % arr)
                b = lambda x: "true" if x else "false"    # noqa: E731
                row = ('"%s"' % r[0], "mjXAttr::" + r[1], str(r[2]), b(r[3]), b(r[4]), b(r[5]), b(r[6]),
                       "(int)offsetof(%s, %s)" % (r[7], r[8]))
                rd = dict(p["read"])
                rd[arr] = p["read"][arr] + [row]
                exp["read"] = rd
        elif k == "item":
            en = delta["enum"]
            exp["xsd_kw"] = tuple((n, keys + (delta["key"],) if n == en else keys, fl) for (n, keys, fl) in p["xsd"]["kw"])
            exp["map"] = tuple((n, items + ((delta["key"], delta["val"]),) if n == en else items) for (n, items) in p["map"])
            old = tuple(self.schema.enums[en].keywords())
            same = [x.name for x in self.schema.enums.values() if tuple(x.keywords()) == old]
            if len(same) == 1:
                exp["dm"] = self._dm_map(p["dm"], lambda n, proj: n[:3] + (tuple(
                    (a[0], ("keyword", a[1][1] + (delta["key"],)), a[2], a[3]) if a[1] == ("keyword", old) else a
                    for a in n[3]), n[4]))
            else:
                exp["dm"] = None            # keyword set shared with another enum: not compared
        elif k == "con":
            tag = self.schema.elements[delta["elem"]].xml_name()
            con = (delta["con"][0], tup(delta["con"][1]))
            names = set(delta["names"])
            exp["table"] = self._table_map(lambda row, proj: (row[:4] + (row[4] | {con},)
                                                             if row[1] == tag and names <= set(row[3]) else row))
        elif k == "rename":
            e = delta["elem"]
            tag = self.schema.elements[e].xml_name()
            new = delta["tag"]
            exp["xsd_types"] = frozenset((t[0], t[1], tuple((new if kd[1] == e else kd[0], kd[1], kd[2]) for kd in t[2]), t[3])
                                         for t in p["xsd"]["types"])
            exp["table"] = self._table_map(lambda row, proj: (row[0], new) + row[2:] if row[1] == tag else row)
            exp["dm"] = self._dm_map(p["dm"], lambda n, proj: (n[0], new) + n[2:] if n[1] == tag else n)
            rd = {}
            for a, rows in p["read"].items():
                rd[a] = [(('"%s"' % new,) + r[1:]) if a == "kSensorDispatch" and r[1] == "k%sAttrs" % e.capitalize() else r
                         for r in rows]
            exp["read"] = rd
        return exp

    def _table_map(self, f):
        """apply f(row, projected) to every row; projected = nested below the top-level default row"""
        out = []
        depth = 0
        proj_depth = None
        prev_row = None
        for ent in self.p["table"]:
            if ent[0] == "<":
                depth += 1
                if proj_depth is None and prev_row is not None and prev_row[1] == "default" and depth == 2:
                    proj_depth = depth
                out.append(ent)
            elif ent[0] == ">":
                if proj_depth is not None and depth == proj_depth:
                    proj_depth = None
                depth -= 1
                out.append(ent)
            else:
                out.append(f(ent, proj_depth is not None and depth >= proj_depth))
                prev_row = ent
        return tuple(out)

    def _dm_map(self, node, f, proj=False, parent=None):
        kids = tuple(self._dm_map(k, f, proj or (node[1] == "default" and k[1] != "default"), node) for k in node[4])
        n = (node[0], node[1], node[2], node[3], kids)
        return f(n, proj)

    def compare(self, delta, outs):
        c = self.c42
        for g in ALLGENS:
            if isinstance(outs[g], tuple):
                return ("exception:%s:%s:real" % (g, outs[g][1]), "%s.generate() raised %s: %s" % (g, outs[g][1], outs[g][2]))
        exp = self.expect(delta)
        names = set(self.elem_names)
        got = self.parse(outs, names)
        k = delta["kind"]
        if got["xsd"]["kw"] != exp["xsd_kw"]:
            d = [(a, b) for a, b in zip(exp["xsd_kw"], got["xsd"]["kw"]) if a != b][:2]
            return ("real-%s:xsd:keyword-types" % k, "keyword simpleTypes (expected, got): %r" % d)
        d = c.diff_types(exp["xsd_types"], got["xsd"]["types"])
        if d:
            return ("real-%s:xsd:%s" % (k, d[0]), "XSD differs in %s: expected %r, got %r" % d)
        d = c.diff_table(exp["table"], got["table"])
        if d:
            return ("real-%s:table:%s" % (k, d[0]), "MJCF[] differs in %s: expected %r, got %r" % (d[0], str(d[1])[:600], str(d[2])[:600]))
        if got["map"] != exp["map"]:
            return ("real-%s:map" % k, "keyword maps differ")
        if exp["dm"] is not None:
            d = c.diff_dm(exp["dm"], got["dm"])
            if d:
                return ("real-%s:dm:%s" % (k, d[0]), "dm_control differs in %s: expected %r, got %r" % d)
        if got["read"] != exp["read"]:
            bad = [a for a in sorted(set(exp["read"]) | set(got["read"])) if exp["read"].get(a) != got["read"].get(a)]
            a = bad[0]
            return ("real-%s:read" % k, "read table array %s: expected tail %r, got tail %r"
                    % (a, (exp["read"].get(a) or [None])[-1], (got["read"].get(a) or [None])[-1]))
        if got["default"] != exp["default"]:
            return ("real-%s:default" % k, "default table changed although the edit declares no new bound default")
        return None


def run_real(ctx, rn, job):
    cfg, (res, states) = job
    ctx.tlc_ok(res, cfg[:-4])
    states = [s for s in states if s["edit"]["k"] != "none"]
    if len(states) < 10:
        raise Machinery("only %d edits" % len(states))
    kinds = {s["edit"]["k"] for s in states}
    if kinds != {"attr", "item", "con", "rename"}:
        raise Machinery("vacuity: edit kinds %s" % kinds)
    base = Base(rn)
    if base.failed:
        g, o = base.failed[0]
        ctx.case({"real": "base"})
        ctx.violation("exception:%s:%s:real-base" % (g, o[1]),
                      "%s.generate() raises %s on the unedited checked-in mjcf.schema: %s" % (g, o[1], o[2]),
                      {"edit": {"k": "none"}, "delta": {"kind": "none"}, "signature": "exception:%s:%s:real-base" % (g, o[1])})
        return
    base.check_facts(states)
    states.sort(key=lambda s: repr(tlc.to_py(s["edit"])))
    first_ok = None
    for st in states:
        edit, delta = st["edit"], st["delta"]
        text = apply_edit(base.text, edit)
        outs = base.gen(rn, text)
        res = base.compare(delta, outs)
        ctx.case({"edit": tlc.to_py(edit)}, sample={"origin": "real", "edit": tlc.to_py(edit)})
        if res is None:
            ctx.trace_ok()
            if first_ok is None and edit["k"] == "attr" and delta["inproj"]:
                first_ok = (delta, outs)
        else:
            ctx.violation(res[0], res[1][:1500] + " | edit: %r" % (tlc.to_py(edit),),
                          {"edit": tlc.to_py(edit), "delta": tlc.to_py(delta), "signature": res[0]})
    if first_ok is not None:
        delta, outs = first_ok
        d2 = dict(delta)
        d2["inproj"] = False
        ctx.control("real schema: an expected delta without the <default> projection is flagged",
                    base.compare(d2, outs) is not None)
        ctx.control("real schema: the outputs of the unedited schema do not satisfy an attribute delta",
                    base.compare(delta, base.outs) is not None)


def replay_edit(ctx, rn, r):
    base = Base(rn)
    if base.failed:
        g, o = base.failed[0]
        return ("exception:%s:%s:real-base" % (g, o[1]), "%s.generate() raises on the unedited schema" % g)
    edit, delta = r["edit"], r["delta"]
    if "kwlist" in delta:
        delta["kwlist"] = set(delta["kwlist"])
    return base.compare(delta, base.gen(rn, apply_edit(base.text, edit)))
