"""C01 - simulation is a deterministic function of the integration state: DataLifecycle.tla decided by TLC; its
behaviours replayed on pools of mjData instances (spec -> code), and with sleeping enabled recorded runs of the real
library validated against DataLifecycleTrace.tla (code -> spec)."""
import concurrent.futures as cf
import os

from vlib import tlc, drv
from vlib.check import Machinery, VERIF
from checks import tladump
from checks import _pipemodels as P

TLA = os.path.join(VERIF, "tla")
SPEC = os.path.join(TLA, "DataLifecycle.tla")
TSPEC = os.path.join(TLA, "DataLifecycleTrace.tla")

META = dict(
    engine="tlc-replay",
    technique="TLA+ spec DataLifecycle.tla (mjData instances as value ids of integration-state groups, derived-data "
              "provenance and hidden sleep state; every pipeline call hash-consed as a function of exactly what it reads) "
              "model-checked by TLC; every transition of the two-operation graph and simulated 12-operation histories are "
              "replayed on three instances + a pristine one over a pool of models x option combinations, comparing "
              "bytewise every class of fields the specification's obs declares equal; with sleeping enabled the "
              "recorded runs (with the measured fully-awake flag and measured equalities) are validated by TLC "
              "against DataLifecycleTrace.tla",
    text="TLC decides on DataLifecycle.tla that equal integration state (plus equal hidden sleep state when sleeping "
         "is enabled) gives equal results of forward / step / step1 / step2 / inverse whatever the history of the "
         "instances (fresh, reset, copied, used), that mj_copyState/mj_setState of mjSTATE_INTEGRATION and mj_copyData "
         "establish it while smaller signatures do not, that reset = fresh, and that read-only calls keep the state. "
         "The same histories run on the real library: wherever the specification says two instances agree on a "
         "class of fields (state groups, position/velocity stage data, constraint forces, qacc, qfrc_inverse, "
         "sensordata, or everything) the bytes are compared.",
    note="Trusted: TLC, harness pipe_drv.cc (field classes, patterns), the class -> mjData field map of "
         "checks/_pipemodels.py. Models come from a fixed pool of 8 (+2 for sleeping), not from a generator; callbacks, "
         "plugins that compute, flex and RK4+sleep are outside. A behaviour during which the engine raises a warning "
         "(bad values / autoreset) is discarded and counted.",
    ref="DESIGN.md section 4 C01")

PIPE = ("forward", "inverse", "step", "step1", "step2")
CLASSES = ("time", "qp", "hist", "plug", "warm", "ctrl", "app", "aux", "pv", "acc", "qacc", "sm", "inv", "sens", "efc")
NEED = ["MakeData", "ResetData", "CopyData", "CopyState", "GetState", "SetState", "SetInput", "SetAll", "SetQacc", "Forward", "Inverse",
        "Step", "Step1", "Step2"]
SLEEP_STEPS = 6          # one Step action = this many mj_step calls in the sleeping configuration


def defclass_lines():
    return ["defclass %s %s" % (c, P.CLASS_FIELDS[c]) for c in CLASSES]


USER_GROUPS = ("time", "qp", "plug", "warm", "ctrl", "app", "aux")


def op_lines(ev, steps=1):
    """driver lines of one operation (mj calls and field writes)"""
    if ev["op"] == "setall":
        return ["pat %d %s %d" % (ev["a"], g, ev["k"]) for g in USER_GROUPS]
    return [op_line(ev, steps)]


def op_line(ev, steps=1):
    op, a, b = ev["op"], ev["a"], ev["b"]
    if op == "make":
        return "data %d 1" % a
    if op == "reset":
        return "reset %d" % a
    if op == "copydata":
        return "copydata %d %d" % (a, b)
    if op == "copystate":
        return "copystate %d %d %d" % (a, b, P.sig_int(ev["sig"]))
    if op == "getstate":
        return "gsave 0 %d %d" % (a, P.sig_int(ev["sig"]))
    if op == "setstate":
        return "gload %d 0" % a
    if op == "setinput":
        return "pat %d %s %d" % (a, ev["g"], ev["k"])
    if op == "setqacc":
        return "pat %d qaccin %d" % (a, ev["k"])
    if op == "step":
        return "step %d %d" % (a, steps)
    if op in PIPE:
        return "%s %d" % (op, a)
    raise Machinery("unknown operation %r" % (ev,))


def claim_lines(ev, obs):
    """one comparison line per other instance: (line, (a, b, classes))"""
    a = ev["a"]
    by = {}
    for (b, c) in obs:
        by.setdefault(b, []).append(c)
    out = []
    for b in sorted(by):
        cl = sorted(by[b])
        if "all" in cl:
            out.append(("cmpall %d %d" % (a, b), (a, b, ("all",))))
        else:
            out.append(("cc %d %d %s" % (a, b, ",".join(cl)), (a, b, tuple(cl))))
    return out


def beh_script(beh, ni, model_slot):
    """script of one behaviour on one model slot; returns (lines, meta) with meta[i] = None | ("op", step) |
    ("claim", step, (a, b, classes)) | ("warn",)"""
    lines, meta = ["nwarn"], [("warn0",)]
    for d in range(ni + 1):
        lines.append("data %d %d" % (d, model_slot))
        meta.append(("op", -1))
    for si, st in enumerate(beh):
        ev = st["ev"]
        if ev["op"] == "init":
            continue
        lns = op_lines(ev)
        if ev["op"] == "make":
            lns = ["data %d %d" % (ev["a"], model_slot)]
        for ln in lns:
            lines.append(ln)
            meta.append(("op", si))
        for ln, cl in claim_lines(ev, st["obs"]):
            lines.append(ln)
            meta.append(("claim", si, cl))
    lines.append("nwarn")
    meta.append(("warn1",))
    return lines, meta


def ops_of(beh):
    return [(s["ev"]["op"], s["ev"]["a"], s["ev"]["b"], s["ev"]["sig"], s["ev"]["g"], s["ev"]["k"])
            for s in beh if s["ev"]["op"] != "init"]


def run_chunk(exe, prelude, items):
    """items: list of (key, lines); one process; returns {key: outputs} (None for everything after a crash)"""
    lines = list(prelude)
    idx = []
    for key, ls in items:
        idx.append((key, len(lines), len(ls)))
        lines += ls
    r = drv.run_script(exe, lines, timeout=1500)
    out = {}
    # the prelude's "xmodel ... end" blocks give one output line each: count outputs of the prelude
    npre = prelude_outputs(prelude)
    shift = npre - len(prelude)
    for key, off, n in idx:
        seg = r.lines[off + shift:off + shift + n]
        out[key] = seg if len(seg) == n else None
    return out, r


def prelude_outputs(prelude):
    n, inblock = 0, False
    for ln in prelude:
        if inblock:
            if ln == "end":
                inblock = False
            continue
        if ln.startswith("xmodel "):
            inblock = True
        n += 1
    return n


def prelude_for(exe, models):
    pre = []
    for mi, m in enumerate(models):
        pre += P.model_lines(exe, mi + 1, m)
    pre += defclass_lines()
    return pre


def diagnose(exe, script, bad, a, b, stage=0):
    """which sensors differ at the failing comparison (second, small driver run)"""
    r = drv.run_script(exe, script[:bad] + ["sensdiff %d %d %d" % (a, b, stage)], timeout=300)
    if r.crashed or not r.lines:
        return ""
    t = r.lines[-1].split()
    types = sorted(set(x.split(":")[0] for x in t[1:]))
    return "type" + "+".join(types) if types else ""


def replay_behaviours(ctx, exe, behs, models, per_beh_models, label):
    """spec -> code: run every behaviour on `per_beh_models` models of the pool (rotating), compare all claims"""
    if not behs:
        raise Machinery("no behaviours to replay (%s)" % label)
    ni = 3
    pre = prelude_for(exe, models)
    # group by option combination: options are set once per group and model
    groups = {}
    for bi, beh in enumerate(behs):
        opt = beh[0]["ev"]["opt"]
        for j in range(per_beh_models):
            mi = (bi + j * 3) % len(models)
            groups.setdefault((P.opt_key(opt), mi), []).append(bi)
    items = []
    metas = {}
    for (ok, mi), bis in sorted(groups.items()):
        opt = behs[bis[0]][0]["ev"]["opt"]
        ol = P.opt_lines(mi + 1, models[mi], opt)
        items.append((("opt", ok, mi), ol))
        for bi in bis:
            ls, meta = beh_script(behs[bi], ni, mi + 1)
            items.append((("beh", bi, mi), ls))
            metas[(bi, mi)] = (ls, meta, ol)
    nproc = 4
    chunks = [[] for _ in range(nproc)]
    # keep an option group and its behaviours in one chunk
    k = -1
    for it in items:
        if it[0][0] == "opt":
            k = (k + 1) % nproc
        chunks[k].append(it)
    results = {}
    crashes = []
    with cf.ThreadPoolExecutor(nproc) as ex:
        for out, r in ex.map(lambda ch: run_chunk(exe, pre, ch), [c for c in chunks if c]):
            results.update(out)
            if r.crashed:
                crashes.append(r)
    discarded = 0
    nclaims = 0
    for (bi, mi), (ls, meta, ol) in sorted(metas.items()):
        got = results.get(("beh", bi, mi))
        beh = behs[bi]
        ops = ops_of(beh)
        key = {"model": models[mi]["name"], "opt": P.opt_key(beh[0]["ev"]["opt"]), "ops": ops}
        npipe = sum(1 for o in ops if o[0] in PIPE)
        replay_script = pre + ol + ls
        if got is None:
            r = crashes[0] if crashes else None
            ctx.violation("crash:%s" % label, "harness died while replaying a behaviour on model %s: %s"
                          % (models[mi]["name"], r.crash_text() if r else "no output"),
                          {"script": replay_script, "line": -1, "want": "eq"})
            continue
        if got[0] != got[-1]:
            discarded += 1
            continue
        bad = None
        ncl = 0
        for i, (mt, g) in enumerate(zip(meta, got)):
            if mt[0] == "op":
                if g.startswith("error") or g.startswith("?") or g.startswith("MKMODEL") or g.startswith("FATAL"):
                    raise Machinery("operation %r failed on model %s: %s" % (ls[i], models[mi]["name"], g))
            elif mt[0] == "claim":
                ncl += 1
                if g != "eq" and bad is None:
                    bad = (i, mt, g)
        nclaims += ncl
        ctx.case(key, nontrivial=npipe > 0 and ncl > 0, sample={"model": key["model"], "opt": key["opt"], "ops": ops[:5]})
        if bad is None:
            ctx.trace_ok()
            continue
        i, mt, g = bad
        si, (a, b, classes) = mt[1], mt[2]
        fld = g[3:] if g.startswith("ne ") else g
        detail = ""
        if fld.endswith("sensordata"):
            detail = diagnose(exe, replay_script, len(pre) + len(ol) + i, a, b)
        if "/" not in fld:
            fld = "all/" + fld
        sig = "eq-claim:%s%s" % (fld, (":" + detail) if detail else "")
        ev = beh[si]["ev"]
        what = ("after %s on instance %d the specification declares classes %s of instances %d and %d identical "
                "(same integration state, same inputs read), the library differs in %s %s; model %s, options %s, "
                "history %s" % (ev["op"], a, list(classes), a, b, fld, detail, models[mi]["name"], key["opt"],
                                ops[:si]))
        ctx.violation(sig, what, {"script": replay_script, "line": len(pre) + len(ol) + i, "want": "eq"})
    if discarded * 20 > len(metas):
        raise Machinery("%d of %d behaviours raised engine warnings: patterns are not tame" % (discarded, len(metas)))
    return dict(behaviours=len(behs), runs=len(metas), discarded=discarded, claims=nclaims)


# ---- code -> spec with sleeping enabled ---------------------------------------------------------------------
def sleep_script(beh, ni, model_slot):
    lines, meta = ["nwarn"], [("warn0",)]
    for d in range(ni + 1):
        lines.append("data %d %d" % (d, model_slot))
        meta.append(("op", -1))
    allc = ",".join(CLASSES + ("all",))
    for si, st in enumerate(beh):
        ev = st["ev"]
        if ev["op"] == "init":
            continue
        lns = op_lines(ev, steps=SLEEP_STEPS)
        if ev["op"] == "make":
            lns = ["data %d %d" % (ev["a"], model_slot)]
        for ln in lns[:-1]:
            lines.append(ln)
            meta.append(("op", -2))
        lines.append(lns[-1])
        meta.append(("op", si))
        lines.append("awake %d" % ev["a"])
        meta.append(("awake", si))
        for b in range(ni + 1):
            if b != ev["a"]:
                lines.append("ccs %d %d %s" % (ev["a"], b, allc))
                meta.append(("eq", si, b))
    lines.append("nwarn")
    meta.append(("warn1",))
    return lines, meta


def sleep_part(ctx, exe, behs, quick):
    models = P.SLEEP_MODELS
    ni = 3
    pre = prelude_for(exe, models)
    items, metas = [], {}
    for bi, beh in enumerate(behs):
        mi = bi % len(models)
        opt = beh[0]["ev"]["opt"]
        ol = P.opt_lines(mi + 1, models[mi], opt, sleep=True)
        ls, meta = sleep_script(beh, ni, mi + 1)
        items.append((("beh", bi, mi), ol + ls))
        metas[(bi, mi)] = (ls, meta, ol)
    nproc = 4
    chunks = [items[i::nproc] for i in range(nproc)]
    results = {}
    with cf.ThreadPoolExecutor(nproc) as ex:
        for out, r in ex.map(lambda ch: run_chunk(exe, pre, ch), [c for c in chunks if c]):
            results.update(out)
    traces, info = [], []
    asleep_seen = 0
    notfa = 0
    for (bi, mi), (ls, meta, ol) in sorted(metas.items()):
        got = results.get(("beh", bi, mi))
        if got is None:
            ctx.violation("crash:sleep", "harness died while running a sleeping behaviour on model %s" % models[mi]["name"],
                          {"script": pre + ol + ls, "line": -1, "want": "eq"})
            continue
        got = got[len(ol):]
        if got[0] != got[-1]:
            continue
        evs = {}
        for mt, g in zip(meta, got):
            if mt[0] == "op" and mt[1] >= 0:
                if g.startswith("error") or g.startswith("?") or g.startswith("MKMODEL") or g.startswith("FATAL"):
                    raise Machinery("operation failed in sleeping run on model %s: %s" % (models[mi]["name"], g))
                ev = behs[bi][mt[1]]["ev"]
                evs[mt[1]] = {"op": ev["op"], "a": ev["a"], "b": ev["b"], "sig": ev["sig"], "g": ev["g"], "k": ev["k"],
                              "fa": True, "eq": []}
            elif mt[0] == "awake":
                f, n = g.split()
                evs[mt[1]]["fa"] = f == "1"
                asleep_seen += int(n) > 0
                notfa += f != "1"
            elif mt[0] == "eq":
                if g != "-":
                    evs[mt[1]]["eq"] += [[mt[2], c] for c in g.split()]
        tr = [evs[k] for k in sorted(evs)]
        if tr:
            traces.append(tr)
            info.append((bi, mi))
    if not traces:
        raise Machinery("no sleeping traces recorded")
    if asleep_seen == 0 or notfa == 0:
        raise Machinery("vacuity: no recorded call left a tree asleep (%d) / not fully awake (%d)" % (asleep_seen, notfa))
    cfg = os.path.join(TLA, "DataLifecycleTrace.cfg")
    # negative control: drop one measured equality the specification claims -> a MISS line must appear
    import copy
    ctl = None
    for t in traces:
        for li, e in enumerate(t):
            if e["op"] == "copydata" and [e["b"], "all"] in e["eq"]:
                ctl = copy.deepcopy(t[:li + 1])
                ctl[li]["eq"] = [x for x in ctl[li]["eq"] if x != [e["b"], "all"]]
                break
        if ctl:
            break
    batch = traces + ([ctl] if ctl else [])
    res, verdicts = tlc.validate_traces(TSPEC, cfg, batch, timeout=1500)
    ctx.cov["tlc_runs"].append({"name": "DataLifecycleTrace", "generated": res.generated, "distinct": res.distinct,
                                "depth": res.depth, "wall_s": round(res.wall, 2), "queue_left": res.queue,
                                "violation": res.violation})
    ctx.cov["states"] += res.distinct
    ctx.cov["transitions"] += res.generated
    if res.violation and "Invariant" in res.violation:
        raise Machinery("a recorded run drives DataLifecycle.tla into a state violating %s\n%s"
                        % (res.violation, res.out[-1500:]))
    if len(verdicts) != len(batch):
        raise Machinery("trace validation produced %d verdicts for %d traces: %s"
                        % (len(verdicts), len(batch), res.error or res.out[-800:]))
    import re
    misses = {}
    for m in re.finditer(r'<<"MISS", (\d+), (\d+), (\d+), "(\w+)">>', res.out):
        misses.setdefault(int(m.group(1)), []).append((int(m.group(2)), int(m.group(3)), m.group(4)))
    if ctl:
        ctx.control("a measured equality removed from a recorded trace is reported as MISS by the trace specification",
                    len(batch) in misses)
    else:
        raise Machinery("no copydata event available for the negative control of the trace validation")
    for ti, tr in enumerate(traces, start=1):
        bi, mi = info[ti - 1]
        v = verdicts.get(ti)
        ops = [(e["op"], e["a"], e["b"], e["sig"], e["g"], e["k"], e["fa"]) for e in tr]
        key = {"model": models[mi]["name"], "opt": P.opt_key(behs[bi][0]["ev"]["opt"]), "ops": ops}
        ctx.case(key, nontrivial=any(not e["fa"] for e in tr), sample={"model": key["model"], "ops": ops[:4]})
        if v is None or v[0] != v[1]:
            raise Machinery("trace %d not consumed by DataLifecycleTrace (%r): the recorded run is not a behaviour of "
                            "the specification\n%s" % (ti, v, res.out[-1500:]))
        if ti not in misses:
            ctx.trace_ok()
            continue
        l, b, c = sorted(misses[ti])[0]
        e = tr[l - 1]
        ls, meta, ol = metas[(bi, mi)]
        si = sorted(set(mt[1] for mt in meta if mt[0] == "awake"))[l - 1]
        li = len(pre) + len(ol) + meta.index(("eq", si, b))
        ctx.violation("sleep-eq-claim:%s" % c,
                      "sleeping enabled: after %s on instance %d (fully awake after the call: %s) DataLifecycleTrace "
                      "declares class %s of instances %d and %d identical, the library differs; model %s, history %s"
                      % (e["op"], e["a"], e["fa"], c, e["a"], b, models[mi]["name"], ops[:l]),
                      {"script": pre + ol + ls, "line": li, "want": "has:" + c})
    return dict(traces=len(traces), asleep_events=asleep_seen, not_fully_awake_events=notfa)


class _Shortest:
    """collects violations and reports, per signature, the shortest replay that reproduces in a process of its own
    (a difference caused by uninitialised memory may depend on what the process did before)"""

    def __init__(self, ctx, exe_fn, reproduces):
        self._ctx = ctx
        self._cand = {}
        self._exe_fn = exe_fn
        self._reproduces = reproduces

    def __getattr__(self, name):
        return getattr(self._ctx, name)

    def violation(self, signature, what, replay=None):
        key = (len((replay or {}).get("script", [])), what)
        c = self._cand.setdefault(signature, [])
        c.append((key, what, replay))
        c.sort(key=lambda x: x[0])
        del c[12:]

    def flush(self):
        for sig in sorted(self._cand):
            cands = self._cand[sig]
            pick = None
            for (_k, what, replay) in cands[:6]:
                try:
                    if self._reproduces(self._exe_fn(), replay):
                        pick = (what, replay)
                        break
                except Exception:
                    pass
            if pick is None:
                _k, what, replay = cands[0]
                pick = (what + " [this replay does not reproduce in a fresh process: the difference depends on "
                        "uninitialised memory]", replay)
            self._ctx.violation(sig, pick[0], pick[1])


def reproduces(exe, rp):
    """does the replay script show the mismatch when run in a process of its own"""
    sc, line, want = rp.get("script") or [], rp.get("line", -1), rp.get("want", "eq")
    if not sc or want == "trace":
        return True
    r = drv.run_script(exe, sc, timeout=600)
    if line < 0:
        return r.crashed
    shift = prelude_outputs(sc) - len(sc)
    got = r.lines[line + shift] if 0 <= line + shift < len(r.lines) else "<none>"
    if want.startswith("has:"):
        return want[4:] not in got.split()
    return got.strip() != want.strip()


def run(real_ctx):
    ctx = _Shortest(real_ctx, P.harness, reproduces)
    try:
        _run(ctx)
    finally:
        ctx.flush()


def _run(ctx):
    exe = P.harness()
    quick = ctx.quick
    ctx.assume("instances of one model; the model pool is fixed (8 models + 2 with sleeping), crossed with integrator x "
               "solver x cone x jacobian x island options chosen by the specification's initial state",
               "user patterns keep quaternions normalised and values small; behaviours during which the engine raises "
               "a warning are discarded",
               "inverse dynamics treats qacc as an input, mj_step2 the position/velocity stage data (both are "
               "explicit inputs of the specification's calls)",
               "sleeping: equality is claimed only for equal hidden sleep state (mj_copyData, same history, or every "
               "tree fully awake as measured on the library); one Step action = %d mj_step calls there" % SLEEP_STEPS,
               "no callbacks are installed")
    nsim = 120 if quick else 1200
    nsleep = 60 if quick else 400
    sel = lambda act, blk: None if act == "Choose" else ("ev", "obs")        # noqa: E731
    sel_ev = lambda act, blk: None if act == "Choose" else ("ev",)           # noqa: E731
    jobs = {
        "mc": lambda: tlc.run(SPEC, os.path.join(TLA, "DataLifecycle_MC.cfg" if quick else "DataLifecycle_Deep.cfg"),
                              coverage=True, timeout=1500, workers=4),
        "graph": lambda: tlc.dump_graph(SPEC, os.path.join(TLA, "DataLifecycle_Graph.cfg"), timeout=900, workers=2),
        "scen": lambda: tlc.dump_graph(SPEC, os.path.join(TLA, "DataLifecycle_Scen.cfg" if quick else
                                                         "DataLifecycle_ScenDeep.cfg"), timeout=1500, workers=2),
        "negsig": lambda: tlc.run(SPEC, os.path.join(TLA, "DataLifecycle_NegSig.cfg"), timeout=900, workers=2),
        "negsleep": lambda: tlc.run(SPEC, os.path.join(TLA, "DataLifecycle_NegSleep.cfg"), timeout=900, workers=2),
        "sim": lambda: tladump.simulate(SPEC, os.path.join(TLA, "DataLifecycle_ScenSim.cfg"), num=nsim, depth=25,
                                        seed=ctx.seed + 1, timeout=1500, select=sel),
        "sleepsim": lambda: tladump.simulate(SPEC, os.path.join(TLA, "DataLifecycle_SleepSim.cfg"), num=nsleep, depth=25,
                                             seed=ctx.seed + 2, timeout=1500, select=sel_ev),
    }
    if not quick:
        jobs["three"] = lambda: tlc.run(SPEC, os.path.join(TLA, "DataLifecycle_Three.cfg"), coverage=True, timeout=1500,
                                        workers=4)
        jobs["sleepmc"] = lambda: tlc.run(SPEC, os.path.join(TLA, "DataLifecycle_SleepMC.cfg"), coverage=True,
                                          timeout=1500, workers=4)
    with cf.ThreadPoolExecutor(len(jobs)) as ex:
        futs = {k: ex.submit(f) for k, f in jobs.items()}
        out = {k: f.result() for k, f in futs.items()}
    ctx.tlc_ok(out["mc"], "DataLifecycle_MC" if quick else "DataLifecycle_Deep", need_actions=NEED)
    if not quick:
        ctx.tlc_ok(out["three"], "DataLifecycle_Three", need_actions=NEED)
        ctx.tlc_ok(out["sleepmc"], "DataLifecycle_SleepMC", need_actions=NEED)
    # negative controls inside the specification: the claims that must NOT hold are refuted by TLC
    r = out["negsig"]
    ctx.tlc_ok(r, "DataLifecycle_NegSig", allow_violation=True)
    ctx.control("TLC refutes 'mj_copyState without the warm start gives the integration state' (GoodSig)",
                bool(r.violation) and "GoodSig" in r.violation)
    r = out["negsleep"]
    ctx.tlc_ok(r, "DataLifecycle_NegSleep", allow_violation=True)
    ctx.control("TLC refutes Determinism with sleeping enabled when the hidden sleep state is left out of the claim",
                bool(r.violation) and "Determinism" in r.violation)
    res, nodes, edges, inits = out["graph"]
    ctx.tlc_ok(res, "DataLifecycle_Graph")
    paths = tlc.edge_cover_paths(nodes, edges, inits)
    gbehs = [[nodes[i] for i in p] for p in paths]
    res, snodes, sedges, sinits = out["scen"]
    ctx.tlc_ok(res, "DataLifecycle_Scen" if quick else "DataLifecycle_ScenDeep")
    spaths = tlc.edge_cover_paths(snodes, sedges, sinits)
    cbehs = [[snodes[i] for i in p] for p in spaths]
    res, sims = out["sim"]
    ctx.tlc_ok(res, "DataLifecycle_ScenSim")
    sbehs = [[s for (_a, s) in b] for b in sims]
    sbehs = [b for b in sbehs if len(b) > 1]
    st1 = replay_behaviours(ctx, exe, gbehs, P.MODELS, 1 if quick else 4, "graph")
    st2 = replay_behaviours(ctx, exe, sbehs, P.MODELS, 2 if quick else len(P.MODELS), "sim")
    st4 = replay_behaviours(ctx, exe, cbehs, P.MODELS, 1 if quick else 2, "scenario")
    # negative control on the comparer: a perturbed warm-start entry must be reported (and only then)
    pre = prelude_for(exe, P.MODELS)
    neg = pre + ["data 1 2", "data 2 2", "pat 1 qp 1", "step 1 3", "copystate 2 1 %d" % P.sig_int("INTEGRATION"),
                 "cc 1 2 qp,warm,ctrl", "set 2 qacc_warmstart 0 0.4321", "cc 1 2 qp,warm,ctrl"]
    r = drv.run_script(exe, neg, timeout=300)
    ctx.control("a perturbed qacc_warmstart entry is reported by the bytewise comparer (and only then)",
                (not r.crashed) and len(r.lines) > 2 and r.lines[-3] == "eq" and r.lines[-1] == "ne warm/qacc_warmstart")
    res, sl = out["sleepsim"]
    ctx.tlc_ok(res, "DataLifecycle_SleepSim")
    slbehs = [[s for (_a, s) in b] for b in sl]
    slbehs = [b for b in slbehs if len(b) > 1]
    st3 = sleep_part(ctx, exe, slbehs, quick)
    ctx.cov["exhaustive"] = False
    ctx.cov["rule"] = ("spec->code: edge cover of the exhaustive 2-operation graph (%d edges, %d paths), edge cover of the "
                       "exhaustive scenario graph (histories over the directed alphabet, then a synchronisation and the "
                       "same call forced on both instances: %d edges, %d paths) + %d simulated 12-operation scenario "
                       "histories of 3 instances, each run on %d / %d / %d models of the pool with the option "
                       "combination of its initial state (%d runs, %d bytewise class comparisons, %d runs discarded for "
                       "engine warnings); code->spec: %d recorded sleeping runs validated by DataLifecycleTrace (%d calls "
                       "left a tree asleep, %d left the instance not fully awake); non-trivial = at least one pipeline "
                       "call and one claim; distinct = distinct (model, options, operation sequence)"
                       % (len(edges), len(paths), len(sedges), len(spaths), len(sbehs), 1 if quick else 4,
                          1 if quick else 2, 2 if quick else len(P.MODELS),
                          st1["runs"] + st2["runs"] + st4["runs"], st1["claims"] + st2["claims"] + st4["claims"],
                          st1["discarded"] + st2["discarded"] + st4["discarded"],
                          st3["traces"], st3["asleep_events"], st3["not_fully_awake_events"]))


def replay(ctx, rp):
    exe = P.harness()
    sc = rp["replay"]["script"]
    line = rp["replay"]["line"]
    r = drv.run_script(exe, sc, timeout=600)
    npre = prelude_outputs(sc)
    shift = npre - len(sc)
    if line < 0:
        print("crash replay: rc=%s" % r.rc)
        if r.crashed:
            ctx.violation(rp["signature"], rp["what"], rp["replay"])
    else:
        got = r.lines[line + shift] if 0 <= line + shift < len(r.lines) else "<none>"
        want = rp["replay"].get("want", "eq")
        print("line %d (%s): want %s got %s" % (line, sc[line], want, got))
        ok = (got == "eq") if want == "eq" else (want[4:] in got.split())
        if not ok:
            ctx.violation(rp["signature"], rp["what"], rp["replay"])
    ctx.case({"replay": rp["signature"]})
    ctx.case({"replay": rp["signature"], "x": 1})
