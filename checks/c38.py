"""C38 - the asset cache is a bounded priority cache (Cache.tla, CacheTrace.tla).

spec -> code: TLC behaviours of Cache.tla (edge cover of a reduced exhaustive graph + simulated long
histories over the full constants) are replayed into the real mjCCache (white-box harness); after every
operation the return value, the returned data token, the size and the capacity are compared.
code -> spec: seeded random sequential histories and seeded random *concurrent* histories (2-3 threads under
the controlled scheduler, std::mutex a yield point; linearised in lock-acquisition order, every public
method must take the lock exactly once) are validated by CacheTrace.tla with all invariants on every state.
"""
import concurrent.futures as cf
import json
import os
import random
import subprocess

from vlib import build, tlc, drv
from vlib.check import Machinery, VERIF

TLA = os.path.join(VERIF, "tla")

META = dict(
    engine="tlc-replay",
    technique="TLA+ spec Cache.tla model-checked by TLC; behaviours replayed into the real mjCCache; random sequential "
              "and concurrent (controlled scheduler) histories validated by the trace spec CacheTrace.tla",
    text="TLC decides SizeIsSum/Bounded/RefsAgree/NoOrphans/eviction order/shared-asset survival/lookup freshness for "
         "all histories within the bounds; the implementation is bound in both directions, including concurrent "
         "histories linearised at the mutex.",
    note="Trusted: TLC, harness cache_drv.cc (fake resource provider comparing timestamps), shim/sched. Concurrency is "
         "decided at the granularity of the mutex (each public method one critical section); data races inside a "
         "critical section are not decided.",
    ref="DESIGN.md section 4 C38")


def harness():
    V = VERIF
    return build.build_harness("cache_drv", [V + "/harness/cache_drv.cc", build.REPO + "/src/user/user_cache.cc"],
                               extra=["-include", V + "/shim/sched/sched_prelude.h", "-DVERIF_SCHED_MUTEX"])


def cmd_of(ev):
    op = ev["op"]
    if op == "insert":
        return "insert %s %s %s %d %d" % (ev["m"], ev["id"], ev["ts"], ev["b"], ev["tok"])
    if op == "populate":
        return "populate %s %s" % (ev["id"], ev["ts"])
    if op in ("has", "delete"):
        return "%s %s" % (op, ev["id"])
    if op in ("removemodel", "resetmodel"):
        return "%s %s" % (op, ev["m"])
    if op == "resetall":
        return "resetall"
    if op == "setcap":
        return "setcap %d" % ev["c"]
    raise Machinery("unknown op %r" % (ev,))


def want_of(ev, cap):
    op = ev["op"]
    if op == "insert":
        r = str(ev["ret"])
    elif op == "populate":
        r = "%d:%d" % (ev["ret"], ev["tok"])
    elif op == "has":
        r = ev["ret"]
    else:
        r = "ok"
    return "%s %d %d" % (r, ev["size"], cap)


def parse_res(cmd, res):
    """harness result -> trace event fields"""
    t = cmd.split()
    op = t[0]
    e = {"op": op, "size": -1}
    if op == "insert":
        e.update(m=t[1], id=t[2], ts=t[3], b=int(t[4]), tok=int(t[5]), ret=int(res))
    elif op == "populate":
        r, tok = res.split(":")
        e.update(id=t[1], ts=t[2], ret=int(r), tok=int(tok))
    elif op == "has":
        e.update(id=t[1], ret=res)
    elif op == "delete":
        e.update(id=t[1])
    elif op in ("removemodel", "resetmodel"):
        e.update(m=t[1])
    elif op == "setcap":
        e.update(c=int(t[1]))
    return e


def rand_op(rng, tok):
    k = rng.random()
    m = rng.choice(["m1", "m2", "m3"])
    i = rng.choice(["x", "y", "z", "w"])
    ts = rng.choice(["t1", "t2", "t3"])
    if k < 0.40:
        return "insert %s %s %s %d %d" % (m, i, ts, rng.choice([1, 2, 3, 4]), tok)
    if k < 0.60:
        return "populate %s %s" % (i, ts)
    if k < 0.68:
        return "has %s" % i
    if k < 0.76:
        return "removemodel %s" % m
    if k < 0.82:
        return "resetmodel %s" % m
    if k < 0.85:
        return "resetall"
    if k < 0.92:
        return "delete %s" % i
    return "setcap %d" % rng.choice([0, 1, 2, 3, 4, 5, 6, 8])


def validate(ctx, traces, labels, control_idx=None, name="CacheTrace"):
    B = 400
    for off in range(0, len(traces), B):
        chunk = traces[off:off + B]
        res, verdicts = tlc.validate_traces(os.path.join(TLA, "CacheTrace.tla"), os.path.join(TLA, "CacheTrace.cfg"),
                                            chunk, timeout=1500)
        ctx.cov["tlc_runs"].append({"name": "%s[%d]" % (name, off), "generated": res.generated, "distinct": res.distinct,
                                    "wall_s": round(res.wall, 1)})
        ctx.cov["states"] += res.distinct
        ctx.cov["transitions"] += res.generated
        if res.violation and "Invariant" in res.violation:
            ctx.violation("trace:invariant:" + res.violation, "a recorded history drives Cache.tla into a state violating "
                          + res.violation, {"mode": name, "labels": labels[off:off + B][:20]})
            continue
        if len(verdicts) != len(chunk):
            raise Machinery("trace validation produced %d verdicts for %d traces: %s" % (
                len(verdicts), len(chunk), (res.error or res.out[-800:])))
        for i, tr in enumerate(chunk):
            reached, ln = verdicts[i + 1]
            gi = off + i
            if control_idx is not None and gi == control_idx:
                ctx.control("corrupted recorded result is rejected by the trace spec", reached < ln)
                continue
            ctx.case({"trace": tr}, nontrivial=len(tr["evs"]) > 1, sample={"cap": tr["cap"], "evs": tr["evs"][:8]})
            if reached == ln:
                ctx.trace_ok()
            else:
                e = tr["evs"][reached]
                ctx.violation("trace:unexplained:%s:ret=%s" % (e["op"], e.get("ret", "-")),
                              "%s history %s: event %d %s is not a step of Cache.tla" % (name, labels[gi], reached, e),
                              {"mode": name, "label": labels[gi], "cap": tr["cap"], "evs": tr["evs"][:reached + 1]})


def run(ctx):
    exe = harness()
    ctx.assume("histories over 2-3 models, 2-4 asset ids, 2-3 timestamps, sizes 1-4, capacities 0-8",
               "concurrency at mutex granularity, linearised in lock-acquisition order (controlled scheduler)")
    spec = os.path.join(TLA, "Cache.tla")
    res = tlc.run(spec, os.path.join(TLA, "Cache_MC.cfg"), coverage=True, timeout=1200)
    ctx.tlc_ok(res, "Cache_MC", need_actions=["Insert", "Populate", "Has", "RemoveModel", "ResetModel", "ResetAll",
                                              "DeleteAsset", "SetCapacity"])
    # ---- spec -> code
    res, nodes, edges, inits = tlc.dump_graph(spec, os.path.join(TLA, "Cache_Graph.cfg"), timeout=1200)
    ctx.tlc_ok(res, "Cache_Graph")
    paths = tlc.edge_cover_paths(nodes, edges, inits)
    if ctx.quick:
        paths = sorted(paths, key=lambda p: (-len(p), p))[:6000]
    behs = [[nodes[i] for i in p] for p in paths]
    nsim = 300 if ctx.quick else 5000
    res, sims = tlc.simulate(spec, os.path.join(TLA, "Cache_Sim.cfg"), num=nsim, depth=15, seed=ctx.seed + 1, timeout=900)
    ctx.tlc_ok(res, "Cache_Sim")
    behs += [[s for (_a, s) in b] for b in sims]
    lines, wants, index = [], [], []
    for bi, beh in enumerate(behs):
        start = len(lines)
        lines.append("new %d" % beh[0]["cap"])
        wants.append("ok 0 %d" % beh[0]["cap"])
        for st in beh[1:]:
            lines.append(cmd_of(st["ev"]))
            wants.append(want_of(st["ev"], st["cap"]))
        index.append((start, len(lines)))
    r = drv.run_script(exe, lines, timeout=900)
    bad = list(wants[:40])
    k = next(i for i, w in enumerate(bad) if i > 0)
    bad[k] = bad[k] + "9"
    ctx.control("perturbed expectation is flagged by the comparer", bad != r.lines[:40])
    for (a, b), beh in zip(index, behs):
        ops = lines[a:b]
        ctx.case({"ops": ops}, nontrivial=b - a > 1, sample={"ops": ops[:8]})
        got = r.lines[a:b]
        if got == wants[a:b]:
            ctx.trace_ok()
            continue
        k = next((i for i in range(b - a) if i >= len(got) or got[i] != wants[a + i]), 0)
        if a + k >= len(r.lines) and r.crashed:
            ctx.violation("crash", "harness died: " + r.crash_text(), {"mode": "replay", "script": ops})
            break
        op = ops[k].split()[0]
        g = got[k] if k < len(got) else "<none>"
        w = wants[a + k]
        field = "ret" if g.split()[0] != w.split()[0] else ("size" if g.split()[1:2] != w.split()[1:2] else "capacity")
        ctx.violation("replay:%s:%s" % (op, field), "after %s: %s answered '%s' (ret size capacity), Cache.tla expects '%s'" % (
            ops[:k], ops[k], g, w), {"mode": "replay", "script": ops[:k + 1], "want": w, "got": g})
    # ---- code -> spec: random sequential histories (long) through the trace spec
    rng = random.Random(ctx.seed * 7919 + 17)
    nseq = 150 if ctx.quick else 3000
    lines, bounds, caps = [], [], []
    for h in range(nseq):
        cap = rng.choice([2, 3, 4, 5, 6, 8])
        n = rng.randint(8, 40)
        start = len(lines)
        lines.append("new %d" % cap)
        for k in range(n):
            lines.append(rand_op(rng, 1000 + k))
        bounds.append((start, len(lines)))
        caps.append(cap)
    r = drv.run_script(exe, lines, timeout=900)
    if r.crashed or len(r.lines) != len(lines):
        ctx.violation("crash", "harness died on random sequential histories: " + r.crash_text(), {"mode": "seqrandom"})
    traces, labels = [], []
    for (a, b), cap in zip(bounds, caps):
        evs = []
        for i in range(a + 1, min(b, len(r.lines))):
            f = r.lines[i].split()
            e = parse_res(lines[i], f[0])
            e["size"] = int(f[1])
            evs.append(e)
            if lines[i].startswith("setcap"):
                pass
        traces.append({"cap": cap, "evs": evs})
        labels.append({"seqrandom": lines[a:b]})
    ctrl = None
    src = next((i for i, t in enumerate(traces) if any(e["op"] == "insert" and e["ret"] == 1 for e in t["evs"])), None)
    if src is not None:
        badt = json.loads(json.dumps(traces[src]))
        e = next(e for e in badt["evs"] if e["op"] == "insert" and e["ret"] == 1)
        e["size"] += 1
        traces.append(badt)
        labels.append("control")
        ctrl = len(traces) - 1
    validate(ctx, traces, labels, ctrl, "seqrandom")
    # ---- code -> spec: concurrent histories under the controlled scheduler
    nconc = 250 if ctx.quick else 4000
    jobs = []
    for h in range(nconc):
        cap = rng.choice([2, 3, 4, 6])
        nth = rng.choice([2, 3])
        progs = []
        for t in range(nth):
            progs.append([rand_op(rng, (t + 1) * 100 + k) for k in range(rng.randint(2, 5))])
        inp = ["new %d" % cap] + ["thread " + " ; ".join(p) for p in progs] + ["random %d" % (ctx.seed * 1000003 + h + 1)]
        jobs.append((cap, progs, inp))

    def one(job):
        p = subprocess.run([exe], input="\n".join(job[2]) + "\n", capture_output=True, text=True, timeout=60)
        return p.returncode, p.stdout

    with cf.ThreadPoolExecutor(16) as ex:
        outs = list(ex.map(one, jobs))
    traces, labels = [], []
    for (cap, progs, inp), (rc, out) in zip(jobs, outs):
        evs, end = [], None
        for ln in out.splitlines()[1:]:
            try:
                e = json.loads(ln)
            except ValueError:
                continue
            if "end" in e:
                end = e
            else:
                evs.append(e)
        if rc != 0 or end is None or end["end"] != "done":
            ctx.violation("concurrent:" + (end["end"] if end else "crash"), "concurrent history ended with %s (rc %s)" % (end, rc),
                          {"mode": "concurrent", "input": inp})
            continue
        # linearise: the k-th lock event of thread t is the k-th operation of thread t
        nlock = {}
        order = []
        results = {}
        final = None
        for e in evs:
            if e["op"] == "lock" and e["t"] != 0:
                k = nlock.get(e["t"], 0)
                nlock[e["t"]] = k + 1
                order.append((e["t"], k))
            elif e["op"] == "ret":
                results[(e["t"], e["k"])] = (e["cmd"].strip(), e["res"])
            elif e["op"] == "final":
                final = e
        ok = all(nlock.get(t + 1, 0) == len(p) for t, p in enumerate(progs))
        if not ok:
            ctx.violation("concurrent:locking-discipline", "public cache methods must take the mutex exactly once each: "
                          "locks per thread %s for programs of lengths %s" % (nlock, [len(p) for p in progs]),
                          {"mode": "concurrent", "input": inp})
            continue
        tev = [parse_res(*results[o]) for o in order]
        tev.append({"op": "final", "size": final["size"], "c": final["cap"]})
        traces.append({"cap": cap, "evs": tev})
        labels.append({"input": inp})
    validate(ctx, traces, labels, None, "concurrent")
    ctx.cov["exhaustive"] = True
    ctx.cov["rule"] = ("replay: %d edge-cover paths of the reduced exhaustive graph + %d simulated 14-operation behaviours; "
                       "trace validation: %d random sequential histories (8-40 ops) + %d random concurrent histories "
                       "(2-3 threads); non-trivial = at least one operation; distinct = distinct operation sequences"
                       % (len(paths), len(sims), nseq, nconc))


def replay(ctx, rp):
    exe = harness()
    r = rp["replay"]
    if r.get("mode") == "replay":
        out = drv.run_script(exe, r["script"], timeout=60)
        got = out.lines[-1] if out.lines else "<none>"
        print("want:", r["want"], "got:", got)
        if got != r["want"]:
            ctx.violation(rp["signature"], rp["what"], r)
    elif "evs" in r:
        res, verdicts = tlc.validate_traces(os.path.join(TLA, "CacheTrace.tla"), os.path.join(TLA, "CacheTrace.cfg"),
                                            [{"cap": r["cap"], "evs": r["evs"]}])
        print("verdict:", verdicts, res.violation)
        v = verdicts.get(1, (0, 1))
        if res.violation or v[0] != v[1]:
            ctx.violation(rp["signature"], rp["what"], r)
    else:
        ctx.violation(rp["signature"], rp["what"], r)
    ctx.case({"r": 1})
    ctx.case({"r": 2})
